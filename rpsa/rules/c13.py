"""C13  A dying pilot fails its own tasks and only those  (DESIGN 5 / C13)

R13.1  in TaskManager._pilot_state_cb the update that sets a task FAILED is
       control dependent (right polarity) on
         (a) the pilot's state being final,
         (b) a comparison of the task's pilot binding with that pilot's uid,
         (c) the task's state not being final,
       on nothing else that depends on the task or the pilot, and the
       explanation it carries is built from the pilot's uid.
R13.2  TaskManager.add_pilots registers _pilot_state_cb for the pilot state
       metric on every pilot object it is given.
R13.3  no guard of that update tests whether the ending pilot (or the pilot
       the task is bound to) is an entry of a manager table from which another
       method removes entries without taking care of the bound tasks
       (`self._pilots`, shrunk by remove_pilots): the callback stays
       registered on a removed pilot and its tasks stay bound to it.
R13.4  in Pilot._update no call that runs callbacks of another registry
       (PilotManager._call_pilot_callbacks -> application code) without a
       try/except around it can run before an invocation of the pilot
       specific callbacks, among which add_pilots registered _pilot_state_cb:
       an application callback that raises must not keep the task manager
       from learning that the pilot ended.
R13.5  registration lifetime (the other half of R13.3: a path on which the
       pilot of a bound, non-final task can end without the FAILED update
       being reachable).  The callback add_pilots registers stays on the
       pilot as long as tasks can be bound to it: no method of TaskManager
       other than close (and what only close calls) takes it out of the
       callback registry of a pilot - by a method of the pilot which removes
       entries of the registry (decided for the arguments of the call: all
       entries / the entry with the id() of the given callable / the entries
       equal to it), or by handling the registry of the pilot directly -
       unless that method or its callers handle the tasks (then: undecided,
       ANALYSIS-ERROR).  What add_pilots itself removes before it registers
       the callback does not count.

The chain notification -> Pilot._state -> callbacks -> Task.pilot, without
which the callback cannot do what R13.1 decides it does:

R13.6  in Pilot._update every path from the entry to an invocation of the
       pilot specific callbacks writes the state of the notification to the
       attribute _pilot_state_cb reads (Pilot.state -> self._state); the
       write may be skipped only along an edge on which that state equals the
       state the pilot has (a comparison of just these two).  A write that
       follows the invocation, or one of another value, leaves the callback
       looking at the previous state: no task is failed.  A write on some
       paths only under another condition is decided per pair (final state
       notified, non-final state of the pilot): the tests about either state
       are evaluated over the folded state tables; a pair for which a path
       reaches the invocation without a write is a finding (tests that cannot
       be evaluated: undecided, ANALYSIS-ERROR).
R13.7  every attribute of the task the callback tests - the pilot binding
       and the state - is one Task._update copies from the entry of the same
       name of the state notification whenever the notification carries a
       value for it (producer / consumer agreement on the key: the loop over
       the literal key collection is evaluated per key, its guards by
       presence of the value or by the key).
R13.8  C14's R14.6, evaluated here: PilotManager._state_sub_cb hands every
       pilot notification of a bulk message to _update_pilot.
R13.9  C14's R14.7 for final targets, evaluated here: for a pilot in a
       non-final state notified DONE / FAILED / CANCELED the last state
       _update_pilot hands Pilot._update is that state, and Pilot._update
       accepts every step into it.
R13.10 C06's R06.4, evaluated here: a notification that raises by design in
       the bulk loop of TaskManager._update_tasks (ValueError of
       _task_state_progress, RuntimeError of Task._update) is caught inside
       the loop by a handler that covers what the callees raise and goes on
       with the next notification - the binding the scheduler made for
       another task travels in the same bulk (R13.7).
R13.11 keys of the FAILED update agree with Task._update: the entry whose
       value names the ending pilot is under a key Task._update copies to an
       attribute a property of Task returns, and every key Task._update
       reads unconditionally by subscript is in the update.
R13.12 Pilot._update invokes every callback of the registry: each invocation
       of a value taken out of the registry sits in a loop over it, every
       iteration invokes the callable of its element (skipped at most on a
       test of that callable itself), no iteration leaves the loop, and the
       loop runs over all entries (no proper slice).
R13.13 Pilot.register_callback keeps one registry entry per callable: the
       key under which the callback is stored is the callable itself or its
       id() (or the entry is appended) - not an attribute other callables
       share (__name__, __qualname__, __func__, __self__ ...) and not a value
       that does not depend on the callable: a later registration would
       replace the entry add_pilots made and the manager would never hear of
       the pilot's end.
R13.8  also decides (in C14's R14.6) that a thing of another type - a task
       update in the same bulk - does not make the pilot manager leave its
       loop over the things.
"""

import ast

from ..model import (walk, dotted, call_name, kwarg, unparse, short, UNKNOWN,
                     root_name, AnalysisError, calls_in, stores_in_target)
from ..cfg import cfg_of
from ..flow import (Deps, guards, loop_slice, assigned_names, must_pass,
                    Exploration)
from .. import idioms as I
from .c15 import StateEval, Uneval, single_assign
from .c12 import defs_reaching, stores_of

TMGR  = ('task_manager.py', 'TaskManager')
PILOT = ('pilot.py', 'Pilot')


def _consts(prog):
    final  = prog.const('states.py', 'FINAL')
    failed = prog.const('states.py', 'FAILED')
    return final, failed


# ------------------------------------------------------------------------------
#
def _dict_of(f, expr, depth=0):
    """dict literals denoted by expr: the literal itself, a local name all of
    whose assignments are such dicts, or `dict(<such a dict>, key=value, ..)`
    (a copy with entries added / replaced: rendered as one literal, the
    keyword entries first since they win)"""
    if depth > 3:
        return None
    if isinstance(expr, ast.Dict):
        return [expr]
    if isinstance(expr, ast.Call) and dotted(expr.func) == 'dict' and \
            len(expr.args) <= 1 and all(k.arg for k in expr.keywords) and \
            not any(isinstance(a, ast.Starred) for a in expr.args):
        base = [ast.Dict(keys=[], values=[])]
        if expr.args:
            base = _dict_of(f, expr.args[0], depth + 1)
            if base is None:
                return None
        out = []
        for b in base:
            if any(k is None for k in b.keys):
                return None
            d = ast.Dict(keys=[ast.Constant(value=k.arg)
                               for k in expr.keywords] + list(b.keys),
                         values=[k.value for k in expr.keywords] +
                         list(b.values))
            out.append(ast.copy_location(d, expr))
        return out
    if isinstance(expr, ast.Name):
        out = []
        for n in walk(f.node):
            if isinstance(n, ast.Assign) and any(
                    isinstance(t, ast.Name) and t.id == expr.id
                    for t in n.targets):
                ds = _dict_of(f, n.value, depth + 1) \
                    if not isinstance(n.value, ast.Name) else None
                if ds is None:
                    return None
                out += ds
        return out or None
    return None


def _dict_get(d, key):
    for k, v in zip(d.keys, d.values):
        if isinstance(k, ast.Constant) and k.value == key:
            return v
    return None


def failing_updates(prog, f, failed):
    """[(call, task variable, [dict literals])]: `<task>._update(<dict with
    'state': rps.FAILED>)`"""
    out = []
    for c in calls_in(f.node):
        if not (isinstance(c.func, ast.Attribute) and c.func.attr == '_update'
                and c.args):
            continue
        dicts = _dict_of(f, c.args[0])
        if dicts is None:
            continue
        hit = []
        for d in dicts:
            v = _dict_get(d, 'state')
            if v is not None and prog.fold(f.module, v, f.cls) == failed:
                hit.append(d)
        if not hit:
            continue
        recv = c.func.value
        if not isinstance(recv, ast.Name):
            raise AnalysisError('UNRECOGNISED-IDIOM %s: the receiver of `%s` '
                                'is not a plain task variable'
                                % (f.where, short(c, 60)))
        out.append((c, recv.id, hit))
    return out


def _enclosing_for(g, node, name):
    """innermost enclosing `for` head binding `name`"""
    for h in reversed(node.loops):
        hn = g.nodes[h]
        if hn.kind == 'for' and name in stores_in_target(hn.ast.target):
            return hn
    return None


def _attr_on(expr, names, attrs):
    """expr is <name>.<attr> / <name>['attr'] for name in names"""
    if isinstance(expr, ast.Attribute) and expr.attr in attrs and \
            isinstance(expr.value, ast.Name) and expr.value.id in names:
        return True
    if isinstance(expr, ast.Subscript) and isinstance(expr.slice, ast.Constant) \
            and expr.slice.value in attrs and \
            isinstance(expr.value, ast.Name) and expr.value.id in names:
        return True
    return False


def _reads_attr_on(expr, names, attrs):
    return any(_attr_on(n, names, attrs) for n in walk(expr, nested=True))


class Roles:
    """what an expression of _pilot_state_cb denotes"""

    def __init__(self, f, tvars, pvar, pparam=None):
        self.d = Deps(f.node, implicit=False)
        self.tvars = set(tvars)
        self.pvar = pvar
        self.pparam = pparam
        self.allowed = {}

    def _deps(self, expr):
        return self.d.expr_depends(expr)

    def is_task_pilot(self, e):
        return _attr_on(e, self.tvars, ('pilot', '_pilot'))

    def is_task_state(self, e):
        return _attr_on(e, self.tvars, ('state', '_state'))

    def is_pilot_uid(self, e):
        if _attr_on(e, {self.pvar}, ('uid', '_uid')):
            return True
        if isinstance(e, ast.Name) and e.id not in self.tvars:
            dep = self._deps(e)
            return bool(dep & {self.pvar + '.uid', self.pvar + '._uid',
                               "%s['uid']" % self.pvar}) and \
                not (dep & self.tvars)
        return False

    def is_pilot_state(self, e):
        if _attr_on(e, {self.pvar}, ('state', '_state')):
            return True
        if isinstance(e, ast.Name) and e.id not in self.tvars:
            dep = self._deps(e)
            return bool(dep & {self.pvar + '.state', self.pvar + '._state',
                               "%s['state']" % self.pvar}) and \
                not (dep & self.tvars)
        return False

    def about_task(self, e):
        dep = self._deps(e)
        return bool(dep & self.tvars)

    def about_pilot(self, e):
        dep = self._deps(e)
        return self.pvar in dep

    def is_pilot_ref(self, e):
        """the pilot of the iteration, its uid, or (before the loop) what the
        callback was handed - and nothing of a task"""
        dep = self._deps(e)
        return bool(dep & ({self.pvar, self.pparam} - {None})) and \
            not (dep & self.tvars)


def _by_domain(prog, f, roles, atom, pol, final):
    """evaluate a test on the task's / the pilot's state for every state of
    the folded value table: the set of states for which the FAILED update
    goes ahead decides the verdict"""
    for kind, pred, tab in (
            ('nonfinal', roles.is_task_state, '_task_state_values'),
            ('pilotfinal', roles.is_pilot_state, '_pilot_state_values')):
        if not any(pred(n) for n in walk(atom, nested=True)):
            continue
        if kind == 'nonfinal' and roles.about_pilot(atom) or \
                kind == 'pilotfinal' and roles.about_task(atom):
            continue
        table = prog.const('states.py', tab)
        domain = [s for s in table if s is not None]
        ev = StateEval(prog, f, pred, resolve=lambda n: single_assign(f, n))
        try:
            allowed = {s for s in domain if ev.holds(atom, s) == pol}
        except Uneval:
            return None
        roles.allowed[id(atom)] = allowed
        fin = set(final)
        if kind == 'nonfinal':
            lost = sorted(set(domain) - fin - allowed)
            if lost:
                return (kind, 'wrong', 'the update is skipped for the '
                        'non-final state(s) %s: tasks of the ending pilot in '
                        'those states are not reported FAILED'
                        % ', '.join(lost))
            if not (fin & allowed):
                return (kind, 'ok', '')
            return (kind, 'partial', 'the final state(s) %s are still updated'
                    % ', '.join(sorted(fin & allowed)))
        lost = sorted(fin - allowed)
        if lost:
            return (kind, 'wrong', 'the tasks of a pilot that ends %s are not '
                    'failed' % ', '.join(lost))
        if allowed == fin:
            return (kind, 'ok', '')
        return (kind, 'partial', 'a pilot in the non-final state(s) %s takes '
                'its tasks down' % ', '.join(sorted(allowed - fin)))
    return None


# ------------------------------------------------------------------------------
# R13.3: membership of the pilot in a manager table
#
_SHRINK = ('pop', 'popitem', 'remove', 'discard', 'clear')
_GROW   = ('add', 'append', 'update', 'setdefault', 'insert', 'extend')


def _self_attr(expr):
    if isinstance(expr, ast.Attribute) and isinstance(expr.value, ast.Name) \
            and expr.value.id == 'self':
        return expr.attr
    return None


def table_of(prog, f, expr, depth=0):
    """X when expr denotes the table self.X of the manager, its keys / values
    or a copy of them - directly, through a local assigned once, or through a
    method of the manager all of whose returns do (list_pilots)"""
    if expr is None or depth > 5:
        return None
    a = _self_attr(expr)
    if a:
        return a
    if isinstance(expr, ast.Name):
        return table_of(prog, f, single_assign(f, expr.id), depth + 1)
    if isinstance(expr, ast.Call):
        fn = expr.func
        if isinstance(fn, ast.Attribute) and not expr.args and \
                fn.attr in ('keys', 'values', 'copy'):
            return table_of(prog, f, fn.value, depth + 1)
        if dotted(fn) in ('list', 'tuple', 'set', 'frozenset', 'sorted',
                          'dict', 'iter') and len(expr.args) == 1:
            return table_of(prog, f, expr.args[0], depth + 1)
        if isinstance(fn, ast.Attribute) and isinstance(fn.value, ast.Name) \
                and fn.value.id == 'self':
            m = prog.resolve_call(f, expr)
            if m is not None and m is not f:
                rets = [n.value for n in walk(m.node)
                        if isinstance(n, ast.Return)]
                if not rets:
                    return None
                tabs = {table_of(prog, m, r, depth + 1) for r in rets}
                if len(tabs) == 1:
                    return tabs.pop()
    return None


def member_test(prog, f, roles, atom, depth=0):
    """(X, present) when `atom` holds exactly if the pilot of the iteration -
    or the pilot the task is bound to, which is the same one where the binding
    test holds - is (present) / is not (not present) an entry of self.X"""

    def who(e):
        return roles.is_pilot_ref(e) or roles.is_task_pilot(e)

    def lookup(e, d=0):
        # self.X.get(<pilot>) / self.X[<pilot>] through a local assigned once
        if isinstance(e, ast.Name) and d < 3:
            v = single_assign(f, e.id)
            return lookup(v, d + 1) if v is not None else None
        if isinstance(e, ast.Call) and isinstance(e.func, ast.Attribute) and \
                e.func.attr == 'get' and e.args and who(e.args[0]) and \
                (len(e.args) == 1 or isinstance(e.args[1], ast.Constant)
                 and not e.args[1].value):
            return table_of(prog, f, e.func.value)
        return None

    if depth > 3:
        return None
    if isinstance(atom, ast.Name):
        v = single_assign(f, atom.id)
        if v is not None:
            r = member_test(prog, f, roles, v, depth + 1)
            if r is not None:
                return r
    if isinstance(atom, ast.UnaryOp) and isinstance(atom.op, ast.Not):
        r = member_test(prog, f, roles, atom.operand, depth + 1)
        return None if r is None else (r[0], not r[1])
    if isinstance(atom, ast.Compare) and len(atom.ops) == 1:
        op = atom.ops[0]
        l, r = atom.left, atom.comparators[0]
        if isinstance(op, (ast.In, ast.NotIn)) and who(l):
            t = table_of(prog, f, r)
            if t:
                return (t, isinstance(op, ast.In))
        if isinstance(op, (ast.Is, ast.IsNot, ast.Eq, ast.NotEq)):
            for a, b in ((l, r), (r, l)):
                if isinstance(b, ast.Constant) and b.value is None:
                    t = lookup(a)
                    if t:
                        return (t, isinstance(op, (ast.IsNot, ast.NotEq)))
        return None
    t = lookup(atom)
    if t:
        return (t, True)            # pilot objects are truthy
    return None


def table_mutators(prog, cls, attr):
    """({method: node} removing entries of self.<attr>, {method: node} adding
    entries), over the methods of the class and its bases"""
    shrink, grow = {}, {}
    for k in prog.mro(cls):
        for fn in k.methods.values():
            if prog.find_method(cls, fn.name) is not fn:
                continue
            al = set()
            for n in walk(fn.node, nested=True):
                if isinstance(n, ast.Assign) and len(n.targets) == 1 and \
                        isinstance(n.targets[0], ast.Name) and \
                        _self_attr(n.value) == attr:
                    al.add(n.targets[0].id)

            def is_tab(e):
                return _self_attr(e) == attr or \
                    isinstance(e, ast.Name) and e.id in al

            for n in walk(fn.node, nested=True):
                if isinstance(n, ast.Delete):
                    for t in n.targets:
                        if isinstance(t, ast.Subscript) and is_tab(t.value):
                            shrink.setdefault(fn, n)
                elif isinstance(n, ast.Call) and \
                        isinstance(n.func, ast.Attribute) and \
                        is_tab(n.func.value):
                    if n.func.attr in _SHRINK:
                        shrink.setdefault(fn, n)
                    elif n.func.attr in _GROW:
                        grow.setdefault(fn, n)
                elif isinstance(n, (ast.Assign, ast.AugAssign)):
                    ts = n.targets if isinstance(n, ast.Assign) else [n.target]
                    for t in ts:
                        if isinstance(t, ast.Subscript) and is_tab(t.value):
                            grow.setdefault(fn, n)
    return shrink, grow


def reads_attrs(prog, fn, attrs, depth=0, seen=None):
    """fn (or a method of the same object it calls, two levels) reads one of
    the self attributes `attrs`"""
    seen = set() if seen is None else seen
    if fn in seen:
        return False
    seen.add(fn)
    for n in walk(fn.node, nested=True):
        if _self_attr(n) in attrs:
            return True
    if depth < 2:
        for c in calls_in(fn.node, nested=True):
            if isinstance(c.func, ast.Attribute) and \
                    isinstance(c.func.value, ast.Name) and \
                    c.func.value.id == 'self':
                m = prog.resolve_call(fn, c)
                if m is not None and reads_attrs(prog, m, attrs, depth + 1,
                                                 seen):
                    return True
    return False


def r13_3(prog, rep, f, rid, ctext, call, members, task_attrs):
    """members: [(atom, pol, (X, present))] - guards of the FAILED update
    which test the membership of the pilot in self.X"""
    if not members:
        rep.ok(rid, f, '%s: no guard of `%s` tests whether the ending pilot '
               'is an entry of a table of the manager' % (f.qual, ctext),
               f.loc(call))
        return
    regf = prog.find_method(f.cls, 'add_pilots')
    for atom, pol, (attr, present) in members:
        shrink, grow = table_mutators(prog, f.cls, attr)
        shrink.pop(f, None)
        need_present = (pol == present)
        grown = regf is not None and regf in grow
        if need_present and shrink:
            caring = [m for m in shrink if failing_updates_safe(prog, m) or
                      reads_attrs(prog, m, task_attrs)]
            if caring:
                raise AnalysisError(
                    'UNRECOGNISED-IDIOM %s: `%s` is guarded by `%s`, a test '
                    'of the pilot being an entry of self.%s; %s removes '
                    'entries and also handles tasks: cannot decide whether '
                    'the tasks of a removed pilot are taken care of'
                    % (f.where, ctext, short(atom, 60), attr,
                       caring[0].qual))
            m = sorted(shrink, key=lambda x: x.qual)[0]
            rep.bad(rid, f, '%s [membership in self.%s]' % (ctext, attr),
                    '%s: the FAILED update `%s` only goes ahead when `%s` is '
                    '%s, i.e. when the ending pilot is still an entry of '
                    'self.%s; %s removes entries (`%s`) without touching the '
                    'tasks (%s), so tasks stay bound to a removed pilot, the '
                    'callback stays registered on it, and when it ends those '
                    'tasks are never reported FAILED'
                    % (f.qual, ctext, short(atom, 60), pol, attr, m.qual,
                       short(shrink[m], 50),
                       ', '.join('self.' + a for a in sorted(task_attrs))),
                    f.loc(atom),
                    history='pilots p1, p2 added; task t1 is bound to p1 and '
                    'executing; %s(p1) drops p1 from self.%s, t1 stays bound; '
                    'p1 FAILS: the callback skips p1, t1 stays non-final '
                    'forever (wait_tasks hangs)' % (m.name, attr))
        elif need_present and grown:
            rep.ok(rid, f, '%s: `%s` tests membership in self.%s, which %s '
                   'fills for every pilot it registers the callback on and '
                   'which no method shrinks' % (f.qual, short(atom, 50), attr,
                                                regf.qual), f.loc(atom))
        elif not need_present and grown:
            rep.bad(rid, f, '%s [membership in self.%s]' % (ctext, attr),
                    '%s: the FAILED update `%s` only goes ahead when `%s` is '
                    '%s, i.e. when the ending pilot is NOT an entry of '
                    'self.%s, but %s enters every pilot it registers the '
                    'callback on: the tasks of a pilot of this manager are '
                    'not failed when it ends'
                    % (f.qual, ctext, short(atom, 60), pol, attr, regf.qual),
                    f.loc(atom),
                    history='pilot p1 added, task t1 bound to it; p1 FAILS: '
                    'p1 is an entry of self.%s, the callback skips it, t1 '
                    'stays non-final' % attr)
        else:
            raise AnalysisError(
                'UNRECOGNISED-IDIOM %s: `%s` is guarded by `%s` (taken when '
                '%s), a test of the pilot being an entry of self.%s, for '
                'which neither a removing method nor the entry made by '
                'add_pilots is found' % (f.where, ctext, short(atom, 60), pol,
                                         attr))


def failing_updates_safe(prog, fn):
    try:
        return bool(failing_updates(prog, fn, prog.const('states.py',
                                                         'FAILED')))
    except AnalysisError:
        return True


def classify(prog, f, roles, atom, pol, final):
    """(kind, verdict, text): kind in binding / nonfinal / pilotfinal / member /
    other / None (unrelated); verdict 'ok' | 'wrong' | 'unknown'"""
    m = member_test(prog, f, roles, atom)
    if m is not None:
        return ('member', 'member', m)
    if isinstance(atom, (ast.Name, ast.Attribute, ast.Constant)):
        # a bare truth test (`if state:`, `if task.pilot:`) says nothing about
        # finality or about which pilot the task is bound to
        return (None, 'ok', '')
    if isinstance(atom, ast.Compare) and len(atom.ops) == 1:
        op = atom.ops[0]
        l, r = atom.left, atom.comparators[0]
        # (b) binding
        for a, b in ((l, r), (r, l)):
            if roles.is_task_pilot(a) and roles.is_pilot_uid(b):
                if isinstance(op, (ast.Eq, ast.Is)):
                    return ('binding', 'ok' if pol else 'wrong', '')
                if isinstance(op, (ast.NotEq, ast.IsNot)):
                    return ('binding', 'wrong' if pol else 'ok', '')
                return ('binding', 'unknown', '')
        if roles.is_task_pilot(l) and isinstance(op, (ast.In, ast.NotIn)) and \
                isinstance(r, (ast.List, ast.Tuple, ast.Set)) and \
                len(r.elts) == 1 and roles.is_pilot_uid(r.elts[0]):
            good = isinstance(op, ast.In) == pol
            return ('binding', 'ok' if good else 'wrong', '')
        # (a) / (c) final tests, decided over the finite state tables
        r = _by_domain(prog, f, roles, atom, pol, final)
        if r is not None:
            return r
        l, r = atom.left, atom.comparators[0]
        for kind, pred in (('nonfinal', roles.is_task_state),
                           ('pilotfinal', roles.is_pilot_state)):
            if not pred(l):
                continue
            v = prog.fold(f.module, r, f.cls)
            if isinstance(op, (ast.In, ast.NotIn)) and v is not UNKNOWN and \
                    isinstance(v, (list, tuple, set)):
                try:
                    same = set(v) == set(final)
                except TypeError:
                    same = False
                is_final = isinstance(op, ast.In) == pol
                want = (kind == 'pilotfinal')
                if not same:
                    return (kind, 'wrong', 'it compares with %s, which is not '
                            'the set of final states' % sorted(map(str, v)))
                return (kind, 'ok' if is_final == want else 'wrong', '')
            if isinstance(op, (ast.Eq, ast.NotEq)) and v is not UNKNOWN and \
                    isinstance(v, str):
                return (kind, 'wrong', 'it compares with the single state %r '
                        'instead of the set of final states' % v)
            return (kind, 'unknown', '')
    if _reads_attr_on(atom, roles.tvars, ('pilot', '_pilot')):
        return ('binding', 'unknown', '')
    if _reads_attr_on(atom, roles.tvars, ('state', '_state')):
        return ('nonfinal', 'unknown', '')
    if roles.about_task(atom):
        return ('other', 'unknown', 'task')
    if roles.about_pilot(atom):
        if isinstance(atom, ast.Call) and dotted(atom.func) == 'isinstance':
            return (None, 'ok', '')
        return ('other', 'unknown', 'pilot')
    return (None, 'ok', '')


def r13_1(prog, rep, f, rid='R13.1', out=None):
    final, failed = _consts(prog)
    rep.saw(f)
    g = cfg_of(f)
    rep.stat('cfg_nodes', len(g.nodes))
    smap = I.stmt_node_map(g)
    sites = failing_updates(prog, f, failed)
    for call, tvar, dicts in sites:
        node = smap[id(call)]
        tloop = _enclosing_for(g, node, tvar)
        if tloop is None:
            raise AnalysisError('UNRECOGNISED-IDIOM %s: `%s` is not inside a '
                                'loop over tasks' % (f.where, short(call, 60)))
        # pilot loop: enclosing for whose iterable derives from the parameter
        ploop = None
        d0 = Deps(f.node, implicit=False)
        params = [p for p in f.params if p != 'self']
        for h in node.loops:
            hn = g.nodes[h]
            if hn is tloop or hn.kind != 'for':
                continue
            if isinstance(hn.ast.target, ast.Name) and params and \
                    params[0] in d0.expr_depends(hn.ast.iter):
                ploop = hn
        if ploop is None:
            raise AnalysisError('UNRECOGNISED-IDIOM %s: `%s` is not inside a '
                                'loop over the pilots given to the callback'
                                % (f.where, short(call, 60)))
        pvar = ploop.ast.target.id
        tvars = {tvar}
        atoms = []
        # a filtering iterable (comprehension, filter(pred, ..), possibly
        # through a local name) counts as guards of the loop element
        more, conds = iterable_guards(f, g, tloop.ast.iter, tloop.id)
        tvars |= more
        for cond in conds:
            for c, pol in _conj(cond, True):
                atoms.append((c, pol))
        # the same for the loop over the pilots: its conditions speak about
        # the element of the filter, which is the pilot of the iteration
        pmore, pconds = iterable_guards(f, g, ploop.ast.iter, ploop.id)
        for cond in pconds:
            for c, pol in _conj(_rename(cond, pmore, pvar), True):
                atoms.append((c, pol))
        start = loop_slice(g, ploop.id)[0]
        for tid, lab in guards(g, node.id, start=start):
            atoms.append((g.nodes[tid].ast, lab == 'T'))
        roles = Roles(f, tvars, pvar, params[0])
        if out is not None:
            # what the callback reads of the pilot / of the task: the
            # producers of these attributes are looked at by R13.6 / R13.7
            for n in walk(f.node, nested=True):
                if isinstance(n, ast.Attribute) and \
                        isinstance(n.value, ast.Name) and \
                        isinstance(n.ctx, ast.Load):
                    if n.value.id == pvar and n.attr in ('state', '_state'):
                        out.setdefault('pilot_reads', set()).add(n.attr)
                    if n.value.id in tvars and n.attr in (
                            'pilot', '_pilot', 'state', '_state'):
                        out.setdefault('task_reads', set()).add(n.attr)
        found = {'binding': [], 'nonfinal': [], 'pilotfinal': [], 'other': [],
                 'member': []}
        for atom, pol in atoms:
            kind, verdict, text = classify(prog, f, roles, atom, pol, final)
            if kind:
                found[kind].append((atom, pol, verdict, text))
        # guards between the entry of the callback and the loop over the
        # pilots: only tests of what the callback was handed being an entry of
        # a manager table matter here
        for tid, lab in guards(g, ploop.id):
            atom = g.nodes[tid].ast
            m = member_test(prog, f, roles, atom)
            if m is not None:
                found['member'].append((atom, lab == 'T', 'member', m))
        for kind in found:
            unk = [x for x in found[kind] if x[2] == 'unknown']
            if unk and not any(x[2] == 'wrong' for x in found[kind]):
                raise AnalysisError(
                    'UNRECOGNISED-IDIOM %s: `%s` is guarded by `%s` (taken '
                    'when %s), a test on the %s the recogniser does not know'
                    % (f.where, short(call, 50), short(unk[0][0], 60),
                       unk[0][1], {'binding': "task's pilot",
                                   'nonfinal': "task's state",
                                   'pilotfinal': "pilot's state",
                                   'other': unk[0][3]}[kind]))
        ctext = short(call, 60)
        spec = [
            ('pilotfinal', 'the state of the pilot being final',
             'pilot final',
             'a pilot that merely changes state (say to PMGR_ACTIVE) fails '
             'the tasks', 'pilot p1 becomes PMGR_ACTIVE: its tasks are '
             'reported FAILED'),
            ('binding', "a comparison of the task's pilot with the ending "
             "pilot's uid", 'pilot binding',
             'every task of the manager is failed, whatever pilot it runs on',
             'two pilots p1, p2; task t2 is bound to p2 and task t0 is not '
             'bound yet; p1 ends: t2 and t0 are reported FAILED'),
            ('nonfinal', 'the task not being in a final state', 'non-final',
             'tasks that are already final are updated again',
             'task t1 on pilot p1 was CANCELED (or is DONE); p1 ends: '
             'Task._update overwrites CANCELED with FAILED and the final '
             'task is published once more'),
        ]
        for kind, what, tag, effect, hist in spec:
            hits = found[kind]
            good = [x for x in hits if x[2] == 'ok']
            bad  = [x for x in hits if x[2] == 'wrong']
            part = [x for x in hits if x[2] == 'partial']
            if part and not good and not bad:
                # several partial tests may add up to the required set
                sets = [roles.allowed[id(x[0])] for x in part]
                joint = set.intersection(*sets)
                fin = set(final)
                if kind == 'nonfinal' and not (joint & fin) or \
                        kind == 'pilotfinal' and joint == fin:
                    good = part
                else:
                    bad = part
            if bad:
                atom, pol, _, text = bad[0]
                rep.bad(rid, f, '%s [%s: %s taken when %s]'
                        % (ctext, tag, unparse(atom), pol),
                        '%s: the FAILED update `%s` is guarded by `%s` taken '
                        'when %s: a test of %s with the wrong polarity or '
                        'operands%s' % (f.qual, ctext, short(atom, 60), pol,
                                        what, ' - ' + text if text else ''),
                        f.loc(atom), history=hist)
            elif good:
                rep.ok(rid, f, '%s: `%s` is control dependent on %s (`%s` '
                       'when %s)' % (f.qual, ctext, what,
                                     short(good[0][0], 50), good[0][1]),
                       f.loc(call))
            else:
                rep.bad(rid, f, '%s [no test: %s]' % (ctext, tag),
                        '%s: the FAILED update `%s` is not control dependent '
                        'on %s: %s' % (f.qual, ctext, what, effect),
                        f.loc(call), history=hist)
        # R13.3: membership of the pilot in a table that shrinks
        task_attrs = {x.split('.', 1)[1] for x in
                      roles.d.expr_depends(tloop.ast.iter)
                      if x.startswith('self.') and x.count('.') == 1
                      and '[' not in x}
        if out is not None:
            out.setdefault('task_attrs', set()).update(task_attrs)
        r13_3(prog, rep, f, 'R13.3' if rid == 'R13.1' else rid, ctext, call,
              [(a, p, m) for a, p, _, m in found['member']], task_attrs)
        # the explanation names the pilot
        named = False
        for dl in dicts:
            for k, v in zip(dl.keys, dl.values):
                if isinstance(k, ast.Constant) and isinstance(k.value, str) \
                        and 'exception' in k.value:
                    dep = roles.d.expr_depends(v)
                    if dep & {pvar + '.uid', pvar + '._uid',
                              "%s['uid']" % pvar}:
                        named = True
        rep.check(named, rid, f, '%s: the explanation of the FAILED update is '
                  'built from the uid of the ending pilot' % f.qual,
                  construct='%s [explanation]' % ctext,
                  message='%s: neither `exception` nor `exception_detail` of '
                  'the FAILED update depends on the uid of the ending pilot: '
                  'the application cannot tell which pilot took the task down'
                  % f.qual, loc=f.loc(call),
                  history='pilot p1 ends: task.exception_detail of its tasks '
                  'does not mention p1')
    return len(sites)


def iterable_guards(f, g, it, at, depth=0):
    """(names of the element inside the conditions, [conditions every element
    delivered by the iterable satisfies])"""
    names, conds = set(), []
    if depth > 4:
        return names, conds
    if isinstance(it, ast.Name):
        defs, undef = defs_reaching(g, it.id, at)
        if not undef and len(defs) == 1 and defs[0].kind == 'stmt' and \
                isinstance(defs[0].ast, ast.Assign) and \
                len(defs[0].ast.targets) == 1 and \
                isinstance(defs[0].ast.targets[0], ast.Name):
            # the list must not be extended behind the filter
            for n in walk(f.node):
                if isinstance(n, ast.Call) and \
                        isinstance(n.func, ast.Attribute) and \
                        n.func.attr in ('append', 'extend', 'insert') and \
                        isinstance(n.func.value, ast.Name) and \
                        n.func.value.id == it.id:
                    return names, conds
            return iterable_guards(f, g, defs[0].ast.value, defs[0].id,
                                   depth + 1)
        return names, conds
    if isinstance(it, (ast.ListComp, ast.GeneratorExp, ast.SetComp)) and \
            len(it.generators) == 1 and \
            isinstance(it.generators[0].target, ast.Name) and \
            isinstance(it.elt, ast.Name) and \
            it.elt.id == it.generators[0].target.id:
        names.add(it.elt.id)
        conds += list(it.generators[0].ifs)
        n2, c2 = iterable_guards(f, g, it.generators[0].iter, at, depth + 1)
        # conditions of an inner filter speak about their own element name:
        # rename it to ours
        for c in c2:
            conds.append(_rename(c, n2, it.elt.id))
        return names, conds
    if isinstance(it, ast.Call) and dotted(it.func) in ('list', 'tuple',
                                                        'sorted', 'iter') \
            and len(it.args) == 1:
        return iterable_guards(f, g, it.args[0], at, depth + 1)
    if isinstance(it, ast.Call) and dotted(it.func) == 'filter' and \
            len(it.args) == 2:
        pred = it.args[0]
        body, params, defaults = None, [], {}
        if isinstance(pred, ast.Lambda):
            body, a = pred.body, pred.args
        elif isinstance(pred, ast.Name):
            fn = None
            h = f
            while h is not None and fn is None:
                fn = h.nested.get(pred.id)
                h = h.parent
            a = fn.node.args if fn is not None else None
            if fn is not None:
                stmts = [x for x in fn.node.body
                         if not (isinstance(x, ast.Expr) and
                                 isinstance(x.value, ast.Constant))]
                if len(stmts) == 1 and isinstance(stmts[0], ast.Return) and \
                        stmts[0].value is not None:
                    body = stmts[0].value
        if body is None:
            return names, conds
        params = [x.arg for x in a.args]
        if not params:
            return names, conds
        nd = len(a.defaults)
        for prm, dv in zip(a.args[len(a.args) - nd:], a.defaults):
            defaults[prm.arg] = dv
        # parameters bound by a default (`_pid=pid`) stand for that value
        body = _substitute(body, {k: v for k, v in defaults.items()
                                  if k != params[0]})
        names.add(params[0])
        conds.append(body)
        n2, c2 = iterable_guards(f, g, it.args[1], at, depth + 1)
        for c in c2:
            conds.append(_rename(c, n2, params[0]))
        return names, conds
    return names, conds


def _substitute(expr, mapping):
    import copy

    class T(ast.NodeTransformer):
        def visit_Name(self, n):
            if isinstance(n.ctx, ast.Load) and n.id in mapping:
                return copy.deepcopy(mapping[n.id])
            return n
    return T().visit(copy.deepcopy(expr))


def _rename(expr, olds, new):
    return _substitute(expr, {o: ast.Name(id=new, ctx=ast.Load())
                              for o in olds if o != new})


def _conj(expr, pol):
    """atoms of a condition that is required to be `pol`: only conjunctive
    parts are guards"""
    if isinstance(expr, ast.UnaryOp) and isinstance(expr.op, ast.Not):
        return _conj(expr.operand, not pol)
    if isinstance(expr, ast.BoolOp):
        if isinstance(expr.op, ast.And) and pol or \
                isinstance(expr.op, ast.Or) and not pol:
            out = []
            for v in expr.values:
                out += _conj(v, pol)
            return out
        return []
    return [(expr, pol)]


# ------------------------------------------------------------------------------
#
def r13_2(prog, rep, rid='R13.2'):
    rep.rule(rid, 'TaskManager.add_pilots registers _pilot_state_cb (pilot '
             'state metric) on every pilot object it is given', minimum=2)
    tm = prog.cls(*TMGR)
    f = prog.method(TMGR[0], TMGR[1], 'add_pilots')
    cb = prog.find_method(tm, '_pilot_state_cb')
    if cb is None:
        raise AnalysisError('anchor TaskManager._pilot_state_cb not found')
    rep.saw(f)
    g = cfg_of(f)
    smap = I.stmt_node_map(g)
    params = [p for p in f.params if p != 'self']
    if not params:
        raise AnalysisError('anchor %s takes no pilots' % f.where)
    heads = [n for n in g.nodes if n.kind == 'for' and
             isinstance(n.ast.iter, ast.Name) and n.ast.iter.id == params[0]
             and isinstance(n.ast.target, ast.Name)]
    if len(heads) != 1:
        raise AnalysisError('UNRECOGNISED-IDIOM %s: expected one loop over %r, '
                            'found %d' % (f.where, params[0], len(heads)))
    head = heads[0]
    pvar = head.ast.target.id
    # the loop is on every normal path
    on_all = g.exit.id not in g.reachable(g.entry.id, skip_nodes={head.id})
    rep.check(on_all, rid, f, 'add_pilots: every normal path runs the loop '
              'over the given pilots', construct='loop over pilots',
              message='add_pilots: a path to the normal return avoids the '
              'loop over the given pilots: those pilots are added without a '
              'state callback', loc=f.loc(head.ast),
              history='a pilot added on that path ends: its tasks keep '
              'waiting forever')
    regs = []
    for c in calls_in(head.ast):
        if isinstance(c.func, ast.Attribute) and \
                c.func.attr == 'register_callback' and c.args and \
                unparse(c.args[0]) == 'self._pilot_state_cb' or \
                isinstance(c.func, ast.Attribute) and \
                c.func.attr == 'register_callback' and \
                kwarg(c, 'cb') is not None and \
                unparse(kwarg(c, 'cb')) == 'self._pilot_state_cb':
            regs.append(c)
    if not regs:
        rep.bad(rid, f, 'register_callback(self._pilot_state_cb) missing',
                'add_pilots does not register self._pilot_state_cb on the '
                'pilots it adds: the manager never learns that a pilot ended',
                f.loc(head.ast),
                history='pilot p1 is added, tasks are bound to it, p1 FAILS: '
                'the tasks stay in their last state forever')
        return
    start = loop_slice(g, head.id)[0]
    pilot_metric = prog.const('constants.py', 'PILOT_STATE')
    for c in regs:
        node = smap[id(c)]
        recv_ok = isinstance(c.func.value, ast.Name) and \
            c.func.value.id == pvar
        extra = []
        for tid, lab in guards(g, node.id, start=start):
            a = g.nodes[tid].ast
            # the test may be held by a local assigned once (def-use, not
            # position): `is_dict = isinstance(pilot, dict); if is_dict:`
            hops = 0
            while isinstance(a, ast.Name) and hops < 3:
                v = single_assign(f, a.id)
                # ... computed in the same iteration of the loop
                if v is None or not any(n is v for n in walk(head.ast)):
                    break
                a, hops = v, hops + 1
            pol = (lab == 'T')
            while isinstance(a, ast.UnaryOp) and isinstance(a.op, ast.Not):
                a, pol = a.operand, not pol
            if isinstance(a, ast.Call) and dotted(a.func) == 'isinstance' and \
                    len(a.args) == 2 and unparse(a.args[0]) == pvar and \
                    'dict' in unparse(a.args[1]) and not pol:
                continue
            extra.append((g.nodes[tid].ast, lab))
        why = ''
        if not recv_ok:
            why = 'is not made on the loop variable %r' % pvar
        elif extra:
            why = 'is conditional on `%s` (taken when %s)' % (
                short(extra[0][0], 50), extra[0][1] == 'T')
        rep.check(recv_ok and not extra, rid, f,
                  'add_pilots: `%s` runs for every pilot object of the loop'
                  % short(c, 60), construct=c,
                  message='add_pilots: the registration `%s` %s: some added '
                  'pilots have no state callback' % (short(c, 60), why),
                  loc=f.loc(c),
                  history='a pilot for which the condition does not hold is '
                  'added and later FAILS: its tasks are never reported FAILED')
        # metric: explicit or the default of Pilot.register_callback
        m = kwarg(c, 'metric', 1)
        where = 'explicit'
        if m is None:
            pf = prog.method(PILOT[0], PILOT[1], 'register_callback')
            a = pf.node.args
            names = [x.arg for x in a.args]
            m = None
            if 'metric' in names:
                i = names.index('metric') - (len(names) - len(a.defaults))
                if i >= 0:
                    m = a.defaults[i]
                    mv = prog.fold(pf.module, m, pf.cls)
            where = 'default of Pilot.register_callback'
            if m is None:
                raise AnalysisError('UNRECOGNISED-IDIOM %s: no default for '
                                    '`metric`' % pf.where)
        else:
            mv = prog.fold(f.module, m, f.cls)
        rep.check(mv == pilot_metric, rid, f,
                  'add_pilots: the callback is registered for rpc.PILOT_STATE '
                  '(%s)' % where, construct='%s [metric]' % short(c, 60),
                  message='add_pilots: the callback is registered for metric '
                  '%r, not for pilot state changes' % (mv,), loc=f.loc(c),
                  history='pilot p1 FAILS: _pilot_state_cb is not invoked')


# ------------------------------------------------------------------------------
# R13.4: nothing that runs foreign callbacks unprotected precedes the
#        invocation of the pilot specific callbacks in Pilot._update
#
_BROAD = ('Exception', 'BaseException')
_CONTAINER_NAMES = set(dir(dict)) | set(dir(list)) | set(dir(set)) | \
    set(dir(str))


def _parents(fnode):
    par = {}
    for n in ast.walk(fnode):
        for c in ast.iter_child_nodes(n):
            par[id(c)] = n
    return par


def _protected(fn, par, call):
    """the call sits in the body of a try one of whose handlers catches
    Exception or more and does not raise again"""
    n = call
    while id(n) in par and n is not fn.node:
        p = par[id(n)]
        if isinstance(p, ast.Try) and any(n is x for x in p.body):
            for h in p.handlers:
                if h.type is None:
                    names = [None]
                elif isinstance(h.type, ast.Tuple):
                    names = [unparse(e) for e in h.type.elts]
                else:
                    names = [unparse(h.type)]
                if any(x is None or x.split('.')[-1] in _BROAD
                       for x in names):
                    if not any(isinstance(x, ast.Raise)
                               for st in h.body for x in walk(st)):
                        return True
                    break
        n = p
    return False


def _data_name(fn, name, seen):
    """the local `name` holds a value taken out of data (element of a loop,
    subscript, .get(), parameter) - not a function of the program"""
    if name in seen:
        return False
    seen.add(name)
    h = fn
    while h is not None:
        if name in h.nested:
            return False
        h = h.parent
    if name in fn.params:
        return True
    vals = []
    for n in walk(fn.node):
        if isinstance(n, ast.Assign):
            for t in n.targets:
                if name in stores_in_target(t):
                    if not isinstance(t, ast.Name):
                        return True           # unpacked out of something
                    vals.append(n.value)
        elif isinstance(n, ast.NamedExpr):
            if name in stores_in_target(n.target):
                vals.append(n.value)
        elif isinstance(n, (ast.For, ast.comprehension)):
            if name in stores_in_target(n.target):
                return True
    for v in vals:
        if isinstance(v, ast.Subscript):
            return True
        if isinstance(v, ast.Call) and isinstance(v.func, ast.Attribute) and \
                v.func.attr in ('get', 'pop'):
            return True
        if isinstance(v, ast.Name) and _data_name(fn, v.id, seen):
            return True
    return False


def dynamic_call(fn, call):
    """the callee is a value out of data: a registered callback"""
    func = call.func
    if isinstance(func, ast.Subscript):
        return True
    if isinstance(func, ast.Name):
        return _data_name(fn, func.id, set())
    return False


def _attr_class(prog, cls, attr):
    """class of the object held by self.<attr>: every assignment in the class
    is a parameter annotated with a class of the program or a call of one"""
    out = set()
    for k in prog.mro(cls):
        for fn in k.methods.values():
            ann = {a.arg: a.annotation for a in
                   fn.node.args.posonlyargs + fn.node.args.args +
                   fn.node.args.kwonlyargs if a.annotation is not None}
            for n in walk(fn.node):
                if not isinstance(n, ast.Assign):
                    continue
                if not any(_self_attr(t) == attr for t in n.targets):
                    continue
                v = n.value
                r = None
                if isinstance(v, ast.Name) and v.id in ann:
                    r = prog.resolve(fn.module, ann[v.id])
                elif isinstance(v, ast.Call):
                    r = prog.resolve(fn.module, v.func)
                if isinstance(v, ast.Constant) and v.value is None:
                    continue
                out.add(r[1] if r and r[0] == 'class' else None)
    return out.pop() if len(out) == 1 else None


def callee_of(prog, fn, call):
    m = prog.resolve_call(fn, call)
    if m is not None:
        return m
    func = call.func
    # self.<attr>.<method>(..): by the class of the attribute where that is
    # known, else by the name of the method if exactly one class has it
    if isinstance(func, ast.Attribute) and fn.cls is not None and \
            _self_attr(func.value) is not None:
        k = _attr_class(prog, fn.cls, func.value.attr)
        if k is not None:
            return prog.find_method(k, func.attr)
        if func.attr in _CONTAINER_NAMES:
            return None
        owners = [c for c in prog.all_classes() if func.attr in c.methods]
        if len(owners) == 1:
            return owners[0].methods[func.attr]
    return None


def foreign_witness(prog, fn, depth=0, stack=()):
    """(function, call): a call of a value out of data (a registered
    callback) that fn runs - itself or through resolved callees - with no
    try/except Exception around it anywhere on the way"""
    par = _parents(fn.node)
    for c in sorted(calls_in(fn.node), key=lambda x: (x.lineno, x.col_offset)):
        if _protected(fn, par, c):
            continue
        if dynamic_call(fn, c):
            return (fn, c)
        if depth < 3:
            m = callee_of(prog, fn, c)
            if m is not None and m is not fn and m not in stack:
                w = foreign_witness(prog, m, depth + 1, stack + (fn,))
                if w is not None:
                    return w
    return None


def pilot_dispatch(prog):
    """(Pilot._update, its cfg, statement map, registry attributes, calls of
    the function body, the calls among them which invoke a value taken out of
    the registry Pilot.register_callback fills)"""
    reg = prog.method(PILOT[0], PILOT[1], 'register_callback')
    upd = prog.method(PILOT[0], PILOT[1], '_update')
    prm = [x for x in reg.params if x != 'self']
    if not prm:
        raise AnalysisError('anchor %s takes no callback' % reg.where)
    dr = Deps(reg.node, implicit=False)
    registry = {l for l in dr.edges if l.startswith('self.') and
                prm[0] in dr.closure(l)}
    if not registry:
        raise AnalysisError('UNRECOGNISED-IDIOM %s: the callback %r is not '
                            'stored in an attribute of the pilot'
                            % (reg.where, prm[0]))
    g = cfg_of(upd)
    smap = I.stmt_node_map(g)
    du = Deps(upd.node, implicit=False)
    calls = [c for c in calls_in(upd.node) if id(c) in smap]
    own = [c for c in calls if dynamic_call(upd, c) and
           du.expr_depends(c.func) & registry]
    if not own:
        raise AnalysisError('UNRECOGNISED-IDIOM %s: no invocation of a value '
                            'taken from %s found' % (upd.where,
                                                     sorted(registry)))
    return upd, g, smap, registry, calls, own, du


def r13_4(prog, rep, rid='R13.4'):
    rep.rule(rid, 'Pilot._update: no unprotected call that runs callbacks of '
             'another registry (application code) can run before an '
             'invocation of the pilot specific callbacks, which carry the '
             'task manager\'s _pilot_state_cb', minimum=1)
    upd, g, smap, registry, calls, own, du = pilot_dispatch(prog)
    rep.saw(upd)
    par = _parents(upd.node)
    # calls which run foreign callbacks, unprotected
    foreign = []
    for c in calls:
        if any(c is o for o in own) or _protected(upd, par, c):
            continue
        if dynamic_call(upd, c):
            foreign.append((c, (upd, c)))
            continue
        m = callee_of(prog, upd, c)
        if m is not None and m is not upd:
            w = foreign_witness(prog, m, 1, (upd,))
            if w is not None:
                foreign.append((c, w))
    rep.stat('foreign_calls', len(foreign))
    for o in own:
        on = smap[id(o)]
        before = []
        for c, w in foreign:
            cn = smap[id(c)]
            if cn.id != on.id and on.id in g.reachable(cn.id):
                before.append((c, w))
        if not before:
            rep.ok(rid, upd, '%s: no unprotected call that runs foreign '
                   'callbacks can run before `%s` (%d such call(s) in the '
                   'function, all behind it)' % (upd.qual, short(o, 50),
                                                 len(foreign)), upd.loc(o))
            continue
        for c, (wf, wc) in before:
            rep.bad(rid, upd, '%s before %s' % (short(c, 60), short(o, 40)),
                    '%s: `%s` can run before `%s`, the invocation of the '
                    'pilot specific callbacks (%s) among which '
                    'TaskManager.add_pilots registered _pilot_state_cb.  It '
                    'runs `%s` in %s, a callback registered by the '
                    'application, and nothing between here and there '
                    'catches exceptions: a callback that raises unwinds '
                    '%s before the task manager is told that the pilot '
                    'ended, and the tasks bound to it are never reported '
                    'FAILED' % (upd.qual, short(c, 60), short(o, 40),
                                ', '.join(sorted(registry)), short(wc, 40),
                                wf.qual, upd.qual),
                    upd.loc(c),
                    history='pmgr.register_callback(cb) with cb doing '
                    'sys.exit(1) (or raising) when the pilot is FAILED, as '
                    'the shipped examples do; tmgr.add_pilots(p1), task t1 '
                    'bound to p1 and executing; p1 FAILS: cb raises in the '
                    'thread that delivers the update, _pilot_state_cb is not '
                    'called, t1 stays non-final and wait_tasks() hangs')


# ------------------------------------------------------------------------------
# R13.5: the registration made by add_pilots lasts as long as tasks can be
#        bound to the pilot.  Like R13.3 this is about a path on which the
#        pilot of a bound, non-final task can end without the FAILED update
#        being reachable: there the update is guarded away, here the callback
#        which carries it is taken off the pilot.
#
_KEY_DROP  = ('pop', 'remove', 'discard')
_ALL_DROP  = ('clear', 'popitem')
_APPENDERS = ('append', 'extend', 'add', 'insert', 'update', 'appendleft')


class _Reg:
    """the callback registry of the pilot as Pilot.register_callback fills it"""

    def __init__(self, prog):
        self.fn = prog.method(PILOT[0], PILOT[1], 'register_callback')
        prm = [x for x in self.fn.params if x != 'self']
        if not prm:
            raise AnalysisError('anchor %s takes no callback' % self.fn.where)
        self.cbparam = prm[0]
        dr = Deps(self.fn.node, implicit=False)
        self.attrs = {l[5:] for l in dr.edges if l.startswith('self.') and
                      prm[0] in dr.closure(l)}
        if not self.attrs:
            raise AnalysisError('UNRECOGNISED-IDIOM %s: the callback %r is '
                                'not stored in an attribute of the pilot'
                                % (self.fn.where, prm[0]))
        # number of subscripts below the attribute at which one callback sits
        depth = []
        for n in walk(self.fn.node):
            if isinstance(n, ast.Assign) and \
                    prm[0] in dr.expr_depends(n.value):
                for t in n.targets:
                    if isinstance(t, (ast.Subscript, ast.Attribute)):
                        p = _regpath(self.fn, t, self, _is_self)
                        if p:
                            depth.append(p[0])
            elif isinstance(n, ast.Call) and \
                    isinstance(n.func, ast.Attribute) and \
                    n.func.attr in _APPENDERS and \
                    any(prm[0] in dr.expr_depends(a) for a in n.args):
                p = _regpath(self.fn, n.func.value, self, _is_self)
                if p:
                    depth.append(p[0] + 1)
        if len(set(depth)) != 1 or depth[0] < 1:
            raise AnalysisError('UNRECOGNISED-IDIOM %s: cannot tell at which '
                                'level of %s a callback is stored'
                                % (self.fn.where, sorted(self.attrs)))
        self.depth = depth[0]


def _is_self(e):
    return isinstance(e, ast.Name) and e.id == 'self'


def _regpath(f, e, reg, isrecv, d=0):
    """(number of subscripts below <recv>.<registry attribute>, expression of
    the first subscript or None) when `e` denotes the registry of a pilot or
    a table inside it - not a copy"""
    if d > 6 or e is None:
        return None
    if isinstance(e, ast.Attribute) and e.attr in reg.attrs and \
            isrecv(e.value):
        return (0, None)
    if isinstance(e, ast.Subscript):
        p = _regpath(f, e.value, reg, isrecv, d + 1)
        if p:
            return (p[0] + 1, e.slice if p[0] == 0 else p[1])
        return None
    if isinstance(e, ast.Call) and isinstance(e.func, ast.Attribute) and \
            e.func.attr in ('get', 'setdefault') and e.args:
        p = _regpath(f, e.func.value, reg, isrecv, d + 1)
        if p:
            return (p[0] + 1, e.args[0] if p[0] == 0 else p[1])
        return None
    if isinstance(e, ast.Name):
        v = single_assign(f, e.id)
        if v is not None:
            return _regpath(f, v, reg, isrecv, d + 1)
        # element of a loop over the tables of the registry
        heads = [n for n in walk(f.node, nested=True)
                 if isinstance(n, (ast.For, ast.comprehension)) and
                 e.id in stores_in_target(n.target)]
        if len(heads) == 1 and isinstance(heads[0].iter, ast.Call) and \
                isinstance(heads[0].iter.func, ast.Attribute) and \
                not heads[0].iter.args:
            it, tg = heads[0].iter.func, heads[0].target
            elem = it.attr == 'values' and isinstance(tg, ast.Name) or \
                it.attr == 'items' and isinstance(tg, ast.Tuple) and \
                len(tg.elts) == 2 and isinstance(tg.elts[1], ast.Name) and \
                tg.elts[1].id == e.id
            if elem:
                p = _regpath(f, it.value, reg, isrecv, d + 1)
                if p:
                    return (p[0] + 1, p[1])
    return None


def shrink_sites(prog, f, reg, isrecv):
    """[(ast node, kind, key / value expression, metric expression)]: the
    statements of `f` which take callbacks out of the registry of a pilot.
    kind: 'key' one entry is deleted, 'all' a whole table is emptied or
    deleted, 'reset' a table is replaced"""
    out = []

    def drop(node, base, key):
        p = _regpath(f, base, reg, isrecv)
        if not p:
            return
        level = p[0] + 1
        metric = p[1] if p[0] else key
        if level == reg.depth:
            out.append((node, 'key', key, metric))
        elif level < reg.depth:
            out.append((node, 'all', None, metric))

    for n in walk(f.node):
        if isinstance(n, ast.Delete):
            for t in n.targets:
                if isinstance(t, ast.Subscript):
                    drop(n, t.value, t.slice)
                elif isinstance(t, ast.Attribute) and t.attr in reg.attrs \
                        and isrecv(t.value):
                    out.append((n, 'all', None, None))
        elif isinstance(n, ast.Call) and isinstance(n.func, ast.Attribute):
            if n.func.attr in _KEY_DROP and n.args:
                drop(n, n.func.value, n.args[0])
            elif n.func.attr in _ALL_DROP:
                p = _regpath(f, n.func.value, reg, isrecv)
                if p and p[0] < reg.depth:
                    out.append((n, 'all', None, p[1]))
        elif isinstance(n, (ast.Assign, ast.AnnAssign)) and \
                n.value is not None:
            ts = n.targets if isinstance(n, ast.Assign) else [n.target]
            for t in ts:
                if not isinstance(t, (ast.Attribute, ast.Subscript)):
                    continue
                p = _regpath(f, t, reg, isrecv)
                if p and p[0] < reg.depth and not (
                        f.name == '__init__' and isrecv is _is_self):
                    out.append((n, 'reset', n.value, p[1]))
    return out


class _Arg:
    """what is known of an argument: kind 'ours' (the callback add_pilots
    registers) | 'other' | 'none' | 'unknown'; truth / is_none: True, False
    or None (not known); fresh: a bound method made by the evaluation of the
    expression itself (another object every time)"""

    def __init__(self, kind, truth=None, is_none=None, fresh=False, expr=None):
        self.kind, self.truth, self.is_none = kind, truth, is_none
        self.fresh, self.expr = fresh, expr


def _arg_of(prog, f, e, cbf, depth=0):
    if e is None:
        return _Arg('unknown')
    if isinstance(e, ast.Constant):
        if e.value is None:
            return _Arg('none', False, True, expr=e)
        return _Arg('other', bool(e.value), False, expr=e)
    if _is_self(e):
        return _Arg('other', True, False, expr=e)      # the manager itself
    if isinstance(e, ast.Name) and depth < 3:
        v = single_assign(f, e.id)
        if v is not None:
            return _arg_of(prog, f, v, cbf, depth + 1)
        return _Arg('unknown', expr=e)
    a = _self_attr(e)
    if a and f.cls is not None:
        m = prog.find_method(f.cls, a)
        if m is None:
            return _Arg('unknown', expr=e)
        if m is cbf:
            return _Arg('ours', True, False, fresh=True, expr=e)
        return _Arg('other', True, False, expr=e)
    if isinstance(e, ast.Lambda):
        return _Arg('other', True, False, expr=e)
    return _Arg('unknown', expr=e)


def _bind(callee, call):
    """{parameter: (expression, is default)} of a call of a bound method"""
    a = callee.node.args
    pos = a.posonlyargs + a.args
    names = [x.arg for x in pos]
    if names and names[0] == 'self':
        names = names[1:]
    out = {}
    for i, v in enumerate(call.args):
        if isinstance(v, ast.Starred):
            return None
        if i < len(names):
            out[names[i]] = (v, False)
    for k in call.keywords:
        if k.arg is None:
            return None
        out[k.arg] = (k.value, False)
    nd = len(a.defaults)
    for prm, dv in zip(pos[len(pos) - nd:], a.defaults):
        out.setdefault(prm.arg, (dv, True))
    for prm, dv in zip(a.kwonlyargs, a.kw_defaults):
        if dv is not None:
            out.setdefault(prm.arg, (dv, True))
    return out


def _truth(test, args, stored):
    """value of a test on a parameter the analysis knows the argument of"""

    def known(e):
        return isinstance(e, ast.Name) and e.id in args and \
            e.id not in stored

    if known(test):
        return args[test.id].truth
    if isinstance(test, ast.Compare) and len(test.ops) == 1 and \
            isinstance(test.ops[0], (ast.Is, ast.IsNot, ast.Eq, ast.NotEq)):
        l, r = test.left, test.comparators[0]
        for a, b in ((l, r), (r, l)):
            if known(a) and isinstance(b, ast.Constant) and b.value is None:
                v = args[a.id].is_none
                if v is None:
                    return None
                return v == isinstance(test.ops[0], (ast.Is, ast.Eq))
    return None


def selection(prog, f, g, smap, site, kind, key, reg, isrecv, skip, cbparams):
    """which entries the statement `site` removes: ('all', None) whatever is
    there, ('identity', p) the entry whose key is the id() of the argument
    given for p (or which `is` it), ('equality', p) the entries equal to it,
    ('copy', None) nothing (a reset to a copy), ('other', x) something the
    analysis cannot name"""
    tags = set()
    seen = set()
    skipset = set(skip)
    live = g.reachable(g.entry.id, skip_edges=skip)
    meths = f.cls.methods if f.cls is not None else {}
    # callees `self.m(..)` are calls, not callbacks handed around
    callee_ids = {id(n.func) for n in walk(f.node, nested=True)
                  if isinstance(n, ast.Call) and _self_attr(n.func)}

    def scan(expr, at, depth, guard=False):
        if expr is None:
            return
        bound, used = set(), set()
        for n in walk(expr, nested=True):
            if isinstance(n, ast.comprehension):
                bound |= set(stores_in_target(n.target))
            elif isinstance(n, ast.Lambda):
                bound |= {a.arg for a in n.args.args}
        for n in walk(expr, nested=True):
            if isinstance(n, ast.Attribute) and n.attr in reg.attrs and \
                    isrecv(n.value):
                tags.add('registry')
            if isinstance(n, ast.Subscript):
                # the subscripts which pick a table inside the registry (the
                # metric) do not pick entries
                p = _regpath(f, n.value, reg, isrecv)
                if p and p[0] + 1 < reg.depth:
                    used |= {id(x) for x in walk(n.slice, nested=True)}
            if isinstance(n, ast.Call) and isinstance(n.func, ast.Attribute) \
                    and n.func.attr in ('get', 'setdefault') and n.args:
                p = _regpath(f, n.func.value, reg, isrecv)
                if p and p[0] + 1 < reg.depth:
                    used |= {id(x) for x in walk(n.args[0], nested=True)}
            if isinstance(n, ast.Call) and dotted(n.func) == 'id' and \
                    len(n.args) == 1 and isinstance(n.args[0], ast.Name) and \
                    n.args[0].id in cbparams:
                tags.add(('id', n.args[0].id))
                used.add(id(n.args[0]))
            if isinstance(n, ast.Compare) and len(n.ops) == 1:
                l, r = n.left, n.comparators[0]
                for a, b in ((l, r), (r, l)):
                    if isinstance(a, ast.Name) and a.id in cbparams and \
                            a.id not in bound:
                        used.add(id(a))
                        if isinstance(b, ast.Constant):
                            continue
                        op = n.ops[0]
                        if isinstance(op, (ast.Is, ast.IsNot)):
                            tags.add(('is', a.id))
                        elif isinstance(op, (ast.Eq, ast.NotEq)):
                            tags.add(('eq', a.id))
                        else:
                            tags.add(('other', a.id))
            a = _self_attr(n)
            if a and a in meths and id(n) not in callee_ids:
                # a callback named directly (not through a parameter)
                tags.add(('other', 'self.' + a))
        for n in walk(expr, nested=True):
            if isinstance(n, ast.Name) and isinstance(n.ctx, ast.Load) and \
                    id(n) not in used and n.id not in bound and \
                    n.id != 'self':
                if n.id in cbparams:
                    if not guard:
                        tags.add(('other', n.id))
                elif n.id not in f.params and depth < 6:
                    trace(n.id, at, depth + 1)

    def contribute(node, value, depth):
        scan(value, node.id, depth)
        for tid, lab in guards(g, node.id):
            if tid in live:
                scan(g.nodes[tid].ast, tid, depth, guard=True)

    def trace(name, at, depth):
        if (name, at) in seen:
            return
        seen.add((name, at))
        kills = [n for n in g.nodes if n.id in live and name in stores_of(n)]
        ids = {n.id for n in kills}
        for dn in kills:
            starts = [e.dst for e in g.succ[dn.id] if e.label != 'exc' and
                      (dn.id, e.label) not in skipset]
            r = g.reachable(starts, skip_nodes=ids - {at}, skip_edges=skip)
            if at not in r:
                continue
            if dn.kind == 'for':
                contribute(dn, dn.ast.iter, depth)
            elif isinstance(dn.ast, ast.AugAssign):
                contribute(dn, dn.ast.value, depth)
                trace(name, dn.id, depth + 1)
            else:
                contribute(dn, dn.ast.value, depth)
        for n in g.nodes:
            if n.id not in live or n.kind != 'stmt' or n.ast is None:
                continue
            for c in calls_in(n.ast):
                if isinstance(c.func, ast.Attribute) and \
                        c.func.attr in _APPENDERS and \
                        isinstance(c.func.value, ast.Name) and \
                        c.func.value.id == name and \
                        at in g.reachable(n.id, skip_edges=skip):
                    for a in c.args:
                        contribute(n, a, depth)

    node = smap.get(id(site))
    if node is None:
        raise AnalysisError('UNRECOGNISED-IDIOM %s: `%s` is not a statement '
                            'of the function body' % (f.where, short(site, 60)))
    scan(key, node.id, 0)
    for tid, lab in guards(g, node.id):
        if tid in live:
            scan(g.nodes[tid].ast, tid, 0, guard=True)
    named = sorted(t for t in tags if isinstance(t, tuple))
    for want, sel in ((('other',), 'other'), (('id', 'is'), 'identity'),
                      (('eq',), 'equality')):
        hit = [t for t in named if t[0] in want]
        if hit:
            return (sel, hit[0][1])
    if kind == 'reset' and 'registry' in tags:
        return ('copy', None)
    if kind == 'key' and 'registry' not in tags:
        return ('other', short(key, 40))
    return ('all', None)


def pilot_shrinkers(prog, pk, reg):
    """methods of the pilot which take callbacks out of its registry -
    themselves or through methods of the pilot they call"""
    own = {}
    for k in prog.mro(pk):
        for fn in k.methods.values():
            if prog.find_method(pk, fn.name) is fn:
                own[fn.name] = fn
    out = {fn for fn in own.values() if shrink_sites(prog, fn, reg, _is_self)}
    grew = True
    while grew:
        grew = False
        for fn in own.values():
            if fn in out:
                continue
            for c in calls_in(fn.node):
                if _self_attr(c.func) and prog.resolve_call(fn, c) in out:
                    out.add(fn)
                    grew = True
                    break
    return out


def unreg_effects(prog, reg, shrinkers, metric, m, args, depth=0, stack=()):
    """[(function, statement, selection, parameter, its argument)]: what the
    method `m` of the pilot removes from the registry when it is called with
    `args` ({parameter: _Arg}); tests on parameters whose argument is known
    are decided"""
    g = cfg_of(m)
    smap = I.stmt_node_map(g)
    stored = assigned_names(m.node)
    skip = []
    for n in g.nodes:
        if n.kind == 'test':
            v = _truth(n.ast, args, stored)
            if v is True:
                skip.append((n.id, 'F'))
            elif v is False:
                skip.append((n.id, 'T'))
    live = g.reachable(g.entry.id, skip_edges=skip)
    cbparams = {p for p, a in args.items()
                if a.kind in ('ours', 'none', 'unknown') and p not in stored}
    out = []
    for site, kind, key, mexpr in shrink_sites(prog, m, reg, _is_self):
        node = smap.get(id(site))
        if node is None:
            raise AnalysisError('UNRECOGNISED-IDIOM %s: `%s` is not a '
                                'statement of the function body'
                                % (m.where, short(site, 60)))
        if node.id not in live:
            continue
        if mexpr is not None:
            mv = prog.fold(m.module, mexpr, m.cls)
            if isinstance(mv, str) and mv != metric:
                continue
        sel, p = selection(prog, m, g, smap, site, kind, key, reg, _is_self,
                           skip, cbparams)
        out.append((m, site, sel, p, args.get(p)))
    for c in calls_in(m.node):
        if not _self_attr(c.func) or depth >= 3:
            continue
        callee = prog.resolve_call(m, c)
        if callee is None or callee is m or callee in stack or \
                callee not in shrinkers:
            continue
        node = smap.get(id(c))
        if node is None or node.id not in live:
            continue
        b = _bind(callee, c)
        if b is None:
            raise AnalysisError('UNRECOGNISED-IDIOM %s: arguments of `%s` '
                                'cannot be bound' % (m.where, short(c, 60)))
        a2 = {}
        for prm, (e, isdef) in b.items():
            if not isdef and isinstance(e, ast.Name) and e.id in args and \
                    e.id not in stored:
                a2[prm] = args[e.id]
            else:
                a2[prm] = _arg_of(prog, callee if isdef else m, e, None)
        out += unreg_effects(prog, reg, shrinkers, metric, callee, a2,
                             depth + 1, stack + (m,))
    return out


def _describe(fn, site, sel):
    how = {'all': 'every callback of the table',
           'identity': 'the callback which is the same object as the one '
                       'given',
           'equality': 'the callbacks equal to the one given',
           'other': 'entries the analysis cannot name'}[sel]
    return '%s: `%s` removes %s' % (fn.qual, short(site, 50), how)


def pilot_tables(addf, pvar_of):
    """attributes of the manager in which add_pilots keeps the pilot objects"""
    out = set()
    for n in walk(addf.node):
        if isinstance(n, ast.Assign) and isinstance(n.value, ast.Name) and \
                n.value.id in pvar_of:
            for t in n.targets:
                if isinstance(t, ast.Subscript) and _self_attr(t.value):
                    out.add(t.value.attr)
        elif isinstance(n, ast.Call) and isinstance(n.func, ast.Attribute) \
                and n.func.attr in _GROW and _self_attr(n.func.value) and \
                any(isinstance(a, ast.Name) and a.id in pvar_of
                    for a in n.args):
            out.add(n.func.value.attr)
    return out


def r13_5(prog, rep, task_attrs, rid='R13.5'):
    rep.rule(rid, 'the callback add_pilots registers stays on the pilot as '
             'long as tasks can be bound to it: no method of TaskManager '
             'other than close takes it out of the callback registry of a '
             'pilot (unregister_callback with it or without a callback, a '
             'pilot method that clears the registry, the registry itself) '
             'without taking care of the bound tasks', minimum=2)
    tm   = prog.cls(*TMGR)
    pk   = prog.cls(*PILOT)
    addf = prog.method(TMGR[0], TMGR[1], 'add_pilots')
    cbf  = prog.find_method(tm, '_pilot_state_cb')
    closef = prog.find_method(tm, 'close')
    if cbf is None:
        raise AnalysisError('anchor TaskManager._pilot_state_cb not found')
    reg = _Reg(prog)
    metric = prog.const('constants.py', 'PILOT_STATE')
    shrinkers = pilot_shrinkers(prog, pk, reg)
    snames = {fn.name for fn in shrinkers}
    rep.stat('pilot_unregistering_methods', len(shrinkers))
    aparams = [p for p in addf.params if p != 'self']
    pvars = {n.target.id for n in walk(addf.node)
             if isinstance(n, ast.For) and isinstance(n.target, ast.Name) and
             isinstance(n.iter, ast.Name) and aparams and
             n.iter.id == aparams[0]}
    ptables = pilot_tables(addf, pvars)
    if not ptables:
        raise AnalysisError('UNRECOGNISED-IDIOM %s: no table of the manager '
                            'is found in which the added pilots are kept'
                            % addf.where)
    # is the registered callback another object at every evaluation?
    regs = []
    for c in calls_in(addf.node):
        if isinstance(c.func, ast.Attribute) and c.func.attr == reg.fn.name:
            b = _bind(reg.fn, c)
            if b and reg.cbparam in b:
                a = _arg_of(prog, addf, b[reg.cbparam][0], cbf)
                if a.kind == 'ours':
                    regs.append((c, a))
    reg_fresh = all(a.fresh and _self_attr(a.expr) for c, a in regs)
    regtext = short(regs[0][0], 60) if regs else 'register_callback'

    methods = [fn for fn in tm.methods.values()]
    callers, callees = {}, {}
    for fn in methods:
        for c in calls_in(fn.node, nested=True):
            if _self_attr(c.func):
                m = prog.resolve_call(fn, c)
                if m is not None and m is not fn:
                    callers.setdefault(m, set()).add(fn)
                    callees.setdefault(fn, set()).add(m)

    def exempt(m, seen=()):
        if m is closef:
            return True
        cs = [c for c in callers.get(m, ()) if c not in seen]
        return bool(cs) and all(exempt(c, seen + (m,)) for c in cs)

    def up(m):
        out, todo = set(), [m]
        while todo:
            x = todo.pop()
            for c in callers.get(x, ()):
                if c not in out:
                    out.add(c)
                    todo.append(c)
        return out

    def down(m, depth=2):
        out, todo = {m}, [(m, 0)]
        while todo:
            x, d = todo.pop()
            if d >= depth:
                continue
            for c in callees.get(x, ()):
                if c not in out:
                    out.add(c)
                    todo.append((c, d + 1))
        return out

    handed = {addf: set(aparams[:1]),
              cbf: set([p for p in cbf.params if p != 'self'][:1])}
    memo = {}

    def pilot_test(fn, depth=0):
        """predicate: the expression of fn denotes a pilot object (or a
        collection of them)"""
        if fn in memo:
            return memo[fn]
        d = Deps(fn.node, implicit=False)
        roots = {'self.' + t for t in ptables} | handed.get(fn, set())
        memo[fn] = lambda e: False           # recursion guard
        if depth < 2:
            for g_ in callers.get(fn, ()):
                test = pilot_test(g_, depth + 1)
                for c in calls_in(g_.node, nested=True):
                    if _self_attr(c.func) and prog.resolve_call(g_, c) is fn:
                        b = _bind(fn, c) or {}
                        for prm, (e, isdef) in b.items():
                            if not isdef and test(e):
                                roots.add(prm)

        def test(e):
            if isinstance(e, ast.Name) and e.id == 'self':
                return False
            return bool(d.expr_depends(e) & roots)
        memo[fn] = test
        return test

    unique = {n for n in snames
              if [k for k in prog.all_classes() if n in k.methods] == [pk]}

    offending = {}          # fn -> [(node, text)]
    looked = 0
    for fn in methods:
        if exempt(fn):
            continue
        is_pilot = pilot_test(fn)
        hits, undecided = [], []
        for c in calls_in(fn.node):
            if not isinstance(c.func, ast.Attribute) or \
                    c.func.attr not in snames:
                continue
            recv = c.func.value
            if _is_self(recv) or dotted(recv).startswith('super()') or \
                    isinstance(recv, ast.Call) and \
                    dotted(recv.func) == 'super':
                continue
            callee = prog.find_method(pk, c.func.attr)
            b = _bind(callee, c)
            if b is None:
                raise AnalysisError('UNRECOGNISED-IDIOM %s: arguments of `%s` '
                                    'cannot be bound' % (fn.where, short(c, 60)))
            args = {prm: _arg_of(prog, callee if isdef else fn, e,
                                 None if isdef else cbf)
                    for prm, (e, isdef) in b.items()}
            if not (is_pilot(recv) or c.func.attr in unique or
                    any(a.kind == 'ours' for a in args.values())):
                continue
            looked += 1
            # the metric the call is about
            mname = kwarg_name(reg.fn)
            if mname in b:
                e, isdef = b[mname]
                mv = prog.fold((callee if isdef else fn).module, e,
                               (callee if isdef else fn).cls)
                if isinstance(mv, str) and mv and mv != metric or \
                        isinstance(mv, (list, tuple, set)) and mv and \
                        metric not in mv:
                    rep.info(rid, fn, '`%s` is about the metric %r, the '
                             'callback is registered for %r'
                             % (short(c, 60), mv, metric), fn.loc(c))
                    continue
            for efn, site, sel, p, arg in unreg_effects(
                    prog, reg, shrinkers, metric, callee, args):
                what = _describe(efn, site, sel)
                if sel == 'copy':
                    continue
                if sel == 'all':
                    hits.append((c, what))
                elif sel == 'other' or arg is None or arg.kind == 'unknown':
                    undecided.append((c, what))
                elif arg.kind != 'ours':
                    continue                  # another callback
                elif sel == 'equality':
                    hits.append((c, what))
                elif reg_fresh and arg.fresh:
                    rep.info(rid, fn, '`%s` cannot remove the callback: %s, '
                             'but `%s` and the registration `%s` each make a '
                             'new bound method object' % (
                                 short(c, 60), what, short(arg.expr, 40),
                                 regtext), fn.loc(c))
                else:
                    undecided.append((c, what))
        # the registry of a pilot handled directly
        g = smap = None
        for site, kind, key, mexpr in shrink_sites(prog, fn, reg, is_pilot):
            looked += 1
            if mexpr is not None:
                mv = prog.fold(fn.module, mexpr, fn.cls)
                if isinstance(mv, str) and mv != metric:
                    continue
            if g is None:
                g = cfg_of(fn)
                smap = I.stmt_node_map(g)
            sel, p = selection(prog, fn, g, smap, site, kind, key, reg,
                               is_pilot, [], set())
            what = '`%s` removes %s from the registry of the pilot' % (
                short(site, 50), 'every callback of the table'
                if sel == 'all' else 'entries')
            if sel == 'all':
                hits.append((site, what))
            elif sel != 'copy':
                undecided.append((site, what))
        if fn is addf and regs and hits:
            # what add_pilots takes off a pilot before it registers the
            # callback on it does no harm
            g2 = cfg_of(fn)
            sm2 = I.stmt_node_map(g2)
            regn = {sm2[id(c)].id for c, a in regs if id(c) in sm2}
            keep = []
            for node, what in hits:
                hn = sm2.get(id(node))
                if hn is not None and regn - {hn.id} and \
                        must_pass(g2, hn.id, g2.exit.id, regn - {hn.id}):
                    rep.info(rid, fn, '`%s` is followed by the registration '
                             '`%s` on every path to the normal return'
                             % (short(node, 60), regtext), fn.loc(node))
                else:
                    keep.append((node, what))
            hits = keep
        if undecided and not hits:
            raise AnalysisError(
                'UNRECOGNISED-IDIOM %s: `%s` takes callbacks out of the '
                'registry of a pilot (%s): cannot decide whether the '
                'callback registered by add_pilots is among them'
                % (fn.where, short(undecided[0][0], 60), undecided[0][1]))
        if hits:
            offending[fn] = hits

    tables = ', '.join('self.' + a for a in sorted(task_attrs)) or 'the tasks'
    for fn, hits in sorted(offending.items(), key=lambda x: x[0].qual):
        around = {fn} | up(fn)
        caring = [m for m in sorted(around, key=lambda x: x.qual)
                  if failing_updates_safe(prog, m) or
                  reads_attrs(prog, m, task_attrs)]
        if caring:
            raise AnalysisError(
                'UNRECOGNISED-IDIOM %s: `%s` takes the callback registered '
                'by add_pilots off a pilot, and %s also handles tasks: '
                'cannot decide whether the tasks bound to that pilot are '
                'taken care of first' % (fn.where, short(hits[0][0], 60),
                                         caring[0].qual))
        entries = sorted(m.name for m in around
                         if not m.name.startswith('_')) or [fn.name]
        for node, what in hits:
            rep.bad(rid, fn, '%s [takes _pilot_state_cb off the pilot]'
                    % short(node, 60),
                    '%s: `%s` takes the callback which add_pilots registered '
                    '(`%s`) out of the callback registry of a pilot (%s), '
                    'but neither %s nor a method that calls it touches %s: '
                    'the tasks bound to that pilot stay bound and keep '
                    'running on it, and when the pilot ends %s is not '
                    'invoked for it, so they are never reported FAILED'
                    % (fn.qual, short(node, 60), regtext, what, fn.name,
                       tables, cbf.qual), fn.loc(node),
                    history='pilots p1, p2 added; task t1 is bound to p1 and '
                    'executing; %s(p1) takes the callback off p1, t1 stays '
                    'bound; p1 ends (DONE, FAILED or CANCELED): nothing '
                    'fails t1, it stays non-final forever (wait_tasks '
                    'hangs)' % entries[0])

    # obligations: (a) the methods which drop a pilot from the manager
    group_a = set()
    for t in sorted(ptables):
        shrink, _ = table_mutators(prog, tm, t)
        for m in sorted(shrink, key=lambda x: x.qual):
            if exempt(m):
                continue
            reach = down(m)
            group_a |= reach
            if not any(x in offending for x in reach):
                rep.ok(rid, m, '%s drops pilots from self.%s (`%s`) and - '
                       'with the %d method(s) of the manager it calls - '
                       'leaves the callback registered on them: the tasks '
                       'still bound to a removed pilot are failed when it '
                       'ends' % (m.qual, t, short(shrink[m], 40),
                                 len(reach) - 1), m.loc(shrink[m]))
    # (b) every other method of the manager
    rest = [m for m in methods if m not in group_a and not exempt(m)]
    if not any(m in offending for m in rest):
        rep.ok(rid, '%s::%s' % (tm.module.rel, tm.name),
               'no other method of %s (%d examined, %d call(s) / '
               'statement(s) on pilot objects looked at; %s and what only '
               'it calls exempt) takes callbacks out of the registry of a '
               'pilot; methods of the pilot which do: %s'
               % (tm.name, len(rest), looked,
                  closef.qual if closef else 'close',
                  ', '.join(sorted(snames)) or 'none'))


# ------------------------------------------------------------------------------
# R13.6: the callbacks see the state the notification carries
#
def backing_attr(prog, cls, name):
    """the attribute of the object behind `<obj>.<name>`: what the property
    `name` of the class returns, or the plain attribute itself"""
    m = prog.find_method(cls, name)
    if m is None:
        return name
    if not any(unparse(d).split('.')[-1] in ('property', 'cached_property')
               for d in m.node.decorator_list):
        raise AnalysisError('UNRECOGNISED-IDIOM %s: `.%s` is read as an '
                            'attribute but is a method' % (m.where, name))
    rets = {_self_attr(n.value) for n in walk(m.node)
            if isinstance(n, ast.Return)}
    if len(rets) != 1 or None in rets:
        raise AnalysisError('UNRECOGNISED-IDIOM %s: the property does not '
                            'return one attribute of the object' % m.where)
    return rets.pop()


def attr_stores(f, attr):
    """[(statement / call, value expression or None)]: the writes of
    self.<attr> in the body of f"""
    out = []
    for n in walk(f.node):
        if isinstance(n, ast.Assign):
            for t in n.targets:
                if _self_attr(t) == attr:
                    out.append((n, n.value))
                elif isinstance(t, (ast.Tuple, ast.List)):
                    hit = [i for i, e in enumerate(t.elts)
                           if _self_attr(e) == attr]
                    if not hit:
                        continue
                    v = n.value
                    if isinstance(v, (ast.Tuple, ast.List)) and \
                            len(v.elts) == len(t.elts) and not any(
                                isinstance(e, ast.Starred)
                                for e in v.elts + t.elts):
                        out.append((n, v.elts[hit[0]]))
                    else:
                        out.append((n, None))
        elif isinstance(n, ast.AnnAssign) and n.value is not None and \
                _self_attr(n.target) == attr:
            out.append((n, n.value))
        elif isinstance(n, ast.AugAssign) and _self_attr(n.target) == attr:
            out.append((n, None))
        elif isinstance(n, ast.Call) and dotted(n.func) == 'setattr' and \
                len(n.args) == 3 and _is_self(n.args[0]) and \
                isinstance(n.args[1], ast.Constant) and \
                n.args[1].value == attr:
            out.append((n, n.args[2]))
    return out


class _TwoStates(StateEval):
    """StateEval for a pair of states: `is_state` expressions denote the
    notified state, `is_cur` expressions the state the pilot has (`.cur`)"""

    def __init__(self, prog, f, is_state, is_cur, **kw):
        StateEval.__init__(self, prog, f, is_state, **kw)
        self.is_cur = is_cur
        self.cur = None

    def ev(self, e):
        if not self.is_state(e) and self.is_cur(e):
            return self.cur
        return StateEval.ev(self, e)


def r13_6(prog, rep, pilot_reads, rid='R13.6'):
    rep.rule(rid, 'Pilot._update writes the state the notification carries '
             'to the attribute _pilot_state_cb reads (Pilot.state) on every '
             'path to an invocation of the pilot specific callbacks - the '
             'write may only be skipped where that state equals the one the '
             'pilot already has', minimum=1)
    pk = prog.cls(*PILOT)
    upd, g, smap, registry, calls, own, du = pilot_dispatch(prog)
    rep.saw(upd)
    params = [p for p in upd.params if p != 'self']
    if not params:
        raise AnalysisError('anchor %s takes no notification' % upd.where)
    src = params[0]
    attrs = sorted({backing_attr(prog, pk, a)
                    for a in set(pilot_reads or ()) | {'state'}})
    readers = {'self.' + a for a in attrs}
    for name, m in pk.methods.items():
        try:
            if backing_attr(prog, pk, name) in attrs:
                readers.add('self.' + name)
        except AnalysisError:
            pass

    def is_target(e):
        return src in du.expr_depends(e)

    def is_current(e):
        dep = du.expr_depends(e)
        return bool(dep & readers) and src not in dep

    def equal_edge(test):
        """label of the edge the test takes when the notified state equals
        the state of the pilot, for a comparison of just these two"""
        pol, hops = True, 0
        while True:
            if isinstance(test, ast.UnaryOp) and isinstance(test.op, ast.Not):
                test, pol = test.operand, not pol
            elif isinstance(test, ast.Name) and hops < 3 and \
                    single_assign(upd, test.id) is not None:
                test, hops = single_assign(upd, test.id), hops + 1
            else:
                break
        if isinstance(test, ast.Compare) and len(test.ops) == 1 and \
                isinstance(test.ops[0], (ast.Eq, ast.NotEq)):
            l, r = test.left, test.comparators[0]
            if is_target(l) and is_current(r) or \
                    is_current(l) and is_target(r):
                eq = isinstance(test.ops[0], ast.Eq)
                return 'T' if eq == pol else 'F'
        return None

    table = [s for s in prog.const('states.py', '_pilot_state_values')
             if s is not None]
    final = [s for s in table if s in set(prog.const('states.py', 'FINAL'))]
    nonfinal = [s for s in table if s not in final]
    src_fixed = src not in assigned_names(upd.node)

    def entry_of(e, hops=0):
        """the key when `e` is the entry of that key of the notification
        (`<notification>[K]`, `.get(K[, default])`, a local assigned once
        from such a read), else None"""
        while isinstance(e, ast.Name) and hops < 4:
            v = single_assign(upd, e.id)
            if v is None:
                return None
            e, hops = v, hops + 1
        if not src_fixed:
            return None
        if isinstance(e, ast.Subscript) and isinstance(e.value, ast.Name) \
                and e.value.id == src and isinstance(e.slice, ast.Constant):
            return repr(e.slice.value)
        if isinstance(e, ast.Call) and isinstance(e.func, ast.Attribute) and \
                e.func.attr == 'get' and isinstance(e.func.value, ast.Name) \
                and e.func.value.id == src and 1 <= len(e.args) <= 2 and \
                isinstance(e.args[0], ast.Constant) and not e.keywords:
            return repr(e.args[0].value)
        return None

    def skipped_for(stores, good, skip, on):
        """([(final state t, non-final state c)]: notified t for a pilot in c,
        a path entry -> `on` avoids every write of the notified state, each
        test on it that is about one of the two states being evaluated for
        the pair (the last c per t is tried first: the pilot is active);
        tests that keep the answer open).  Tests about the states which
        cannot be evaluated are not passed through for the first and are free
        for the second."""
        keys = {entry_of(v) for st, v in good}
        if len(keys) != 1 or None in keys:
            return [], [good[0][1]]
        key = keys.pop()

        def is_state(e):
            return isinstance(e, (ast.Name, ast.Subscript, ast.Call)) and \
                entry_of(e) == key

        def is_cur(e, hops=0):
            while isinstance(e, ast.Name) and hops < 4:
                v = single_assign(upd, e.id)
                if v is None:
                    return False
                e, hops = v, hops + 1
            return isinstance(e, ast.Attribute) and unparse(e) in readers

        names = {n.id for n in walk(upd.node)
                 if isinstance(n, ast.Name) and (is_state(n) or is_cur(n))}
        decided = {lab_n for lab_n, _ in skip}
        about = []
        for n in g.nodes:
            if n.kind != 'test' or n.id in decided:
                continue
            dep = du.expr_depends(n.ast)
            if dep & names or dep & readers or \
                    any(is_state(x) for x in walk(n.ast, nested=True)):
                about.append(n)
        ev = _TwoStates(prog, upd, is_state, is_cur,
                        resolve=lambda nm: single_assign(upd, nm))
        lost, open_ = [], []
        for t in final:
            wrote = {smap[id(st)].id for st, v in good}
            for st, v in stores:
                if prog.fold(upd.module, v, upd.cls) == t:
                    wrote.add(smap[id(st)].id)      # the same state, literal
            for c in reversed(nonfinal):
                ev.cur = c
                off, unknown = list(skip), []
                for n in about:
                    try:
                        off.append((n.id, 'F' if ev.holds(n.ast, t) else 'T'))
                    except Uneval:
                        unknown.append(n)
                strict = g.reachable(
                    g.entry.id, skip_edges=off,
                    skip_nodes=wrote | {n.id for n in unknown})
                if on.id in strict:
                    lost.append((t, c))
                    break
                loose = g.reachable(g.entry.id, skip_edges=off,
                                    skip_nodes=wrote)
                if on.id in loose:
                    open_ += [n.ast for n in unknown if n.id in loose] or \
                        [good[0][0]]
        return lost, open_

    for attr in attrs:
        stores = attr_stores(upd, attr)
        for st, v in stores:
            if v is None or id(st) not in smap:
                raise AnalysisError('UNRECOGNISED-IDIOM %s: cannot tell what '
                                    '`%s` writes to self.%s'
                                    % (upd.where, short(st, 60), attr))
        good = [(st, v) for st, v in stores if is_target(v)]
        ids = {smap[id(st)].id for st, v in good}
        skip = []
        for n in g.nodes:
            if n.kind == 'test':
                lab = equal_edge(n.ast)
                if lab:
                    skip.append((n.id, lab))
        for o in own:
            on = smap[id(o)]
            r = g.reachable(g.entry.id, skip_nodes=ids, skip_edges=skip)
            if on.id not in r:
                rep.ok(rid, upd, '%s: every path to `%s` writes the notified '
                       'state to self.%s first (%d write(s)%s)'
                       % (upd.qual, short(o, 40), attr, len(good),
                          ', skipped only where the state is unchanged'
                          if skip else ''), upd.loc(o))
                continue
            before = [st for st, v in good if on.id in g.reachable(
                [e.dst for e in g.succ[smap[id(st)].id]
                 if e.label != 'exc' and not e.back], no_back=True)]
            if before:
                lost, open_ = skipped_for(stores, good, skip, on)
                if lost:
                    ends = [t for t, c in lost]
                    rep.bad(rid, upd, 'self.%s written before %s for every '
                            'final state' % (attr, short(o, 40)),
                            '%s: `%s` writes the notified state to self.%s '
                            'on some paths only: with the tests on the path '
                            'evaluated for each pair (notified state, state '
                            'of the pilot), a path from the entry to `%s` '
                            '(the pilot specific callbacks, among which '
                            'TaskManager.add_pilots registered '
                            '_pilot_state_cb) avoids every write when the '
                            'notified state is %s (e.g. for a pilot in %s).  '
                            '_pilot_state_cb reads that attribute '
                            '(pilot.state): for a pilot that ends %s it sees '
                            'the previous, non-final state and fails no task'
                            % (upd.qual, short(before[0], 50), attr,
                               short(o, 40), ' / '.join(ends), lost[0][1],
                               ' or '.join(ends)), upd.loc(before[0]),
                            history='pilot p1 is %s, task t1 is bound to it '
                            'and not final; the notification p1 -> %s '
                            'arrives: Pilot._update leaves p1.state at %s '
                            'and runs the callbacks, _pilot_state_cb sees a '
                            'non-final pilot and skips it: t1 stays '
                            'non-final forever (wait_tasks hangs)'
                            % (lost[0][1], lost[0][0], lost[0][1]))
                    continue
                if open_:
                    raise AnalysisError(
                        'UNRECOGNISED-IDIOM %s: `%s` writes the notified '
                        'state to self.%s before `%s` on some paths only, '
                        'and the condition (`%s`) is neither a comparison of '
                        'that state with the state of the pilot nor a test '
                        'of that state alone: cannot decide whether the '
                        'callbacks see the new state'
                        % (upd.where, short(before[0], 50), attr,
                           short(o, 40), short(open_[0], 50)))
                rep.ok(rid, upd, '%s: for every final state the '
                       'notification can carry, every path to `%s` writes it '
                       'to self.%s first (the write is skipped for non-final '
                       'states or an unchanged state only)'
                       % (upd.qual, short(o, 40), attr), upd.loc(o))
                continue
            others = [st for st, v in stores if not is_target(v)]
            if good:
                how = 'only writes it afterwards (`%s`, line %d)' % (
                    short(good[0][0], 40), good[0][0].lineno)
            elif others:
                how = 'writes something else there (`%s`)' % short(others[0],
                                                                    40)
            else:
                how = 'never writes it'
            rep.bad(rid, upd, 'self.%s written before %s' % (attr,
                                                             short(o, 40)),
                    '%s: `%s` invokes the pilot specific callbacks (%s), among '
                    'which TaskManager.add_pilots registered _pilot_state_cb, '
                    'but no path from the entry of the method writes the '
                    'state of the notification (`%s`) to self.%s before it - '
                    'the method %s.  _pilot_state_cb reads that attribute '
                    '(pilot.state) to decide whether the pilot ended: it '
                    'still sees the previous, non-final state and fails no '
                    'task' % (upd.qual, short(o, 40),
                              ', '.join(sorted(registry)), src, attr, how),
                    upd.loc(o),
                    history='pilot p1 is PMGR_ACTIVE, task t1 is bound to it '
                    'and executing; the notification p1 -> DONE arrives (the '
                    'runtime is over): _pilot_state_cb runs while p1.state is '
                    'still PMGR_ACTIVE and skips p1; a DONE pilot is not '
                    'published again, so there is no second invocation: t1 '
                    'stays non-final forever (wait_tasks hangs)')


# ------------------------------------------------------------------------------
# R13.13: one registry entry per callable
#
# attributes of a callable that other callables share: the name and the
# function of a bound method are those of the same method of every other
# instance, the instance is that of every other method of it
_SHARED_ATTRS = ('__name__', '__qualname__', '__func__', '__self__',
                 '__module__', '__code__', '__class__')


def registration_sites(reg):
    """[(statement, key expression | None)]: the statements of
    Pilot.register_callback which put the callback into the registry at the
    level where one callback sits; key None: appended to a sequence / a set"""
    f, cb = reg.fn, reg.cbparam
    d = Deps(f.node, implicit=False)
    out = []

    def carries(e):
        return cb in d.expr_depends(e)

    for n in walk(f.node):
        if isinstance(n, ast.Assign) and carries(n.value):
            for t in n.targets:
                if isinstance(t, ast.Subscript):
                    p = _regpath(f, t, reg, _is_self)
                    if p and p[0] == reg.depth:
                        out.append((n, t.slice))
        elif isinstance(n, ast.Call) and isinstance(n.func, ast.Attribute) \
                and n.func.attr in _APPENDERS + ('setdefault',) and \
                any(carries(a) for a in n.args):
            p = _regpath(f, n.func.value, reg, _is_self)
            if not p or p[0] + 1 != reg.depth:
                continue
            if n.func.attr == 'setdefault' and len(n.args) == 2:
                out.append((n, n.args[0]))
            elif n.func.attr == 'update':
                if len(n.args) == 1 and isinstance(n.args[0], ast.Dict) and \
                        all(k is not None for k in n.args[0].keys):
                    out += [(n, k) for k, v in zip(n.args[0].keys,
                                                   n.args[0].values)
                            if carries(v)]
                else:
                    raise AnalysisError(
                        'UNRECOGNISED-IDIOM %s: cannot tell under which key '
                        '`%s` stores the callback' % (f.where, short(n, 60)))
            else:
                out.append((n, None))
    return out


def key_kind(prog, f, cb, e, d, depth=0):
    """what the key `e` of a registry entry is, for the callable `cb` of the
    registration: ('identity', how) the callable itself / its id() - no other
    callable has it; ('shared', attribute) an attribute of the callable that
    other callables have as well; ('constant', text) nothing of the callable;
    ('unknown', text)"""
    fixed = cb not in assigned_names(f.node)
    if depth > 5:
        return ('unknown', short(e, 40))
    if isinstance(e, ast.Name):
        if e.id == cb:
            return ('identity', 'the callable itself') if fixed else \
                ('unknown', cb)
        v = single_assign(f, e.id)
        if v is not None:
            return key_kind(prog, f, cb, v, d, depth + 1)

    def is_cb(x, hops=0):
        while isinstance(x, ast.Name) and hops < 4:
            if x.id == cb:
                return fixed
            x, hops = single_assign(f, x.id), hops + 1
        return False

    if isinstance(e, ast.Call) and dotted(e.func) == 'id' and \
            len(e.args) == 1 and not e.keywords:
        if is_cb(e.args[0]):
            return ('identity', 'id() of the callable')
        k = key_kind(prog, f, cb, e.args[0], d, depth + 1)
        if k[0] == 'shared':
            return k                     # the id() of a shared object
        return ('unknown', short(e, 40))
    if isinstance(e, ast.Attribute) and is_cb(e.value):
        return ('shared', e.attr) if e.attr in _SHARED_ATTRS else \
            ('unknown', unparse(e))
    if isinstance(e, ast.Call) and dotted(e.func) == 'getattr' and \
            2 <= len(e.args) <= 3 and not e.keywords and is_cb(e.args[0]) \
            and isinstance(e.args[1], ast.Constant):
        # the callback add_pilots registers is a bound method: it has each
        # of these attributes, the default is not taken
        a = e.args[1].value
        return ('shared', a) if a in _SHARED_ATTRS else \
            ('unknown', unparse(e))
    if isinstance(e, ast.BoolOp) and isinstance(e.op, ast.Or):
        k = key_kind(prog, f, cb, e.values[0], d, depth + 1)
        if k[0] == 'shared' and k[1] != '__class__':
            return k                     # a name / function / instance: true
        return ('unknown', short(e, 40))
    if isinstance(e, ast.Tuple) and not any(isinstance(x, ast.Starred)
                                            for x in e.elts):
        ks = [key_kind(prog, f, cb, x, d, depth + 1) for x in e.elts]
        for want in ('identity', 'unknown', 'shared', 'constant'):
            hit = [k for k in ks if k[0] == want]
            if hit:
                return hit[0]
        return ('constant', '()')
    if cb not in d.expr_depends(e):
        stored = assigned_names(f.node)

        def const(x):
            if isinstance(x, ast.Constant):
                return True
            if isinstance(x, ast.Name):
                return x.id != 'self' and x.id in f.params and \
                    x.id not in stored or \
                    prog.fold(f.module, x, f.cls) is not UNKNOWN
            if isinstance(x, ast.Attribute):
                return prog.fold(f.module, x, f.cls) is not UNKNOWN
            if isinstance(x, ast.Tuple):
                return all(const(y) for y in x.elts)
            if isinstance(x, ast.BinOp):
                return const(x.left) and const(x.right)
            return False

        if const(e):
            return ('constant', short(e, 40))
    return ('unknown', short(e, 40))


def r13_13(prog, rep, rid='R13.13'):
    rep.rule(rid, 'Pilot.register_callback keeps one registry entry per '
             'callable: the key of the entry is the callable itself or its '
             'id() (or the entry is appended), not something another '
             'callable shares - a later registration must not replace the '
             'callback TaskManager.add_pilots registered', minimum=1)
    reg = _Reg(prog)
    f, cb = reg.fn, reg.cbparam
    rep.saw(f)
    d = Deps(f.node, implicit=False)
    sites = registration_sites(reg)
    if not sites:
        raise AnalysisError('UNRECOGNISED-IDIOM %s: no statement found that '
                            'stores the callback in %s'
                            % (f.where, sorted(reg.attrs)))
    for st, key in sites:
        if key is None:
            rep.ok(rid, f, '%s: `%s` appends the callback: an entry of its '
                   'own' % (f.qual, short(st, 50)), f.loc(st))
            continue
        kind, what = key_kind(prog, f, cb, key, d)
        if kind == 'identity':
            rep.ok(rid, f, '%s: `%s` stores the callback under %s: no other '
                   'callable replaces the entry'
                   % (f.qual, short(st, 50), what), f.loc(st))
            continue
        if kind == 'unknown':
            raise AnalysisError(
                'UNRECOGNISED-IDIOM %s: `%s` stores the callback under the '
                'key `%s` (%s): cannot decide whether two different '
                'callables can have the same key'
                % (f.where, short(st, 50), short(key, 40), what))
        if kind == 'shared':
            why = ('the attribute %s of the callable, which it shares with '
                   'other callables (the bound method `_pilot_state_cb` of '
                   'every TaskManager has the same %s, and so has a method '
                   'of that name of an application object)' % (what, what))
        else:
            why = ('`%s`, which does not depend on the callable at all: '
                   'every registration for the same metric has the same key'
                   % what)
        rep.bad(rid, f, 'registry key of the callback',
                '%s: `%s` stores the callback under a key that is %s.  A '
                'dict keeps one entry per key: a later register_callback '
                'with another callable REPLACES the entry '
                'TaskManager.add_pilots made for _pilot_state_cb instead of '
                'adding one.  Pilot._update then invokes the other callable '
                'only, the task manager never learns that the pilot ended '
                'and fails none of the tasks bound to it'
                % (f.qual, short(st, 60), why), f.loc(st),
                history='tm1.add_pilots(p1); task t1 of tm1 is bound to p1 '
                'and executing; then a second TaskManager tm2 adds p1 too (or '
                'the application registers a method of its own that is also '
                'called _pilot_state_cb on p1): the entry of '
                'tm1._pilot_state_cb is overwritten; p1 ends (DONE, FAILED '
                'or CANCELED): only the second callback runs, nothing fails '
                't1, it stays non-final forever (wait_tasks hangs)')


# ------------------------------------------------------------------------------
# R13.7: what the callback tests of a task is what Task._update maintains
#
TASK = ('task.py', 'Task')


def _str_of(expr, env):
    """the string an expression denotes under `env` ({loop variable: str})"""
    if isinstance(expr, ast.Constant):
        return expr.value if isinstance(expr.value, str) else None
    if isinstance(expr, ast.Name):
        return env.get(expr.id)
    if isinstance(expr, ast.BinOp) and isinstance(expr.op, ast.Mod):
        l = _str_of(expr.left, env)
        args = expr.right.elts if isinstance(expr.right, ast.Tuple) \
            else [expr.right]
        vals = [_str_of(a, env) for a in args]
        if l is None or None in vals:
            return None
        try:
            return l % tuple(vals)
        except (TypeError, ValueError):
            return None
    if isinstance(expr, ast.BinOp) and isinstance(expr.op, ast.Add):
        l, r = _str_of(expr.left, env), _str_of(expr.right, env)
        return None if l is None or r is None else l + r
    if isinstance(expr, ast.JoinedStr):
        out = ''
        for v in expr.values:
            if isinstance(v, ast.FormattedValue):
                if v.format_spec is not None or v.conversion not in (-1, 115):
                    return None
                v = v.value
            s = _str_of(v, env)
            if s is None:
                return None
            out += s
        return out
    if isinstance(expr, ast.Call) and dotted(expr.func) == 'str' and \
            len(expr.args) == 1 and not expr.keywords:
        return _str_of(expr.args[0], env)
    if isinstance(expr, ast.Call) and isinstance(expr.func, ast.Attribute) \
            and expr.func.attr == 'format' and not expr.keywords and \
            isinstance(expr.func.value, ast.Constant) and \
            isinstance(expr.func.value.value, str):
        vals = [_str_of(a, env) for a in expr.args]
        if None in vals:
            return None
        try:
            return expr.func.value.value.format(*vals)
        except (IndexError, KeyError, ValueError):
            return None
    return None


def _loop_envs(prog, f, g, node):
    """bindings of the variables of the enclosing loops over literal
    collections of strings: [{variable: value}]"""
    envs = [{}]
    for h in node.loops:
        hn = g.nodes[h]
        if hn.kind != 'for' or not isinstance(hn.ast.target, ast.Name):
            continue
        it = hn.ast.iter
        hops = 0
        while isinstance(it, ast.Name) and hops < 3 and \
                single_assign(f, it.id) is not None:
            it, hops = single_assign(f, it.id), hops + 1
        while isinstance(it, ast.Call) and dotted(it.func) in (
                'list', 'tuple', 'sorted', 'set', 'frozenset', 'iter') and \
                len(it.args) == 1 and not it.keywords:
            it = it.args[0]
        v = prog.fold(f.module, it, f.cls)
        if v is UNKNOWN or not isinstance(v, (list, tuple, set, frozenset)) \
                or not all(isinstance(x, str) for x in v):
            continue
        envs = [dict(e, **{hn.ast.target.id: x}) for e in envs
                for x in sorted(v)]
    return envs


def _dict_read(f, g, at, expr, src, env, depth=0):
    """key (a string) when `expr` is what the notification `src` holds under
    that key: src[K], src.get(K[, None]), or a local whose definitions
    reaching the cfg node `at` read one such key"""
    if depth > 3 or expr is None:
        return None
    if isinstance(expr, ast.Subscript) and isinstance(expr.value, ast.Name) \
            and expr.value.id == src:
        return _str_of(expr.slice, env)
    if isinstance(expr, ast.Call) and isinstance(expr.func, ast.Attribute) \
            and expr.func.attr == 'get' and \
            isinstance(expr.func.value, ast.Name) and \
            expr.func.value.id == src and expr.args and not expr.keywords \
            and (len(expr.args) == 1 or
                 isinstance(expr.args[1], ast.Constant) and
                 expr.args[1].value is None):
        return _str_of(expr.args[0], env)
    if isinstance(expr, ast.Name) and expr.id != src:
        defs, undef = defs_reaching(g, expr.id, at)
        if undef or not defs:
            return None
        # (a definition that is no such read - `target = current` for a
        # task that stays CANCELED - keeps what the object has on that path)
        keys = set()
        for d in defs:
            if d.kind != 'stmt' or not isinstance(d.ast, ast.Assign) or \
                    len(d.ast.targets) != 1 or \
                    not isinstance(d.ast.targets[0], ast.Name):
                return None
            keys.add(_dict_read(f, g, d.id, d.ast.value, src, env, depth + 1))
        keys.discard(None)
        if len(keys) == 1:
            return keys.pop()
    return None


def _key_test(prog, f, atom, env):
    """truth of a test on the loop variables for one binding, None: cannot
    be evaluated"""
    if isinstance(atom, ast.UnaryOp) and isinstance(atom.op, ast.Not):
        v = _key_test(prog, f, atom.operand, env)
        return None if v is None else not v
    if isinstance(atom, ast.BoolOp):
        vals = [_key_test(prog, f, v, env) for v in atom.values]
        if None in vals:
            return None
        return all(vals) if isinstance(atom.op, ast.And) else any(vals)
    if isinstance(atom, ast.Compare) and len(atom.ops) == 1:
        op = atom.ops[0]
        l = _str_of(atom.left, env)
        if l is None:
            return None
        rx = atom.comparators[0]
        r = _str_of(rx, env)
        if r is None:
            if isinstance(rx, (ast.List, ast.Tuple, ast.Set)):
                r = [_str_of(e, env) for e in rx.elts]
                if None in r:
                    return None
            else:
                r = prog.fold(f.module, rx, f.cls)
                if r is UNKNOWN:
                    return None
        try:
            if isinstance(op, ast.Eq):
                return l == r
            if isinstance(op, ast.NotEq):
                return l != r
            if isinstance(op, ast.In):
                return l in r
            if isinstance(op, ast.NotIn):
                return l not in r
        except TypeError:
            return None
    return None


def _presence_test(f, g, at, atom, pol, vexpr, src, key, env):
    """the guard `atom` (taken when `pol`) lets the copy of `key` go ahead
    exactly when the notification carries a value for it: True; it lets it go
    ahead only when it carries none: False; not a test of that: None"""
    if isinstance(atom, ast.UnaryOp) and isinstance(atom.op, ast.Not):
        return _presence_test(f, g, at, atom.operand, not pol, vexpr, src,
                              key, env)

    def is_value(e):
        if isinstance(vexpr, ast.Name) and isinstance(e, ast.Name):
            return e.id == vexpr.id
        return _dict_read(f, g, at, e, src, env) == key and \
            not isinstance(e, ast.Name)

    if is_value(atom):
        return pol
    if isinstance(atom, ast.Compare) and len(atom.ops) == 1:
        op = atom.ops[0]
        l, r = atom.left, atom.comparators[0]
        if isinstance(op, (ast.Is, ast.IsNot, ast.Eq, ast.NotEq)):
            for a, b in ((l, r), (r, l)):
                if is_value(a) and isinstance(b, ast.Constant) and \
                        b.value is None:
                    return isinstance(op, (ast.IsNot, ast.NotEq)) == pol
        if isinstance(op, (ast.In, ast.NotIn)) and isinstance(r, ast.Name) \
                and r.id == src and _str_of(l, env) == key:
            return isinstance(op, ast.In) == pol
    return None


def dict_copies(prog, f):
    """({(attribute, key)}: the attributes of the object f writes from the
    entry `key` of the notification it is handed - whenever the notification
    carries a value for it -, [writes whose attribute or source cannot be
    named])"""
    g = cfg_of(f)
    smap = I.stmt_node_map(g)
    params = [p for p in f.params if p != 'self']
    if not params:
        raise AnalysisError('anchor %s takes no notification' % f.where)
    src = params[0]
    writes = []
    for n in walk(f.node):
        if isinstance(n, ast.Call) and dotted(n.func) == 'setattr' and \
                len(n.args) == 3 and _is_self(n.args[0]):
            writes.append((n, n.args[1], n.args[2]))
        elif isinstance(n, ast.Assign):
            for t in n.targets:
                if _self_attr(t):
                    writes.append((n, ast.Constant(value=t.attr), n.value))
    copies, dynamic = set(), []
    for site, nexpr, vexpr in writes:
        node = smap.get(id(site))
        if node is None:
            continue
        atoms = [(g.nodes[t].ast, lab == 'T') for t, lab in guards(g, node.id)]
        for env in _loop_envs(prog, f, g, node):
            attr = _str_of(nexpr, env)
            if attr is None:
                dynamic.append(site)
                continue
            key = _dict_read(f, g, node.id, vexpr, src, env)
            if key is None:
                continue
            go = True
            for atom, pol in atoms:
                hops = 0
                while isinstance(atom, ast.Name) and hops < 3 and not (
                        isinstance(vexpr, ast.Name) and
                        atom.id == vexpr.id) and \
                        single_assign(f, atom.id) is not None:
                    atom, hops = single_assign(f, atom.id), hops + 1
                p = _presence_test(f, g, node.id, atom, pol, vexpr, src, key,
                                   env)
                if p is not None:
                    go = go and p
                    continue
                names = {x.id for x in walk(atom, nested=True)
                         if isinstance(x, ast.Name)}
                if names & set(env):
                    v = _key_test(prog, f, atom, env)
                    if v is None:
                        raise AnalysisError(
                            'UNRECOGNISED-IDIOM %s: `%s` is guarded by `%s`, '
                            'a test on the key being copied the recogniser '
                            'cannot evaluate' % (f.where, short(site, 50),
                                                 short(atom, 60)))
                    go = go and v == pol
                elif isinstance(vexpr, ast.Name) and vexpr.id in names or \
                        src in names and any(
                            _str_of(x, env) == key
                            for x in walk(atom, nested=True)
                            if isinstance(x, (ast.Constant, ast.Name))):
                    raise AnalysisError(
                        'UNRECOGNISED-IDIOM %s: `%s` is guarded by `%s`, a '
                        'test on the value being copied the recogniser does '
                        'not know' % (f.where, short(site, 50),
                                      short(atom, 60)))
            if go:
                copies.add((attr, key))
    return copies, dynamic


def r13_7(prog, rep, task_reads, rid='R13.7'):
    rep.rule(rid, 'every attribute of the task _pilot_state_cb tests (its '
             'pilot binding, its state) is one Task._update copies from the '
             'entry of the same name of the state notification whenever the '
             'notification carries it: the manager learns the binding the '
             'scheduler made and the states the task reached', minimum=2)
    tk = prog.cls(*TASK)
    upd = prog.method(TASK[0], TASK[1], '_update')
    rep.saw(upd)
    copies, dynamic = dict_copies(prog, upd)
    rep.stat('task_update_copies', len(copies))
    what = {'pilot': ('the pilot binding', 'compares with the uid of the '
                      'ending pilot',
                      'task t1 is submitted without description.pilot; the '
                      'tmgr scheduler binds it to p1 (notification {uid: t1, '
                      'state: TMGR_STAGING_INPUT_PENDING, pilot: p1}); p1 '
                      'FAILS: t1.pilot still is what the description said '
                      '(\'\'), the callback takes t1 for a task of another '
                      'pilot and skips it: t1 stays non-final forever'),
            'state': ('the state', 'tests for being final',
                      'task t1 on pilot p1 becomes DONE (notification {uid: '
                      't1, state: DONE}); p1 ends: t1.state still is not '
                      'final for the manager, t1 is reported FAILED')}
    # (the binding and the state are what the property speaks of, whether
    # or not the callback as it is tests them: R13.1 reports a missing test)
    need = {}
    for name in sorted(set(task_reads or ()) | {'pilot', 'state'}):
        need.setdefault(backing_attr(prog, tk, name), name)
    for attr, name in sorted(need.items()):
        key = name.lstrip('_')
        text, use, hist = what.get(key, ('`%s`' % key, 'tests', ''))
        if (attr, key) in copies:
            rep.ok(rid, upd, '%s copies the entry %r of the notification to '
                   'self.%s, which _pilot_state_cb reads as task.%s'
                   % (upd.qual, key, attr, name), upd.loc())
            continue
        if dynamic:
            raise AnalysisError(
                'UNRECOGNISED-IDIOM %s: no copy of the entry %r to self.%s '
                'is found, but `%s` writes an attribute whose name cannot be '
                'evaluated' % (upd.where, key, attr, short(dynamic[0], 60)))
        others = sorted(k for a, k in copies if a == attr)
        rep.bad(rid, upd, 'copy of %r to self.%s' % (key, attr),
                '%s does not copy the entry %r of the state notification to '
                'self.%s (%s; it copies %s), but TaskManager._pilot_state_cb '
                'reads task.%s - %s of the task, which it %s - and Task.%s '
                'returns self.%s: what the notifications say about it never '
                'reaches the object the callback looks at'
                % (upd.qual, key, attr,
                   'it is written from the entr%s %s instead'
                   % ('y' if len(others) == 1 else 'ies', ', '.join(others))
                   if others else 'nothing in the method writes it from the '
                   'notification',
                   ', '.join(sorted(k for a, k in copies)) or 'nothing',
                   name, text, use, name, attr),
                upd.loc(), history=hist)


# ------------------------------------------------------------------------------
# R13.8 / R13.9: the final state reaches Pilot._update.  The pilot manager is
# the only driver of Pilot._update (C14); for this property two of C14's
# conditions are necessary: every pilot notification of a bulk message is
# handed to _update_pilot (R14.6), and for a pilot in a non-final state that
# is notified a final state the last state Pilot._update is handed - and
# accepts - is that final state (the part of R14.7 about final targets).  The
# rules are C14's, evaluated under ids of this property.
#
def r13_8(prog, rep, rid='R13.8'):
    from . import c14
    fn = getattr(c14, 'r14_6', None)
    if fn is None:
        raise AnalysisError('%s: rule function c14.r14_6 not found' % rid)
    fn(prog, rep, rid=rid)
    rep.rules[rid] = ('[C14 R14.6, necessary here: a final state that is not '
                      'applied to the pilot fails no task] ' + rep.rules[rid])


def r13_9(prog, rep, rid='R13.9'):
    from . import c14
    from ..report import Report
    fn = getattr(c14, 'r14_7', None)
    if fn is None:
        raise AnalysisError('%s: rule function c14.r14_7 not found' % rid)
    rep.rule(rid, '[C14 R14.7 for final targets] for a pilot in any non-final '
             'state that is notified DONE / FAILED / CANCELED, the last state '
             'PilotManager._update_pilot hands Pilot._update is that final '
             'state, and Pilot._update accepts every step into it', minimum=3)
    final = set(prog.const('states.py', 'FINAL'))
    tmp = Report(rep.prop, rep.tier, rep.root, quiet=True)
    fn(prog, tmp, rid=rid)
    for k, v in tmp.stats.items():
        rep.stat(k, v)
    up = prog.method('pilot_manager.py', 'PilotManager', '_update_pilot')
    # R14.7 evaluates Pilot._update by interpretation and follows plain
    # assignments to the state attribute only
    pupd = prog.method(PILOT[0], PILOT[1], '_update')
    sattr = backing_attr(prog, prog.cls(*PILOT), 'state')
    plain = all(isinstance(st, ast.Assign) and len(st.targets) == 1 and
                _self_attr(st.targets[0]) == sattr
                for st, v in attr_stores(pupd, sattr))
    bad, masked = {}, set()
    for fd in tmp.findings:
        kind, _, tgt = str(fd.construct).partition(':')
        if kind not in ('replay', 'accept') or tgt not in final:
            continue
        if kind == 'accept' and not plain:
            rep.info(rid, pupd, 'the state attribute self.%s is not written '
                     'by plain assignments only: the evaluation of %s by '
                     'R14.7 is not relied on for the target %s (R13.6 '
                     'decides the write)' % (sattr, pupd.qual, tgt), fd.loc)
            masked.add((kind, tgt))
            continue
        if kind == 'replay':
            # the pair the finding is about: a pilot that already is final
            # has no tasks left to fail
            cur = None
            words = fd.message.split()
            if 'state' in words and 'notified' in words:
                cur = words[words.index('state') + 1]
            if cur in final:
                rep.info(rid, up, 'C14 reports for the target %s a pilot '
                         'that already is %s: not a matter of this property '
                         '(R14.7 names the nearest pair only: not decided '
                         'here for this target)' % (tgt, cur), fd.loc)
                masked.add((kind, tgt))
                continue
        bad[(kind, tgt)] = fd
    for kind in ('replay', 'accept'):
        for tgt in sorted(final):
            fd = bad.get((kind, tgt))
            if (kind, tgt) in masked:
                continue
            if fd is not None:
                rep.bad(rid, fd.where, fd.construct, fd.message, fd.loc,
                        history=(fd.history or '') + '; the tasks bound to '
                        'that pilot are never reported FAILED')
            else:
                rep.ok(rid, up, '%s: %s' % (
                    up.qual, 'a pilot in a non-final state that is notified '
                    '%s is handed to Pilot._update with %s as the last state'
                    % (tgt, tgt) if kind == 'replay' else
                    'Pilot._update accepts every step into %s' % tgt),
                    up.loc())


# ------------------------------------------------------------------------------
# R13.10: the binding the scheduler made arrives in a bulk of task
# notifications (TaskManager._update_tasks -> Task._update, R13.7).  A
# notification of that bulk which raises by design (a contradicting final
# state: ValueError of _task_state_progress; an invalid step: RuntimeError of
# Task._update) must not keep the notifications behind it from being applied:
# the binding of another task is among them.  The rule is C06's R06.4,
# evaluated under an id of this property.
#
def r13_10(prog, rep, rid='R13.10'):
    from . import c06
    fn = getattr(c06, 'r06_4', None)
    if fn is None:
        raise AnalysisError('%s: rule function c06.r06_4 not found' % rid)
    n0 = len(rep.findings)
    fn(prog, rep, rid=rid)
    rep.rules[rid] = ('[C06 R06.4, necessary here: the binding the scheduler '
                      'made for a task travels in a bulk of task '
                      'notifications; a bulk that is aborted leaves the task '
                      'unbound for the manager and it is not failed when its '
                      'pilot ends] ' + rep.rules[rid])
    for fd in rep.findings[n0:]:
        if fd.rule == rid:
            fd.history = (
                'pilot p0 fails, its task t0 is reported FAILED; then one '
                'bulk [t0: DONE (late message of the agent of p0), t1: '
                'TMGR_STAGING_INPUT_PENDING with pilot=p1 (the binding the '
                'scheduler made)] arrives: t0 raises, the bulk is aborted, '
                't1.pilot stays unset; p1 ends: t1 is taken for a task of '
                'another pilot and stays non-final forever'
                + (' (%s)' % fd.history if fd.history else ''))


# ------------------------------------------------------------------------------
# R13.11: producer / consumer agreement on the keys of the FAILED update.
# The callback hands Task._update a dict; Task._update copies the entries
# whose keys it knows to attributes of the task and reads some entries by
# subscript.  The entry that names the pilot must be under a key Task._update
# copies to an attribute a property of Task returns (else the task is FAILED
# without the explanation), and every key Task._update reads unconditionally by
# subscript must be in the dict (else the update raises KeyError in the
# callback and no task behind it is failed).
#
def mandatory_keys(f, src):
    """keys f reads as `src[<literal>]` on every path from its entry (the
    read is not control dependent on anything)"""
    g = cfg_of(f)
    smap = I.stmt_node_map(g)
    out = {}
    for n in walk(f.node):
        if isinstance(n, ast.Subscript) and isinstance(n.ctx, ast.Load) and \
                isinstance(n.value, ast.Name) and n.value.id == src and \
                isinstance(n.slice, ast.Constant) and \
                isinstance(n.slice.value, str):
            node = smap.get(id(n))
            if node is None or node.loops or node.tries:
                continue
            if guards(g, node.id):
                continue
            out.setdefault(n.slice.value, n)
    return out


def public_readers(prog, cls, attr):
    """names of the properties of the class which return self.<attr>"""
    out = []
    for k in prog.mro(cls):
        for name, m in sorted(k.methods.items()):
            if not any(unparse(d).split('.')[-1] in ('property',
                                                     'cached_property')
                       for d in m.node.decorator_list):
                continue
            rets = {_self_attr(n.value) for n in walk(m.node)
                    if isinstance(n, ast.Return)}
            if rets == {attr}:
                out.append(name)
    return out


def r13_11(prog, rep, f, rid='R13.11'):
    rep.rule(rid, 'keys of the FAILED update agree with Task._update: the '
             'entry that names the ending pilot is under a key Task._update '
             'copies to an attribute a property of Task returns, and every '
             'key Task._update reads unconditionally by subscript is in the '
             'update', minimum=2)
    final, failed = _consts(prog)
    tk = prog.cls(*TASK)
    upd = prog.method(TASK[0], TASK[1], '_update')
    rep.saw(upd)
    params = [p for p in upd.params if p != 'self']
    if not params:
        raise AnalysisError('anchor %s takes no notification' % upd.where)
    copies, dynamic = dict_copies(prog, upd)
    need = mandatory_keys(upd, params[0])
    g = cfg_of(f)
    smap = I.stmt_node_map(g)
    d0 = Deps(f.node, implicit=False)
    fparams = [p for p in f.params if p != 'self']
    for call, tvar, dicts in failing_updates(prog, f, failed):
        node = smap[id(call)]
        pvars = [g.nodes[h].ast.target.id for h in node.loops
                 if g.nodes[h].kind == 'for' and
                 isinstance(g.nodes[h].ast.target, ast.Name) and fparams and
                 fparams[0] in d0.expr_depends(g.nodes[h].ast.iter) and
                 g.nodes[h].ast.target.id != tvar]
        if not pvars:
            raise AnalysisError('UNRECOGNISED-IDIOM %s: `%s` is not inside a '
                                'loop over the pilots given to the callback'
                                % (f.where, short(call, 60)))
        pvar = pvars[-1]
        uid = {pvar + '.uid', pvar + '._uid', "%s['uid']" % pvar}
        ctext = short(call, 60)
        for dl in dicts:
            if any(k is None for k in dl.keys):
                raise AnalysisError('UNRECOGNISED-IDIOM %s: the update `%s` '
                                    'is built with ** from a dict that '
                                    'cannot be named' % (f.where, ctext))
            keys = {}
            for k, v in zip(dl.keys, dl.values):
                if not (isinstance(k, ast.Constant) and
                        isinstance(k.value, str)):
                    raise AnalysisError('UNRECOGNISED-IDIOM %s: a key of the '
                                        'update `%s` is no string literal'
                                        % (f.where, ctext))
                keys.setdefault(k.value, v)
            naming = sorted(k for k, v in keys.items()
                            if d0.expr_depends(v) & uid)
            if not naming:
                continue            # R13.1 reports that nothing names the pilot
            reach = []
            for k in naming:
                for attr, key in sorted(copies):
                    if key == k and public_readers(prog, tk, attr):
                        reach.append((k, attr))
            if not reach and dynamic:
                raise AnalysisError(
                    'UNRECOGNISED-IDIOM %s: no copy of the entr%s %s is '
                    'found, but `%s` writes an attribute whose name cannot '
                    'be evaluated' % (upd.where,
                                      'y' if len(naming) == 1 else 'ies',
                                      ', '.join(map(repr, naming)),
                                      short(dynamic[0], 60)))
            known = sorted({k for a, k in copies})
            rep.check(bool(reach), rid, f, '%s: the entry %r of `%s`, which '
                      'names the ending pilot, is copied by %s to self.%s, '
                      'which Task.%s returns'
                      % ((f.qual, reach[0][0], ctext, upd.qual, reach[0][1],
                          public_readers(prog, tk, reach[0][1])[0])
                         if reach else (f.qual, '', ctext, upd.qual, '', '')),
                      construct='%s [explanation key]' % ctext,
                      message='%s: the explanation that names the ending pilot '
                      'is handed to Task._update under the key%s %s, but %s '
                      'copies only the entries %s of what it is handed (and '
                      'ignores every other key): the task becomes FAILED, but '
                      'neither Task.exception nor Task.exception_detail says '
                      'which pilot took it down'
                      % (f.qual, '' if len(naming) == 1 else 's',
                         ', '.join(map(repr, naming)), upd.qual,
                         ', '.join(known) or 'nothing'),
                      loc=f.loc(call),
                      history='pilot p1 FAILS with task t1 bound to it and '
                      'executing: t1 is FAILED with exception_detail None - '
                      'no part of the explanation mentions p1')
            missing = sorted(k for k in need if k not in keys)
            rep.check(not missing, rid, f, '%s: `%s` carries every key %s '
                      'reads unconditionally by subscript (%s)'
                      % (f.qual, ctext, upd.qual,
                         ', '.join(sorted(need)) or 'none'),
                      construct='%s [mandatory keys]' % ctext,
                      message='%s: the update `%s` has no entry %s, which %s '
                      'reads as `%s` on every path: the update raises '
                      'KeyError inside the callback, this task and every '
                      'task behind it in the loop stay as they are'
                      % (f.qual, ctext, ', '.join(map(repr, missing)),
                         upd.qual, short(need[missing[0]], 40)
                         if missing else ''),
                      loc=f.loc(call),
                      history='pilot p1 ends with tasks t1, t2 bound to it: '
                      'Task._update raises KeyError for t1, the callback is '
                      'unwound, t1 and t2 stay non-final forever')


# ------------------------------------------------------------------------------
# R13.12: every registered callback is invoked.  Pilot._update walks the
# registry Pilot.register_callback fills; TaskManager.add_pilots registered
# _pilot_state_cb there - at whatever position (the application may register
# callbacks of its own before and after).  So every invocation of a value taken
# out of the registry sits in a loop over the registry, every iteration of
# such a loop invokes the callable of its element (it may be skipped only on
# a test of that callable itself), and the loop runs over the whole registry.
#
_WHOLE = ('list', 'tuple', 'sorted', 'iter', 'dict', 'reversed')


def _registry_domain(f, g, it, at, registry, du, depth=0):
    """'all' | 'part' | None: the iterable denotes every entry of the
    registry / a slice of them / cannot be told"""
    if depth > 6:
        return None
    if isinstance(it, ast.Call) and not it.keywords:
        if isinstance(it.func, ast.Name) and it.func.id in _WHOLE and \
                len(it.args) == 1:
            return _registry_domain(f, g, it.args[0], at, registry, du,
                                    depth + 1)
        if isinstance(it.func, ast.Attribute) and not it.args and \
                it.func.attr in ('items', 'values', 'keys', 'copy'):
            return _registry_domain(f, g, it.func.value, at, registry, du,
                                    depth + 1)
        return None
    if isinstance(it, ast.Subscript):
        if isinstance(it.slice, ast.Slice):
            sl = it.slice
            triv = all(x is None or isinstance(x, ast.Constant) and
                       x.value is None for x in (sl.lower, sl.upper)) and (
                sl.step is None or isinstance(sl.step, ast.Constant) and
                sl.step.value in (None, 1, -1))
            base = _registry_domain(f, g, it.value, at, registry, du,
                                    depth + 1)
            if base is None:
                return None
            return base if triv else 'part'
        # self._callbacks[<metric>]: the table of one metric
        if _self_attr(it.value) is not None and \
                'self.' + it.value.attr in registry:
            return 'all'
        return None
    if isinstance(it, ast.Attribute) and _self_attr(it) is not None and \
            'self.' + it.attr in registry:
        return 'all'
    if isinstance(it, ast.Name):
        defs, undef = defs_reaching(g, it.id, at)
        if undef or not defs:
            return None
        res = set()
        for d in defs:
            if d.kind != 'stmt' or not isinstance(d.ast, ast.Assign) or \
                    len(d.ast.targets) != 1 or \
                    not isinstance(d.ast.targets[0], ast.Name):
                return None
            res.add(_registry_domain(f, g, d.ast.value, d.id, registry, du,
                                     depth + 1))
        if None in res:
            return None
        return 'part' if 'part' in res else 'all'
    return None


def r13_12(prog, rep, rid='R13.12'):
    rep.rule(rid, 'Pilot._update invokes every callback of the registry '
             'Pilot.register_callback fills: each invocation of a value taken '
             'out of it sits in a loop over the registry, every iteration of '
             'that loop invokes the callable of its element, and the loop '
             'runs over all entries', minimum=2)
    upd, g, smap, registry, calls, own, du = pilot_dispatch(prog)
    rep.saw(upd)
    HIST = ('tmgr.add_pilots(p1) registers _pilot_state_cb on p1; the '
            'application then registers a callback of its own '
            '(p1.register_callback(cb)); task t1 is bound to p1 and '
            'executing; p1 FAILS')
    heads = {}
    for n in g.nodes:
        if n.kind == 'for' and du.expr_depends(n.ast.iter) & registry:
            heads[n.id] = n
    if not heads:
        raise AnalysisError('UNRECOGNISED-IDIOM %s: no loop over the callback '
                            'registry %s found' % (upd.where, sorted(registry)))

    def elem_names(h):
        """names that hold (a part of) the element of the loop"""
        base = set(stores_in_target(h.ast.target))
        out = set(base)
        for name, deps in du.edges.items():
            if '.' in name or '[' in name:
                continue
            if du.closure(name) & base:
                out.add(name)
        return out

    per_loop = {}
    for o in own:
        on = smap[id(o)]
        mine = [h for h in on.loops if h in heads and
                du.expr_depends(o.func) & elem_names(heads[h])]
        if mine:
            per_loop.setdefault(mine[-1], []).append(o)
            continue
        outer = [h for h in heads.values()
                 if du.expr_depends(o.func) & elem_names(h)]
        if not outer:
            raise AnalysisError('UNRECOGNISED-IDIOM %s: `%s` invokes a value '
                                'of %s that is not the element of a loop over '
                                'it' % (upd.where, short(o, 50),
                                        sorted(registry)))
        rep.bad(rid, upd, '%s outside the loop' % short(o, 50),
                '%s: `%s` invokes a callback taken out of the registry %s by '
                'the loop `for %s in %s`, but the invocation is not part of '
                'the body of that loop: it runs once, after the loop, with '
                'what the last iteration left in the local - only the callback '
                'registered last is invoked (none, and a NameError, for an '
                'empty registry).  TaskManager.add_pilots registered '
                '_pilot_state_cb in that registry: when the application '
                'registers a callback of its own after add_pilots, the task '
                'manager is not told that the pilot ended'
                % (upd.qual, short(o, 50), ', '.join(sorted(registry)),
                   short(outer[0].ast.target, 30), short(outer[0].ast.iter, 50)),
                upd.loc(o), history=HIST + ': only cb runs, t1 stays '
                'non-final forever (wait_tasks hangs)')
    for hid, h in sorted(heads.items()):
        sites = per_loop.get(hid, [])
        if not sites:
            continue
        ids = {smap[id(o)].id for o in sites}
        cnames = set()
        for o in sites:
            if isinstance(o.func, ast.Name):
                cnames.add(o.func.id)

        def absent_edge(test):
            """label of the edge a test of the callable itself takes when
            there is nothing to call"""
            pol = True
            while isinstance(test, ast.UnaryOp) and \
                    isinstance(test.op, ast.Not):
                test, pol = test.operand, not pol
            present = None
            if isinstance(test, ast.Name) and test.id in cnames:
                present = True
            elif isinstance(test, ast.Call) and dotted(test.func) == \
                    'callable' and len(test.args) == 1 and \
                    isinstance(test.args[0], ast.Name) and \
                    test.args[0].id in cnames:
                present = True
            elif isinstance(test, ast.Compare) and len(test.ops) == 1 and \
                    isinstance(test.left, ast.Name) and \
                    test.left.id in cnames and \
                    isinstance(test.comparators[0], ast.Constant) and \
                    test.comparators[0].value is None and \
                    isinstance(test.ops[0], (ast.Is, ast.IsNot, ast.Eq,
                                             ast.NotEq)):
                present = isinstance(test.ops[0], (ast.IsNot, ast.NotEq))
            if present is None:
                return None
            return 'F' if present == pol else 'T'

        def transfer(node, edge, st):
            if edge.label == 'exc':
                return None
            if node.kind == 'test' and edge.label in ('T', 'F') and \
                    absent_edge(node.ast) == edge.label:
                return None
            if node.id in ids:
                return 1
            return st

        start, stop, stop_edge = loop_slice(g, hid)
        ex = Exploration(g, start, 0, transfer, stop=stop, stop_edge=stop_edge)
        missed = None
        left = None
        for t in ex.terminals:
            if t.via == 'exc':
                continue
            path = ex.path(t)
            back = bool(path) and path[-1].back and path[-1].dst == hid
            if back and not t.state and missed is None:
                missed = ex.literals(t)
            if path and not back and left is None:
                left = (g.nodes[path[-1].src].ast, ex.literals(t))
        rep.check(left is None, rid, upd, '%s: no iteration of `for %s in '
                  '%s` leaves the loop (return / break)'
                  % (upd.qual, short(h.ast.target, 30), short(h.ast.iter, 50)),
                  construct='loop %s [left early]' % short(h.ast.iter, 40),
                  message='%s: an iteration of the loop `for %s in %s` over '
                  'the callback registry leaves the loop (`%s`%s): the '
                  'callbacks behind that entry are never invoked - '
                  'TaskManager.add_pilots registers _pilot_state_cb in that '
                  'registry, at whatever position the application\'s own '
                  'registrations leave it'
                  % ((upd.qual, short(h.ast.target, 30), short(h.ast.iter, 50),
                      short(left[0], 40), ' when [%s]' % ' ; '.join(left[1])
                      if left[1] else '') if left else
                     (upd.qual, '', '', '', '')),
                  loc=upd.loc(left[0]) if left else upd.loc(h.ast),
                  history='the application registers cb on p1 '
                  '(p1.register_callback(cb)), then tmgr.add_pilots(p1); task '
                  't1 is bound to p1 and executing; p1 FAILS: cb runs, the '
                  'loop ends, _pilot_state_cb is not invoked and t1 stays '
                  'non-final forever')
        rep.check(missed is None, rid, upd, '%s: every iteration of `for %s '
                  'in %s` invokes the callback of its element (%d call '
                  'site(s))' % (upd.qual, short(h.ast.target, 30),
                                short(h.ast.iter, 50), len(sites)),
                  construct='loop %s [every element invoked]'
                  % short(h.ast.iter, 40),
                  message='%s: an iteration of the loop `for %s in %s` over '
                  'the callback registry can end without invoking the '
                  'callback of its element [%s]: a registered callback - '
                  'TaskManager.add_pilots registers _pilot_state_cb there - '
                  'is skipped, and the task manager is not told that the '
                  'pilot ended' % (upd.qual, short(h.ast.target, 30),
                                   short(h.ast.iter, 50),
                                   ' ; '.join(missed or [])),
                  loc=upd.loc(h.ast), history=HIST + ' (a callback for which '
                  '[%s] holds is not invoked): t1 stays non-final forever'
                  % ' ; '.join(missed or []))
        dom = _registry_domain(upd, g, h.ast.iter, hid, registry, du)
        if dom is None:
            rep.info(rid, upd, 'the iterable `%s` of the dispatch loop is not '
                     'recognised as the whole registry or a slice of it: its '
                     'domain is not decided' % short(h.ast.iter, 50),
                     upd.loc(h.ast))
            continue
        rep.check(dom == 'all', rid, upd, '%s: the dispatch loop runs over '
                  'all entries of the registry (`%s`)'
                  % (upd.qual, short(h.ast.iter, 50)),
                  construct='loop %s [domain]' % short(h.ast.iter, 40),
                  message='%s: the dispatch loop iterates `%s`, a slice of the '
                  'registered callbacks: the callbacks cut off are never '
                  'invoked - _pilot_state_cb of the task manager is one of '
                  'the registered callbacks' % (upd.qual,
                                                short(h.ast.iter, 50)),
                  loc=upd.loc(h.ast), history=HIST + ': the entry cut off by '
                  'the slice is not invoked')


def kwarg_name(regfn):
    """name of the metric parameter of Pilot.register_callback"""
    for p in regfn.params:
        if 'metric' in p:
            return p
    return None


# ------------------------------------------------------------------------------
#
def run(prog, rep, tier):
    rep.decided = ('in TaskManager._pilot_state_cb the update that fails a '
        'task is control dependent, with the right polarity, on the pilot '
        'being final, on `task.pilot == <uid of that pilot>` and on the task '
        'not being final, and its explanation is built from the pilot uid; '
        'TaskManager.add_pilots registers that callback for the pilot state '
        'metric on every pilot object; no guard of the update asks whether '
        'the pilot is still an entry of a manager table which another method '
        'shrinks without caring for the bound tasks (remove_pilots / '
        'self._pilots); no method of TaskManager other than close takes '
        'that callback off a pilot again (Pilot.unregister_callback with it '
        'or without a callback, any pilot method that empties the registry, '
        'the registry handled directly) without handling the tasks bound to '
        'the pilot; in Pilot._update no unprotected call that runs '
        'callbacks of another registry (the pilot manager\'s application '
        'callbacks) can run before an invocation of the pilot specific '
        'callbacks, among which that callback is; Pilot._update writes the '
        'notified state to the attribute Pilot.state returns on every path '
        'to such an invocation (skipped at most where the state is '
        'unchanged), so the callback sees the final state; Task._update '
        'copies the entries `pilot` and `state` of a state notification to '
        'the attributes Task.pilot / Task.state return, so the binding the '
        'scheduler made is known when the pilot ends; every pilot '
        'notification of a bulk message reaches _update_pilot, and a final '
        'state notified for a pilot in any non-final state is the last '
        'state handed to - and accepted by - Pilot._update (R14.6 and the '
        'final-target part of R14.7, evaluated here); a thing of another '
        'type in the same bulk does not end the pilot manager\'s loop; a '
        'task notification that raises by design does not abort the bulk '
        'of TaskManager._update_tasks in which the binding of another task '
        'travels (R06.4, evaluated here); the entry of the FAILED update '
        'that names the pilot is under a key Task._update copies to an '
        'attribute a Task property returns, and the update carries every key '
        'Task._update reads unconditionally; Pilot._update invokes the '
        'callable of every entry of the callback registry (invocation inside '
        'the loop over the registry, on every path of an iteration, loop not '
        'left early, whole registry iterated); Pilot.register_callback '
        'stores every callable under a key of its own (the callable or its '
        'id()), so that a later registration cannot replace the callback '
        'add_pilots registered.')
    rep.undecided = ('the transport of the notifications (pubsub bridges, '
        'C16) and the stickiness of final task states inside Task._update '
        '(C06); that TaskManager._update_tasks hands every task '
        'notification that does not raise to Task._update (C05/C06).  Not '
        'decided: isolation between the '
        'callbacks of the SAME registry - an application callback registered '
        'with pilot.register_callback before tmgr.add_pilots runs before '
        '_pilot_state_cb in Pilot._update and, if it raises, hides it (this '
        'is how the unchanged tree behaves).  Not decided: callbacks taken '
        'off a pilot by code outside TaskManager - the application calling '
        'pilot.unregister_callback(None), which removes every callback of '
        'the metric including the manager\'s, or the pilot emptying its own '
        'registry during its life cycle.')
    rep.assumptions = [
        'the binding made by the tmgr scheduler travels as the entry `pilot` '
        'of the task state notification (the key Task.as_dict publishes it '
        'under); R13.7 decides that Task._update copies it',
        'R13.6: the callbacks run in the thread that runs Pilot._update; a '
        'comparison `notified state ==/!= state of the pilot` is the only '
        'condition under which the write may be skipped; operands are told '
        'apart by flow-insensitive dependence on the notification parameter',
        'R13.6 (write on some paths only): the notified state ranges over '
        'the final states and the state of the pilot over the non-final '
        'states of states.py; `self.<state attribute>` and locals assigned '
        'once from it denote the state of the pilot on a path without write; '
        'tests that involve neither state are free',
        'R13.13: the callback add_pilots registers is a bound method (it has '
        '__name__, __qualname__, __func__, __self__): getattr(cb, <such an '
        'attribute>, default) never takes the default; two task managers '
        'may add the same pilot, and an application may register a method '
        'of any name',
        'R13.7: a write `setattr(self, <name>, v)` / `self.<attr> = v` is a '
        'copy of the entry K when v is notification[K] / .get(K[, None]) or '
        'a local some reaching definition of which is; the key collection '
        'of the loop folds to literal strings',
        'guards are the branch edges every path from the start of one '
        'iteration of the pilot loop to the update must take, plus the '
        'conditions of a filtering comprehension used as the iterable',
        'dependence of names on `pilot.uid` / `pilot.state` is the '
        'flow-insensitive closure over assignments (no implicit flows)',
        'R13.3: a method that deletes / pops entries of the table and reads '
        'neither the task table nor fails tasks leaves the bound tasks bound',
        'R13.5: a bound method expression `self.<method>` is a new object at '
        'every evaluation, so a registry keyed by id() of the callable never '
        'finds it again (Pilot.unregister_callback as it is raises '
        'ValueError); `==` on bound methods of the same object and function '
        'holds; a receiver is a pilot when it is derived from the table '
        'add_pilots fills, from what add_pilots / the callback are handed, '
        'or when the called method exists on Pilot only; close ends the '
        'manager, what it unregisters is not reported',
        'R13.11: the update is a dict display / dict(..) call (possibly via a '
        'local) with literal keys; Task._update ignores keys it does not '
        'name (it copies a literal collection of keys)',
        'R13.12: a test of the callable itself (`if cb`, `cb is None`, '
        'callable(cb)`) may skip an entry: a registered callback is callable',
        'R13.4: a call of a value taken out of data (loop element, subscript, '
        '.get(), parameter) is a callback of the application and may raise; '
        'try/except Exception (or broader) without re-raise isolates it; '
        '`self.<attr>.<m>()` is resolved by the annotated / constructed '
        'class of the attribute, else by the method name if it is unique in '
        'the package; library calls run no application code',
    ]
    rep.rule('R13.1', 'the FAILED update in _pilot_state_cb is control '
             'dependent on: pilot final, task bound to that pilot, task not '
             'final; its explanation names the pilot', minimum=4)
    rep.rule('R13.3', 'no guard of the FAILED update tests the ending pilot '
             'being an entry of a manager table that another method shrinks '
             'without taking care of the bound tasks', minimum=1)
    f = prog.method(TMGR[0], TMGR[1], '_pilot_state_cb')
    shared = {}
    n = r13_1(prog, rep, f, out=shared)
    if n < 1:
        raise AnalysisError('R13.1: no `<task>._update({... state: rps.FAILED '
                            '...})` found in %s' % f.where)
    r13_2(prog, rep)
    r13_4(prog, rep)
    r13_5(prog, rep, shared.get('task_attrs', set()))
    r13_6(prog, rep, shared.get('pilot_reads', set()))
    r13_7(prog, rep, shared.get('task_reads', set()))
    r13_8(prog, rep)
    r13_9(prog, rep)
    r13_10(prog, rep)
    r13_11(prog, rep, f)
    r13_12(prog, rep)
    r13_13(prog, rep)
    if tier == 'thorough':
        # sweep: the same rule on every other method of the package's manager
        # classes that fails tasks because of a pilot (none today)
        rep.rule('R13.1s', 'sweep of R13.1 over every method of task_manager.py '
                 'that updates tasks to FAILED inside a loop over pilots',
                 minimum=0)
        final, failed = _consts(prog)
        m = prog.module(TMGR[0])
        k = 0
        for c in m.classes.values():
            for name, fn in sorted(c.methods.items()):
                if fn is f:
                    continue
                try:
                    if failing_updates(prog, fn, failed):
                        k += r13_1(prog, rep, fn, rid='R13.1s')
                except AnalysisError as e:
                    rep.info('R13.1s', fn, str(e))
        rep.stat('sweep_sites', k)


# ------------------------------------------------------------------------------
# self-test variants (texts refer to the tree with the F03 repair committed)
#
_TM = 'task_manager.py'

_HEAD = "                for task in self._tasks.values():\n\n"
_CMT  = ("                    # only tasks bound to this pilot are affected, and only\n"
         "                    # if they did not reach a final state on their own\n")
_BIND = "                    if task.pilot != pid:\n                        continue\n\n"
_NFIN = "                    if task.state in rps.FINAL:\n                        continue\n\n"
_UPD  = ("                    update = {'uid'             : task.uid,\n"
         "                              'exception'       : 'RuntimeError(\"pilot died\")',\n"
         "                              'exception_detail': 'pilot %s is final' % pid,\n"
         "                              'state'           : rps.FAILED}\n\n"
         "                    task._update(update)\n"
         "                    tasks.append(task.as_dict())\n")
_UPD_NESTED = ("                        update = {'uid'             : task.uid,\n"
         "                                  'exception'       : 'RuntimeError(\"pilot died\")',\n"
         "                                  'exception_detail': 'pilot %s is final' % pid,\n"
         "                                  'state'           : rps.FAILED}\n\n"
         "                        task._update(update)\n"
         "                        tasks.append(task.as_dict())\n")
_NFT  = "                    if task.state in rps.FINAL:\n"
_GUARDED = _HEAD + _CMT + _BIND + _NFIN + _UPD

# the repair of F03 as an edit on the unrepaired text (kept for reference and
# for trees that do not carry the repair; make_overlay treats it as applied
# when the new text is already there)
FIX_F03 = (_TM, _HEAD + "                    update = {'uid'             : task.uid,\n",
           _HEAD + _CMT + _BIND + _NFIN +
           "                    update = {'uid'             : task.uid,\n")

_PFIN = "            if state in rps.FINAL:\n\n                self._log.debug('pilot %s is final', pid)"
_PLOOP = "        for pilot in pilots:\n\n            pid   = pilot.uid\n            state = pilot.state\n"

_PL = 'pilot.py'
_CBS = ("        with self._cb_lock:\n"
        "            for _,cb_val in self._callbacks[rpc.PILOT_STATE].items():\n\n"
        "                cb      = cb_val['cb']\n"
        "                cb_data = cb_val['cb_data']\n\n"
        "                self._log.debug('call %s', cb)\n\n"
        "                self._log.debug('%s calls cb %s', self.uid, cb)\n\n"
        "                if cb_data: cb([self], cb_data)\n"
        "                else      : cb([self])\n\n")
_PMGR = ("            # ask pmgr to invoke any global callbacks\n"
         "            self._pmgr._call_pilot_callbacks(self)\n")
_WITH = "        with self._cb_lock:\n            for _,cb_val in self._callbacks[rpc.PILOT_STATE].items():\n"


# ---- R13.5: remove_pilots and the callback registry of the pilot
_RM   = "                del self._pilots[pid]\n"
_UNREG_OLD = ("                if cb:\n"
              "                    to_delete = [id(cb)]\n"
              "                else:\n"
              "                    to_delete = list(self._callbacks[metric].keys())\n\n"
              "                for cb_id in to_delete:\n\n"
              "                    if cb_id not in self._callbacks[metric]:\n"
              "                        raise ValueError(\"unknown callback '%s'\" % cb_id)\n\n"
              "                    del self._callbacks[metric][cb_id]\n")
# seed C13-e: unregister_callback finds bound methods (compares callables)
_UNREG_EQ  = ("                if cb:\n"
              "                    to_delete = [cb_id for cb_id, cb_val\n"
              "                                       in  self._callbacks[metric].items()\n"
              "                                       if  cb_val['cb'] == cb]\n"
              "                    if not to_delete:\n"
              "                        raise ValueError(\"unknown callback '%s'\" % cb)\n"
              "                else:\n"
              "                    to_delete = list(self._callbacks[metric].keys())\n\n"
              "                for cb_id in to_delete:\n"
              "                    del self._callbacks[metric][cb_id]\n")
_ATTACH_END = "      #     self._tmgr.submit_tasks(self._raptor_waitpool)\n"
_DETACH = ("\n\n    # --------------------------------------------------------------------------\n"
           "    #\n"
           "    def detach_tmgr(self, tmgr) -> None:\n\n"
           "        if self._tmgr is not tmgr:\n"
           "            raise RuntimeError('this pilot is not attached to %s' % tmgr.uid)\n"
           "        self._tmgr = None\n")
_DETACH_CLEAR_ALL = _DETACH + ("\n        # the task manager is not told about this pilot anymore\n"
           "        with self._cb_lock:\n"
           "            self._callbacks[rpc.PILOT_STATE].clear()\n")

# ---- R13.6 .. R13.9: the chain notification -> Pilot._state -> callbacks,
#      and what Task._update maintains
_PM = 'pilot_manager.py'
_TK = 'task.py'
_ST   = "        self._state = target\n\n"
_STOP = "        if self._state in rps.FINAL:\n            self._sub.stop()\n"
_MERGE = "        ru.dict_merge(self._pilot_dict, pilot_dict, ru.OVERWRITE)\n"
_KEYS = ("        for key in ['state', 'stdout', 'stderr', 'exit_code', 'return_value',\n"
         "                    'endpoint_fs', 'resource_sandbox', 'session_sandbox',\n"
         "                    'pilot', 'pilot_sandbox', 'task_sandbox', 'client_sandbox',\n"
         "                    'exception', 'exception_detail', 'slots', 'partition',\n"
         "                    'ofiles']:\n\n")
_COPY = ("            val = task_dict.get(key, None)\n"
         "            if val is not None:\n"
         "                setattr(self, \"_%s\" % key, val)\n")
_UPP  = "                self._update_pilot(thing, publish=False)\n"
_TRUNC = ("            if target in [rps.CANCELED, rps.FAILED]:\n"
          "                # don't replay intermediate states\n"
          "                passed = passed[-1:]\n")
_THINGS = ("        for thing in things:\n\n"
           "            if 'type' in thing and thing['type'] == 'pilot':\n\n"
           "                self._log.debug('state push: %s: %s', thing['uid'],\n"
           "                                thing['state'])\n\n"
           "                # we got the state update from the state callback - don't\n"
           "                # publish it again\n"
           "                self._update_pilot(thing, publish=False)\n")


MUTATIONS = [
    dict(name='R13.6 seed C13-g3: Pilot._state committed last, after the callbacks',
         rules=('R13.6',), edits=[
        (_PL, _ST + _STOP, "        if target in rps.FINAL:\n            self._sub.stop()\n"),
        (_PL, _PMGR, _PMGR + "\n        self._state = target\n")]),
    dict(name='R13.6 state written under the lock, after the loop over the pilot callbacks',
         rules=('R13.6',), edits=[
        (_PL, _ST + _STOP, "        if target in rps.FINAL:\n            self._sub.stop()\n"),
        (_PL, _PMGR, "            self._state = target\n\n" + _PMGR)]),
    dict(name='R13.6 state written inside the loop, after each callback',
         rules=('R13.6',), edits=[
        (_PL, _ST + _STOP, "        if target in rps.FINAL:\n            self._sub.stop()\n"),
        (_PL, "                else      : cb([self])\n\n",
              "                else      : cb([self])\n\n                self._state = target\n\n")],
         note='the first callback of the registry sees the old state'),
    dict(name='R13.6 the old state is written back (current and target mixed up)',
         rules=('R13.6',), edits=[
        (_PL, _ST + _STOP, "        self._state = current\n\n        if target in rps.FINAL:\n            self._sub.stop()\n")]),
    dict(name='R13.7 seed C13-g6: pilot dropped from the keys Task._update copies',
         rules=('R13.7',), edits=[
        (_TK, "                    'pilot', 'pilot_sandbox',", "                    'pilot_sandbox',")]),
    dict(name='R13.7 binding copied from an entry no producer fills (pilot_id)',
         rules=('R13.7',), edits=[
        (_TK, "                    'pilot', 'pilot_sandbox',", "                    'pilot_id', 'pilot_sandbox',")]),
    dict(name='R13.7 the binding made at submission is treated as fixed: key skipped in the loop',
         rules=('R13.7',), edits=[
        (_TK, _COPY, "            if key == 'pilot':\n                continue\n\n" + _COPY)]),
    dict(name='R13.7 state dropped from the copied keys',
         rules=('R13.7',), edits=[
        (_TK, "        for key in ['state', 'stdout',", "        for key in ['stdout',")],
         note='sibling key: the manager never sees a task become final, final tasks are failed again'),
    dict(name='R13.7 values are copied only when the notification has none (test inverted)',
         rules=('R13.7',), edits=[
        (_TK, "            if val is not None:\n                setattr(self, \"_%s\" % key, val)\n",
              "            if val is None:\n                setattr(self, \"_%s\" % key, val)\n")]),
    dict(name='R13.8 seed C13-g4: return after the first pilot of a bulk notification',
         rules=('R13.8',), edits=[
        (_PM, _UPP, _UPP + "                return True\n")]),
    dict(name='R13.8 break after the first pilot of a bulk notification',
         rules=('R13.8',), edits=[
        (_PM, _UPP, _UPP + "                break\n")]),
    dict(name='R13.8 only the first thing of the message is looked at',
         rules=('R13.8',), edits=[
        (_PM, "        for thing in things:\n\n            if 'type' in thing", "        for thing in things[:1]:\n\n            if 'type' in thing")]),
    dict(name='R13.9 seed C13-g5: first instead of last passed state kept for FAILED / CANCELED',
         rules=('R13.9',), edits=[
        (_PM, "                passed = passed[-1:]\n", "                passed = passed[:1]\n")]),
    dict(name='R13.9 the final state itself is cut off the replay',
         rules=('R13.9',), edits=[
        (_PM, "                passed = passed[-1:]\n", "                passed = passed[:-1]\n")]),
    dict(name='R13.9 intermediate states dropped for DONE, too (Pilot._update rejects the jump)',
         rules=('R13.9',), edits=[
        (_PM, "            if target in [rps.CANCELED, rps.FAILED]:\n", "            if target in rps.FINAL:\n")]),
    dict(name='R13.9 Pilot._update no longer exempts CANCELED from the single-step test',
         rules=('R13.9',), edits=[
        (_PL, "        if target not in [rps.FAILED, rps.CANCELED]:\n", "        if target not in [rps.FAILED]:\n")]),
    dict(name='R13.3 seed C13-c: pilots no longer in self._pilots are skipped',
         rules=('R13.3',), edits=[
        (_TM, _PFIN,
              "            with self._pilots_lock:\n"
              "                if pid not in self._pilots:\n"
              "                    self._log.debug('ignore state of unknown pilot %s', pid)\n"
              "                    continue\n\n" + _PFIN)]),
    dict(name='R13.3 membership joined to the pilot-final test', rules=('R13.3',), edits=[
        (_TM, _PFIN, "            if state in rps.FINAL and pid in self._pilots:\n\n"
                     "                self._log.debug('pilot %s is final', pid)")]),
    dict(name='R13.3 tasks whose pilot was removed from the tmgr are skipped',
         rules=('R13.3',), edits=[
        (_TM, _BIND + _NFIN, _BIND + "                    if task.pilot not in self._pilots:\n                        continue\n\n" + _NFIN)]),
    dict(name='R13.3 lookup with .get() hoisted into a local', rules=('R13.3',), edits=[
        (_TM, _PFIN, "            known = self._pilots.get(pid)\n"
                     "            if known is None:\n"
                     "                continue\n\n" + _PFIN)]),
    dict(name='R13.3 membership asked through list_pilots()', rules=('R13.3',), edits=[
        (_TM, _PFIN, "            if pid not in self.list_pilots():\n"
                     "                continue\n\n" + _PFIN)]),
    dict(name='R13.3 removed pilots filtered out of the loop over the pilots',
         rules=('R13.3',), edits=[
        (_TM, _PLOOP, "        for pilot in [p for p in pilots if p.uid in self._pilots]:\n\n"
                      "            pid   = pilot.uid\n            state = pilot.state\n")]),
    dict(name='R13.3 only pilots which are NOT registered take their tasks down',
         rules=('R13.3',), edits=[
        (_TM, _PFIN, "            if pid in self._pilots:\n"
                     "                continue\n\n" + _PFIN)]),
    dict(name='R13.5 seed C13-e: remove_pilots undoes add_pilots (callback unregistered, tmgr detached)',
         rules=('R13.5',), edits=[
        (_PL, _UNREG_OLD, _UNREG_EQ),
        (_PL, _ATTACH_END, _ATTACH_END + _DETACH),
        (_TM, _RM, "\n                pilot = self._pilots.pop(pid)\n\n"
                   "                if not isinstance(pilot, dict):\n"
                   "                    pilot.unregister_callback(self._pilot_state_cb)\n"
                   "                    pilot.detach_tmgr(self)\n")]),
    dict(name='R13.5 remove_pilots drops all state callbacks of the pilot: unregister_callback(None)',
         rules=('R13.5',), edits=[
        (_TM, _RM, "                if not isinstance(self._pilots[pid], dict):\n"
                   "                    self._pilots[pid].unregister_callback(None)\n" + _RM)],
         note='Pilot.unregister_callback as it is: no callback given = every callback of the metric'),
    dict(name='R13.5 keyword spelling, metric named, receiver read from the table before the del',
         rules=('R13.5',), edits=[
        (_PL, _UNREG_OLD, _UNREG_EQ),
        (_TM, _RM, "                known = self._pilots[pid]\n"
                   "                if not isinstance(known, dict):\n"
                   "                    known.unregister_callback(metric=rpc.PILOT_STATE,\n"
                   "                                              cb=self._pilot_state_cb)\n" + _RM)]),
    dict(name='R13.5 remove_pilots clears the state callback table of the pilot directly',
         rules=('R13.5',), edits=[
        (_TM, _RM, "                pilot = self._pilots.pop(pid)\n"
                   "                if not isinstance(pilot, dict):\n"
                   "                    with pilot._cb_lock:\n"
                   "                        pilot._callbacks[rpc.PILOT_STATE].clear()\n")]),
    dict(name='R13.5 new Pilot.detach_tmgr clears the state callbacks, remove_pilots calls it',
         rules=('R13.5',), edits=[
        (_PL, _ATTACH_END, _ATTACH_END + _DETACH_CLEAR_ALL),
        (_TM, _RM, "                pilot = self._pilots.pop(pid)\n"
                   "                if not isinstance(pilot, dict):\n"
                   "                    pilot.detach_tmgr(self)\n")]),
    dict(name='R13.5 the undoing sits in a helper method remove_pilots calls',
         rules=('R13.5',), edits=[
        (_PL, _UNREG_OLD, _UNREG_EQ),
        (_TM, _RM, "                self._release_pilot(self._pilots.pop(pid))\n"),
        (_TM, "    # --------------------------------------------------------------------------\n    #\n    def list_pilots(self):\n",
              "    # --------------------------------------------------------------------------\n    #\n"
              "    def _release_pilot(self, pilot):\n\n"
              "        if isinstance(pilot, dict):\n"
              "            return\n\n"
              "        cb = self._pilot_state_cb\n"
              "        pilot.unregister_callback(cb)\n\n\n"
              "    # --------------------------------------------------------------------------\n    #\n    def list_pilots(self):\n")]),
    dict(name='R13.5 get_pilots hands out pilots without the manager callback',
         rules=('R13.5',), edits=[
        (_PL, _UNREG_OLD, _UNREG_EQ),
        (_TM, "        with self._pilots_lock:\n            return list(self._pilots.values())\n",
              "        with self._pilots_lock:\n"
              "            pilots = list(self._pilots.values())\n\n"
              "        for pilot in pilots:\n"
              "            if not isinstance(pilot, dict):\n"
              "                pilot.unregister_callback(self._pilot_state_cb)\n\n"
              "        return pilots\n")],
         note='sibling site: the pilots stay in self._pilots, only the callback goes'),
    dict(name='R13.4 seed C13-d: pmgr callbacks before the pilot callbacks, outside the lock',
         rules=('R13.4',), edits=[
        (_PL, _PMGR, ""),
        (_PL, _WITH, "        self._pmgr._call_pilot_callbacks(self)\n\n" + _WITH)]),
    dict(name='R13.4 pmgr callbacks first thing under the lock', rules=('R13.4',), edits=[
        (_PL, _PMGR, ""),
        (_PL, _WITH, "        with self._cb_lock:\n"
                     "            self._pmgr._call_pilot_callbacks(self)\n\n"
                     "            for _,cb_val in self._callbacks[rpc.PILOT_STATE].items():\n")]),
    dict(name='R13.4 pmgr callbacks inside the loop, after each pilot callback',
         rules=('R13.4',), edits=[
        (_PL, "                else      : cb([self])\n\n" + _PMGR,
              "                else      : cb([self])\n\n"
              "                self._pmgr._call_pilot_callbacks(self)\n")],
         note='the first pilot callback is followed by application code before the second one runs'),
    dict(name='R13.4 pmgr registry walked inline before the pilot callbacks',
         rules=('R13.4',), edits=[
        (_PL, _PMGR, ""),
        (_PL, _WITH, "        for pcb in self._pmgr._callbacks[rpc.PILOT_STATE].values():\n"
                     "            pcb['cb']([self])\n\n" + _WITH)]),
    dict(name='R13.4 pmgr callbacks first, exceptions logged and raised again',
         rules=('R13.4',), edits=[
        (_PL, _PMGR, ""),
        (_PL, _WITH, "        try:\n"
                     "            self._pmgr._call_pilot_callbacks(self)\n"
                     "        except Exception:\n"
                     "            self._log.exception('pmgr callback failed')\n"
                     "            raise\n\n" + _WITH)]),
    dict(name='R13.1 F03 reverted: binding test removed', rules=('R13.1',), edits=[
        (_TM, _BIND, "")]),
    dict(name='R13.1 F03 reverted: non-final test removed', rules=('R13.1',), edits=[
        (_TM, _NFIN, "")]),
    dict(name='R13.1 F03 reverted completely', rules=('R13.1',), edits=[
        (_TM, _CMT + _BIND + _NFIN, "")]),
    dict(name='R13.1 binding test inverted', rules=('R13.1',), edits=[
        (_TM, "                    if task.pilot != pid:\n", "                    if task.pilot == pid:\n")]),
    dict(name='R13.1 non-final test inverted', rules=('R13.1',), edits=[
        (_TM, "                    if task.state in rps.FINAL:\n", "                    if task.state not in rps.FINAL:\n")]),
    dict(name='R13.1 only DONE and FAILED tasks are skipped', rules=('R13.1',), edits=[
        (_TM, "                    if task.state in rps.FINAL:\n", "                    if task.state in [rps.DONE, rps.FAILED]:\n")],
         note='a CANCELED task still becomes FAILED'),
    dict(name='R13.1 binding compared with the wrong polarity in nested form',
         rules=('R13.1',), edits=[
        (_TM, _GUARDED,
              _HEAD + "                    if task.pilot != pid and task.state not in rps.FINAL:\n\n" + _UPD_NESTED)]),
    dict(name='R13.1 pilot-final test dropped', rules=('R13.1',), edits=[
        (_TM, "            if state in rps.FINAL:\n\n                self._log.debug('pilot %s is final', pid)",
              "            if state:\n\n                self._log.debug('pilot %s is final', pid)")]),
    dict(name='R13.1 pilot-final test inverted', rules=('R13.1',), edits=[
        (_TM, "            if state in rps.FINAL:\n\n                self._log.debug('pilot %s is final', pid)",
              "            if state not in rps.FINAL:\n\n                self._log.debug('pilot %s is final', pid)")]),
    dict(name='R13.1 only FAILED pilots take their tasks down', rules=('R13.1',), edits=[
        (_TM, "            if state in rps.FINAL:\n\n                self._log.debug('pilot %s is final', pid)",
              "            if state == rps.FAILED:\n\n                self._log.debug('pilot %s is final', pid)")],
         note='tasks of a CANCELED or DONE pilot wait forever'),
    dict(name='R13.1 explanation does not name the pilot', rules=('R13.1',), edits=[
        (_TM, "'exception_detail': 'pilot %s is final' % pid,", "'exception_detail': 'pilot is final',")]),
    dict(name='R13.2 callback not registered', rules=('R13.2',), edits=[
        (_TM, "                    pilot_dict = pilot.as_dict()\n                    pilot.register_callback(self._pilot_state_cb)\n",
              "                    pilot_dict = pilot.as_dict()\n")]),
    dict(name='R13.2 callback registered only for pilots that are not active yet',
         rules=('R13.2',), edits=[
        (_TM, "                    pilot.register_callback(self._pilot_state_cb)\n",
              "                    if pilot.state != rps.PMGR_ACTIVE:\n                        pilot.register_callback(self._pilot_state_cb)\n")]),
    dict(name='R13.2 callback registered for another metric', rules=('R13.2',), edits=[
        (_TM, "                    pilot.register_callback(self._pilot_state_cb)\n",
              "                    pilot.register_callback(self._pilot_state_cb,\n                                            metric=rpc.TASK_STATE)\n")]),
    dict(name='R13.2 registration after the loop, on the last pilot only',
         rules=('R13.2',), edits=[
        (_TM, "                    pilot.register_callback(self._pilot_state_cb)\n", ""),
        (_TM, "        # publish to the command channel for the scheduler to pick up\n        self.publish(rpc.CONTROL_PUBSUB, {'cmd' : 'add_pilots',",
              "        pilot.register_callback(self._pilot_state_cb)\n\n        # publish to the command channel for the scheduler to pick up\n        self.publish(rpc.CONTROL_PUBSUB, {'cmd' : 'add_pilots',")]),
    dict(name='R13.2 default metric of Pilot.register_callback changed',
         rules=('R13.2',), edits=[
        ('pilot.py', "    def register_callback(self, cb, metric=rpc.PILOT_STATE, cb_data=None):",
                     "    def register_callback(self, cb, metric=None, cb_data=None):")]),
    dict(name='R13.1 tasks in tmgr output staging are spared (value > AGENT_STAGING_OUTPUT)',
         rules=('R13.1',), edits=[
        (_TM, _NFT, "                    if rps._task_state_value(task.state) > \\\n                       rps._task_state_value(rps.AGENT_STAGING_OUTPUT):\n")]),
    dict(name='R13.1 tasks in TMGR_STAGING_OUTPUT are spared', rules=('R13.1',), edits=[
        (_TM, _NFT, "                    if rps._task_state_values[task.state] > \\\n                       rps._task_state_values[rps.TMGR_STAGING_OUTPUT_PENDING]:\n")]),
    dict(name='R13.1 value test that no state satisfies', rules=('R13.1',), edits=[
        (_TM, _NFT, "                    if rps._task_state_value(task.state) > \\\n                       rps._task_state_value(rps.DONE):\n")],
         note='final tasks are updated again'),
    dict(name='R13.1 tasks die with a pilot that merely became active',
         rules=('R13.1',), edits=[
        (_TM, "            if state in rps.FINAL:\n\n                self._log.debug('pilot %s is final', pid)",
              "            if rps._pilot_state_value(state) >= \\\n               rps._pilot_state_value(rps.PMGR_ACTIVE):\n\n                self._log.debug('pilot %s is final', pid)")]),
    dict(name='R13.1 filtering comprehension bound to a local lacks the binding test',
         rules=('R13.1',), edits=[
        (_TM, "                tasks = list()\n" + _HEAD + _CMT + _BIND + _NFIN,
              "                orphans = [task for task in self._tasks.values()\n"
              "                                if task.state not in rps.FINAL]\n\n"
              "                tasks  = list()\n"
              "                for task in orphans:\n\n")]),
    dict(name='R13.1 local predicate for filter() tests the binding with !=',
         rules=('R13.1',), edits=[
        (_TM, "                tasks = list()\n" + _HEAD + _CMT + _BIND + _NFIN,
              "                def _is_orphan(task, _pid=pid):\n"
              "                    return task.pilot != _pid and task.state not in rps.FINAL\n\n"
              "                tasks = list()\n"
              "                for task in filter(_is_orphan, self._tasks.values()):\n\n")]),
    dict(name='R13.1 update built as dict(reason, uid=..), binding test lost on the way',
         rules=('R13.1',), edits=[
        (_TM, "                tasks = list()\n" + _HEAD,
              "                reason = {'exception'       : 'RuntimeError(\"pilot died\")',\n"
              "                          'exception_detail': 'pilot %s is final' % pid,\n"
              "                          'state'           : rps.FAILED}\n\n"
              "                tasks = list()\n" + _HEAD),
        (_TM, _BIND, ""),
        (_TM, _UPD, "                    task._update(dict(reason, uid=task.uid))\n"
                    "                    tasks.append(task.as_dict())\n")]),
    dict(name='R13.1 merged guard joined with `and` instead of `or`',
         rules=('R13.1',), edits=[
        (_TM, _BIND + _NFIN,
              "                    if task.pilot != pid and task.state in rps.FINAL:\n                        continue\n\n")]),
]

SILENT = [
    # ---- R13.6: rewrites of the state write in Pilot._update
    dict(name='R13.6 state written only when it changes', edits=[
        (_PL, _ST, "        if target != current:\n            self._state = target\n\n")]),
    dict(name='R13.6 state written only when it changes, test hoisted and in else form', edits=[
        (_PL, _ST, "        unchanged = (current == target)\n        if unchanged:\n            pass\n        else:\n            self._state = target\n\n")]),
    dict(name='R13.6 state written after the details were merged, just before the callbacks', edits=[
        (_PL, _ST + _STOP, "        if target in rps.FINAL:\n            self._sub.stop()\n"),
        (_PL, _MERGE, _MERGE + "\n        self._state = target\n")]),
    dict(name='R13.6 locals renamed, the written value held by a second local', edits=[
        (_PL, "        target  = pilot_dict.get('state', self.state)\n", "        target  = pilot_dict.get('state', self.state)\n        new_state = target\n"),
        (_PL, _ST, "        self._state = new_state\n\n")]),
    dict(name='R13.6 state written through setattr with a literal name', edits=[
        (_PL, _ST, "        setattr(self, '_state', target)\n\n")],
         note='R14.7 does not model setattr: its verdict on Pilot._update is not taken over then'),
    dict(name='R13.6 state written in both arms of the final test', edits=[
        (_PL, _ST + _STOP, "        if target in rps.FINAL:\n            self._state = target\n            self._sub.stop()\n        else:\n            self._state = target\n")]),
    # ---- R13.7: rewrites of the copy loop in Task._update
    dict(name='R13.7 key collection hoisted into a tuple, guard in early-continue form, name by concatenation', edits=[
        (_TK, _KEYS + _COPY,
              "        keys = ('state', 'stdout', 'stderr', 'exit_code', 'return_value',\n"
              "                'endpoint_fs', 'resource_sandbox', 'session_sandbox',\n"
              "                'pilot', 'pilot_sandbox', 'task_sandbox', 'client_sandbox',\n"
              "                'exception', 'exception_detail', 'slots', 'partition',\n"
              "                'ofiles')\n\n"
              "        for name in keys:\n\n"
              "            new = task_dict.get(name)\n"
              "            if new is None:\n"
              "                continue\n"
              "            setattr(self, '_' + name, new)\n")]),
    dict(name='R13.7 binding and state copied by statements of their own, in front of the loop', edits=[
        (_TK, _KEYS,
              "        pid = task_dict.get('pilot')\n"
              "        if pid is not None:\n"
              "            self._pilot = pid\n\n"
              "        self._state = target\n\n"
              "        for key in ['stdout', 'stderr', 'exit_code', 'return_value',\n"
              "                    'endpoint_fs', 'resource_sandbox', 'session_sandbox',\n"
              "                    'pilot_sandbox', 'task_sandbox', 'client_sandbox',\n"
              "                    'exception', 'exception_detail', 'slots', 'partition',\n"
              "                    'ofiles']:\n\n")],
         note='`target` is task_dict[\'state\'] except for a task that stays CANCELED'),
    dict(name='R13.7 presence test on the notification, value read by subscript, f-string name', edits=[
        (_TK, _COPY,
              "            if key in task_dict and task_dict[key] is not None:\n"
              "                setattr(self, f'_{key}', task_dict[key])\n")]),
    dict(name='R13.7 copy loop extracted into a helper method', edits=[
        (_TK, _KEYS + _COPY,
              "        self._copy_fields(task_dict)\n"),
        (_TK, "    # --------------------------------------------------------------------------\n    #\n    def as_dict(self):\n        \"\"\"Returns a Python dictionary representation of the object.\"\"\"\n",
              "    # --------------------------------------------------------------------------\n    #\n"
              "    def _copy_fields(self, task_dict):\n\n"
              + _KEYS + _COPY +
              "\n\n    # --------------------------------------------------------------------------\n    #\n    def as_dict(self):\n        \"\"\"Returns a Python dictionary representation of the object.\"\"\"\n")]),
    # ---- R13.8 / R13.9: rewrites of the pilot manager's delivery (C14's sites)
    dict(name='R13.8 non-pilot things skipped with continue', edits=[
        (_PM, _THINGS,
              "        for thing in things:\n\n            if thing.get('type') != 'pilot':\n                continue\n\n"
              "            self._log.debug('state push: %s: %s', thing['uid'], thing['state'])\n"
              "            self._update_pilot(thing, publish=False)\n")]),
    dict(name='R13.8 pilot things filtered by a comprehension, then a plain loop', edits=[
        (_PM, _THINGS,
              "        pilots = [t for t in things if t.get('type') == 'pilot']\n        for thing in pilots:\n            self._update_pilot(thing, publish=False)\n")]),
    dict(name='R13.8 termination checked per thing after the update', edits=[
        (_PM, _UPP, _UPP + "                if self._terminate.is_set():\n                    return False\n")]),
    dict(name='R13.9 truncation in negated / else form with an explicit index', edits=[
        (_PM, _TRUNC, "            if target not in [rps.CANCELED, rps.FAILED]:\n                pass\n            else:\n                passed = passed[len(passed) - 1:]\n")]),
    dict(name='R13.9 truncation as two equality tests, last element rebuilt if there is one', edits=[
        (_PM, _TRUNC, "            if target == rps.FAILED or target == rps.CANCELED:\n                if passed:\n                    passed = [passed[-1]]\n")]),
    dict(name='R13.9 truncation test with hoisted container, truncated list under a new name', edits=[
        (_PM, _TRUNC + "\n            for s in passed:\n",
              "            abnormal = (rps.FAILED, rps.CANCELED)\n            replay   = passed\n            if target in abnormal:\n                replay = passed[-1:]\n\n            for s in replay:\n")]),
    dict(name='non-final test by value: >= value(DONE)', edits=[
        (_TM, _NFT, "                    if rps._task_state_value(task.state) >= \\\n                       rps._task_state_value(rps.DONE):\n")]),
    dict(name='non-final test by value table equality', edits=[
        (_TM, _NFT, "                    if rps._task_state_values[task.state] == \\\n                       rps._task_state_values[rps.FAILED]:\n")]),
    dict(name='non-final test split in two partial tests', edits=[
        (_TM, _NFIN, "                    if task.state in [rps.DONE, rps.FAILED]:\n                        continue\n\n                    if task.state == rps.CANCELED:\n                        continue\n\n")]),
    dict(name='pilot-final test by value: beyond PMGR_ACTIVE', edits=[
        (_TM, "            if state in rps.FINAL:\n\n                self._log.debug('pilot %s is final', pid)",
              "            if rps._pilot_state_value(state) > \\\n               rps._pilot_state_value(rps.PMGR_ACTIVE):\n\n                self._log.debug('pilot %s is final', pid)")]),
    dict(name='guards as one combined early continue', edits=[
        (_TM, _BIND + _NFIN,
              "                    if task.pilot != pid or task.state in rps.FINAL:\n                        continue\n\n")]),
    dict(name='guards in nested if form, operands swapped', edits=[
        (_TM, _GUARDED,
              _HEAD + "                    if pid == task.pilot and task.state not in rps.FINAL:\n\n" + _UPD_NESTED)]),
    dict(name='guards as a filtering comprehension used as the iterable', edits=[
        (_TM, _HEAD + _CMT + _BIND + _NFIN,
              "                for task in [t for t in self._tasks.values()\n"
              "                                     if  t.pilot == pid\n"
              "                                     and t.state not in rps.FINAL]:\n\n")]),
    dict(name='non-final test before the binding test', edits=[
        (_TM, _BIND + _NFIN, _NFIN + _BIND)]),
    dict(name='pilot-final test in early-continue form, uid read directly', edits=[
        (_TM, "            if state in rps.FINAL:\n\n                self._log.debug('pilot %s is final', pid)\n",
              "            if pilot.state not in rps.FINAL:\n                continue\n\n            if True:\n\n                self._log.debug('pilot %s is final', pid)\n")]),
    dict(name='locals renamed', edits=[
        (_TM, "            pid   = pilot.uid\n            state = pilot.state\n\n            if state in rps.FINAL:\n\n                self._log.debug('pilot %s is final', pid)",
              "            puid  = pilot.uid\n            pid   = puid\n            state = pilot.state\n\n            if state in rps.FINAL:\n\n                self._log.debug('pilot %s is final', puid)"),
        (_TM, "'exception_detail': 'pilot %s is final' % pid,", "'exception_detail': 'pilot %s is final' % puid,")]),
    dict(name='registration before attach_tmgr, explicit metric', edits=[
        (_TM, "                    pilot.attach_tmgr(self)\n\n                    pilot_dict = pilot.as_dict()\n                    pilot.register_callback(self._pilot_state_cb)\n",
              "                    pilot.register_callback(self._pilot_state_cb,\n                                            metric=rpc.PILOT_STATE)\n                    pilot.attach_tmgr(self)\n\n                    pilot_dict = pilot.as_dict()\n")]),
    dict(name='dict test written as early continue for dicts', edits=[
        (_TM, "                if isinstance(pilot, dict):\n                    pilot_dict = pilot\n\n                else:\n",
              "                if isinstance(pilot, dict):\n                    pilot_dict = pilot\n\n                if not isinstance(pilot, dict):\n")]),
    dict(name='corpus r2: guards as a comprehension bound to a local, plain loop', edits=[
        (_TM, "                tasks = list()\n" + _HEAD + _CMT + _BIND + _NFIN,
              "                orphans = [task for task in self._tasks.values()\n"
              "                                if  task.pilot == pid\n"
              "                                and task.state not in rps.FINAL]\n\n"
              "                detail = 'pilot %s is final' % pid\n"
              "                tasks  = list()\n"
              "                for task in orphans:\n\n"),
        (_TM, "'exception_detail': 'pilot %s is final' % pid,", "'exception_detail': detail,")]),
    dict(name='corpus r3: merged `or` guard, FINAL cached in a local, dict inline', edits=[
        (_TM, "        for pilot in pilots:\n\n            pid   = pilot.uid\n            state = pilot.state\n\n            if state in rps.FINAL:\n",
              "        final = rps.FINAL\n        known = self._tasks\n\n        for pilot in pilots:\n\n            pid    = pilot.uid\n            pstate = pilot.state\n\n            if pstate in final:\n"),
        (_TM, _GUARDED,
              "                for task in known.values():\n\n"
              "                    if task.pilot != pid or task.state in final:\n"
              "                        continue\n\n"
              "                    task._update({'uid'             : task.uid,\n"
              "                                  'exception'       : 'RuntimeError(\"pilot died\")',\n"
              "                                  'exception_detail': 'pilot %s is final' % pid,\n"
              "                                  'state'           : rps.FAILED})\n"
              "                    tasks.append(task.as_dict())\n")]),
    dict(name='corpus r4: guards as a local predicate used through filter()', edits=[
        (_TM, "                tasks = list()\n" + _HEAD + _CMT + _BIND + _NFIN,
              "                def _is_orphan(task, _pid=pid):\n"
              "                    return task.pilot == _pid and task.state not in rps.FINAL\n\n"
              "                tasks = list()\n"
              "                for task in filter(_is_orphan, self._tasks.values()):\n\n")]),
    dict(name='corpus r7: constant part of the update built once per pilot, per-task copy dict(reason, uid=..)', edits=[
        (_TM, "                tasks = list()\n" + _HEAD,
              "                reason = {'exception'       : 'RuntimeError(\"pilot died\")',\n"
              "                          'exception_detail': 'pilot %s is final' % pid,\n"
              "                          'state'           : rps.FAILED}\n\n"
              "                tasks = list()\n" + _HEAD),
        (_TM, _UPD, "                    task._update(dict(reason, uid=task.uid))\n"
                    "                    tasks.append(task.as_dict())\n")]),
    dict(name='guards as a lambda passed to filter()', edits=[
        (_TM, _HEAD + _CMT + _BIND + _NFIN,
              "                for task in filter(lambda t: t.pilot == pid and\n"
              "                                   not t.state in rps.FINAL,\n"
              "                                   self._tasks.values()):\n\n")]),
    dict(name='R13.2 dict test held by a local assigned once', edits=[
        (_TM, "                if isinstance(pilot, dict):\n                    pilot_dict = pilot\n\n                else:\n",
              "                is_dict = isinstance(pilot, dict)\n                if is_dict:\n                    pilot_dict = pilot\n\n                else:\n")]),
    # ---- R13.3: membership tests which do not decide whether tasks are failed
    dict(name='R13.3 removed pilot only logged, tasks failed all the same', edits=[
        (_TM, _PFIN, "            with self._pilots_lock:\n"
                     "                if pid not in self._pilots:\n"
                     "                    self._log.debug('pilot %s was removed, still fail its tasks', pid)\n\n" + _PFIN)]),
    dict(name='R13.3 membership computed under the lock and logged', edits=[
        (_TM, _PFIN, "            with self._pilots_lock:\n"
                     "                known = pid in self._pilots\n"
                     "            self._log.debug('pilot %s known: %s', pid, known)\n\n" + _PFIN)]),
    dict(name='R13.3 membership picks the log level in both branches', edits=[
        (_TM, _PFIN, "            if self._pilots.get(pid) is None:\n"
                     "                self._log.warn('removed pilot %s changed state', pid)\n"
                     "            else:\n"
                     "                self._log.debug('pilot %s changed state', pid)\n\n" + _PFIN)]),
    dict(name='R13.3 tasks snapshot taken under the tasks lock', edits=[
        (_TM, "                tasks = list()\n" + _HEAD,
              "                with self._tasks_lock:\n"
              "                    todo = list(self._tasks.values())\n\n"
              "                tasks = list()\n"
              "                for task in todo:\n\n")]),
    # ---- R13.5: rewrites of remove_pilots / of the registry which leave the
    #      callback on the pilot
    dict(name='R13.5 remove_pilots pops the entry and logs what it removed', edits=[
        (_TM, _RM, "                gone = self._pilots.pop(pid)\n"
                   "                self._log.debug('removed pilot %s (%s)', pid, type(gone).__name__)\n")]),
    dict(name='R13.5 removal extracted into a helper that only forgets the pilot', edits=[
        (_TM, "                if pid not in self._pilots:\n"
              "                    raise ValueError('pilot %s not removed' % pid)\n" + _RM,
              "                self._forget_pilot(pid)\n"),
        (_TM, "    # --------------------------------------------------------------------------\n    #\n    def list_pilots(self):\n",
              "    # --------------------------------------------------------------------------\n    #\n"
              "    def _forget_pilot(self, pid):\n\n"
              "        if pid not in self._pilots:\n"
              "            raise ValueError('pilot %s not removed' % pid)\n"
              "        del self._pilots[pid]\n\n\n"
              "    # --------------------------------------------------------------------------\n    #\n    def list_pilots(self):\n")]),
    dict(name='R13.5 Pilot.unregister_callback: table aliased, entries popped', edits=[
        (_PL, _UNREG_OLD,
              "                cbs = self._callbacks[metric]\n"
              "                to_delete = [id(cb)] if cb else list(cbs.keys())\n\n"
              "                for cb_id in to_delete:\n\n"
              "                    if cb_id not in cbs:\n"
              "                        raise ValueError(\"unknown callback '%s'\" % cb_id)\n\n"
              "                    cbs.pop(cb_id)\n")]),
    dict(name='R13.5 unregistration by identity never finds the bound method: nothing is removed', edits=[
        (_TM, _RM, "                try:\n"
                   "                    self._pilots[pid].unregister_callback(self._pilot_state_cb)\n"
                   "                except (ValueError, AttributeError):\n"
                   "                    pass\n" + _RM)],
         note='Pilot.unregister_callback as it is looks up id(cb); `self._pilot_state_cb` is a new '
              'bound method object at every evaluation, so the lookup raises ValueError and the '
              'callback stays registered'),
    dict(name='R13.5 remove_pilots unregisters a callback for another metric', edits=[
        (_PL, _UNREG_OLD, _UNREG_EQ),
        (_TM, _RM, "                if not isinstance(self._pilots[pid], dict):\n"
                   "                    try:\n"
                   "                        self._pilots[pid].unregister_callback(None, metric='NOT_A_PILOT_METRIC')\n"
                   "                    except ValueError:\n"
                   "                        pass\n" + _RM)],
         note='the call is about another metric table (and is refused by the pilot): the state callback stays'),
    dict(name='R13.5 close takes the callback off the pilots (the manager is gone after close)', edits=[
        (_PL, _UNREG_OLD, _UNREG_EQ),
        (_TM, "        self._cmgr.close()\n\n        self._log.info(\"Closed TaskManager %s.\" % self._uid)\n",
              "        self._cmgr.close()\n\n"
              "        with self._pilots_lock:\n"
              "            for pilot in self._pilots.values():\n"
              "                if not isinstance(pilot, dict):\n"
              "                    pilot.unregister_callback(self._pilot_state_cb)\n\n"
              "        self._log.info(\"Closed TaskManager %s.\" % self._uid)\n")],
         note='exempt by the rule: a closed manager reports nothing anymore'),
    # ---- R13.4: rewrites of the dispatch in Pilot._update
    dict(name='R13.4 dispatch over .values() with one call site, locals renamed', edits=[
        (_PL, _CBS + _PMGR,
              "        with self._cb_lock:\n"
              "            for entry in self._callbacks[rpc.PILOT_STATE].values():\n\n"
              "                func = entry['cb']\n"
              "                args = [[self]]\n"
              "                if entry['cb_data']:\n"
              "                    args.append(entry['cb_data'])\n\n"
              "                self._log.debug('%s calls cb %s', self.uid, func)\n"
              "                func(*args)\n\n" + _PMGR)]),
    dict(name='R13.4 pmgr callbacks after the loop, outside the lock', edits=[
        (_PL, _PMGR, "        # ask pmgr to invoke any global callbacks\n"
                     "        self._pmgr._call_pilot_callbacks(self)\n")]),
    dict(name='R13.4 callbacks snapshot under the lock, invoked outside of it', edits=[
        (_PL, _CBS + _PMGR,
              "        with self._cb_lock:\n"
              "            todo = list(self._callbacks[rpc.PILOT_STATE].values())\n\n"
              "        for cb_val in todo:\n\n"
              "            cb      = cb_val['cb']\n"
              "            cb_data = cb_val['cb_data']\n\n"
              "            if cb_data: cb([self], cb_data)\n"
              "            else      : cb([self])\n\n"
              "        pmgr = self._pmgr\n"
              "        pmgr._call_pilot_callbacks(self)\n")]),
    dict(name='R13.4 pmgr callbacks first but isolated by try/except', edits=[
        (_PL, _PMGR, ""),
        (_PL, _WITH, "        try:\n"
                     "            self._pmgr._call_pilot_callbacks(self)\n"
                     "        except Exception:\n"
                     "            self._log.exception('pmgr callback failed')\n\n" + _WITH)],
         note='order changes, but a raising application callback cannot keep the tmgr callback from running'),
    dict(name='R13.4 dispatch extracted into a helper method', edits=[
        (_PL, _CBS + _PMGR,
              "        self._call_callbacks()\n\n\n"
              "    # --------------------------------------------------------------------------\n"
              "    #\n"
              "    def _call_callbacks(self):\n\n"
              + _CBS + _PMGR)]),
    dict(name='R13.4 bound logger method cached in a local before the dispatch', edits=[
        (_PL, _WITH, "        debug = self._log.debug\n"
                     "        debug('%s invokes callbacks', self.uid)\n\n" + _WITH)]),
]


# ------------------------------------------------------------------------------
# round 5: R13.10 (bulk isolation, C06 R06.4), R13.11 (keys of the update),
# R13.12 (every registered callback is invoked), R13.8 extended (a task thing
# does not end the pilot manager's loop)
#
_HANDLER = ("                except Exception:\n"
            "                    # a contradicting or invalid update for one task must not\n"
            "                    # prevent the updates of the other tasks in this bulk\n"
            "                    self._log.exception('tmgr: invalid state update: %s', uid)\n"
            "                    continue\n")
_AFTER = ("\n                task_dict['state'] = self._tasks[uid].state\n"
          "                ru.dict_merge(self._task_info[uid], task_dict, ru.OVERWRITE)\n")
_REPLAY = ("                try:\n"
           "                    target, passed = rps._task_state_progress(uid, current,\n"
           "                                                              target)\n\n"
           "                    if target in [rps.CANCELED, rps.FAILED]:\n"
           "                        # don't replay intermediate states\n"
           "                        passed = passed[-1:]\n\n"
           "                    for s in passed:\n\n"
           "                        task_dict['state'] = s\n"
           "                        self._tasks[uid]._update(task_dict)\n\n"
           "                        to_notify.append([task, s])\n\n")
_CALLS = ("                if cb_data: cb([self], cb_data)\n"
          "                else      : cb([self])\n\n")
_DETAIL = "'exception_detail': 'pilot %s is final' % pid,"
_PTEST = "            if 'type' in thing and thing['type'] == 'pilot':\n"
_ASSERT = "        assert task_dict['uid'] == self.uid, 'update called on wrong instance'\n\n        # this method relies on state updates to arrive in order\n"

MUTATIONS += [
    dict(name='R13.10 seed C13-h2: the per-task handler of _update_tasks narrowed to RuntimeError',
         rules=('R13.10',), edits=[
        (_TM, "                except Exception:\n                    # a contradicting", "                except RuntimeError:\n                    # a contradicting")],
         note='the ValueError of a contradicting final state aborts the bulk: the binding of the next task is lost'),
    dict(name='R13.10 the handler catches only the ValueError of _task_state_progress',
         rules=('R13.10',), edits=[
        (_TM, "                except Exception:\n                    # a contradicting", "                except ValueError:\n                    # a contradicting")],
         note='the RuntimeError of Task._update (invalid step) aborts the bulk'),
    dict(name='R13.10 the handler ends the loop over the bulk', rules=('R13.10',), edits=[
        (_TM, _HANDLER, _HANDLER.replace('continue', 'break'))]),
    dict(name='R13.11 seed C13-h6: explanation handed over as exception_details',
         rules=('R13.11',), edits=[
        (_TM, _DETAIL, "'exception_details': 'pilot %s is final' % pid,")]),
    dict(name='R13.11 explanation key with changed case', rules=('R13.11',), edits=[
        (_TM, _DETAIL, "'Exception_detail': 'pilot %s is final' % pid,")]),
    dict(name='R13.11 consumer side: Task._update copies exception_details',
         rules=('R13.11',), edits=[
        (_TK, "                    'exception', 'exception_detail', 'slots', 'partition',",
              "                    'exception', 'exception_details', 'slots', 'partition',")],
         note='the same disagreement made at the other end: self._exception_detail is never written'),
    dict(name='R13.11 the uid of the task handed over as id', rules=('R13.11',), edits=[
        (_TM, "                    update = {'uid'             : task.uid,", "                    update = {'id'              : task.uid,")],
         note='Task._update reads task_dict[\'uid\']: KeyError inside the callback'),
    dict(name='R13.12 seed C13-h3: the invocation dedented out of the loop over the callbacks',
         rules=('R13.12',), edits=[
        (_PL, _CALLS, "            if cb_data: cb([self], cb_data)\n"
                      "            else      : cb([self])\n\n")]),
    dict(name='R13.12 callbacks registered without data are not invoked (else arm lost)',
         rules=('R13.12',), edits=[
        (_PL, _CALLS, "                if cb_data: cb([self], cb_data)\n\n")]),
    dict(name='R13.12 the loop is left after the first callback', rules=('R13.12',), edits=[
        (_PL, _CALLS, _CALLS + "                break\n\n")]),
    dict(name='R13.12 only the callback registered last is looked at', rules=('R13.12',), edits=[
        (_PL, "            for _,cb_val in self._callbacks[rpc.PILOT_STATE].items():\n",
              "            for _,cb_val in list(self._callbacks[rpc.PILOT_STATE].items())[-1:]:\n")]),
    dict(name='R13.12 the loop skips the callback registered first', rules=('R13.12',), edits=[
        (_PL, "            for _,cb_val in self._callbacks[rpc.PILOT_STATE].items():\n",
              "            for cb_val in list(self._callbacks[rpc.PILOT_STATE].values())[1:]:\n")]),
    dict(name='R13.8 seed C13-h4: a task thing makes the pilot manager return from the loop',
         rules=('R13.8',), edits=[
        (_PM, "        for thing in things:\n\n" + _PTEST,
              "        for thing in things:\n\n"
              "            if thing.get('type') == 'task':\n"
              "                # task updates are handled by the tmgr\n"
              "                return True\n\n" + _PTEST)]),
    dict(name='R13.8 anything that is no pilot ends the loop (break)', rules=('R13.8',), edits=[
        (_PM, "        for thing in things:\n\n" + _PTEST,
              "        for thing in things:\n\n"
              "            if thing['type'] != 'pilot':\n"
              "                break\n\n" + _PTEST)]),
    dict(name='R13.8 the else arm of the pilot test returns', rules=('R13.8',), edits=[
        (_PM, _UPP, _UPP + "\n            else:\n                return True\n")]),
    dict(name='R13.8 task test held by a local, break', rules=('R13.8',), edits=[
        (_PM, "        for thing in things:\n\n" + _PTEST,
              "        for thing in things:\n\n"
              "            is_task = thing.get('type') == 'task'\n"
              "            if is_task:\n"
              "                break\n\n" + _PTEST)]),
]

SILENT += [
    # ---- R13.10: rewrites of the per-task handler in _update_tasks
    dict(name='R13.10 handler binds the exception and logs it', edits=[
        (_TM, _HANDLER, "                except Exception as exc:\n"
                        "                    self._log.exception('tmgr: invalid state update: %s: %s', uid, exc)\n"
                        "                    continue\n")]),
    dict(name='R13.10 try / except / else: the bookkeeping moved into the else arm', edits=[
        (_TM, _HANDLER + _AFTER,
              _HANDLER.replace("                    continue\n", "") +
              "\n                else:\n"
              "                    task_dict['state'] = self._tasks[uid].state\n"
              "                    ru.dict_merge(self._task_info[uid], task_dict, ru.OVERWRITE)\n")]),
    dict(name='R13.10 replay extracted into a method, called inside the try', edits=[
        (_TM, _REPLAY, "                try:\n"
                       "                    self._replay_states(task, uid, current, target,\n"
                       "                                        task_dict, to_notify)\n\n"),
        (_TM, "    # --------------------------------------------------------------------------\n    #\n    def _task_cb(self, task, state):\n",
              "    # --------------------------------------------------------------------------\n    #\n"
              "    def _replay_states(self, task, uid, current, target, task_dict, to_notify):\n\n"
              "        target, passed = rps._task_state_progress(uid, current, target)\n\n"
              "        if target in [rps.CANCELED, rps.FAILED]:\n"
              "            passed = passed[-1:]\n\n"
              "        for s in passed:\n"
              "            task_dict['state'] = s\n"
              "            self._tasks[uid]._update(task_dict)\n"
              "            to_notify.append([task, s])\n\n\n"
              "    # --------------------------------------------------------------------------\n    #\n    def _task_cb(self, task, state):\n")]),
    # ---- R13.11: rewrites of the update dict and of what Task._update reads
    dict(name='R13.11 update built by dict() with keywords, explanation as f-string', edits=[
        (_TM, "                    update = {'uid'             : task.uid,\n"
              "                              'exception'       : 'RuntimeError(\"pilot died\")',\n"
              "                              'exception_detail': 'pilot %s is final' % pid,\n"
              "                              'state'           : rps.FAILED}\n",
              "                    update = dict(uid=task.uid,\n"
              "                                  exception='RuntimeError(\"pilot died\")',\n"
              "                                  exception_detail=f'pilot {pid} is final',\n"
              "                                  state=rps.FAILED)\n")]),
    dict(name='R13.11 explanation hoisted in front of the task loop, entries reordered', edits=[
        (_TM, "                tasks = list()\n" + _HEAD, "                why   = 'pilot %s is final' % pid\n                tasks = list()\n" + _HEAD),
        (_TM, "                    update = {'uid'             : task.uid,\n"
              "                              'exception'       : 'RuntimeError(\"pilot died\")',\n"
              "                              'exception_detail': 'pilot %s is final' % pid,\n"
              "                              'state'           : rps.FAILED}\n",
              "                    update = {'state'           : rps.FAILED,\n"
              "                              'exception_detail': why,\n"
              "                              'exception'       : 'RuntimeError(\"pilot died\")',\n"
              "                              'uid'             : task.uid}\n")]),
    dict(name='R13.11 Task._update reads the uid into a local and raises itself', edits=[
        (_TK, _ASSERT,
              "        uid = task_dict['uid']\n"
              "        if uid != self.uid:\n"
              "            raise AssertionError('update called on wrong instance')\n\n"
              "        # this method relies on state updates to arrive in order\n")]),
    dict(name='R13.11 the pilot is named in both entries', edits=[
        (_TM, "'exception'       : 'RuntimeError(\"pilot died\")',", "'exception'       : 'RuntimeError(\"pilot %s died\")' % pid,")],
         note='not the same text, but the explanation still names the pilot under keys Task._update copies'),
    # ---- R13.12: rewrites of the dispatch loop in Pilot._update
    dict(name='R13.12 invocation with data in early-continue form', edits=[
        (_PL, _CALLS, "                if cb_data:\n"
                      "                    cb([self], cb_data)\n"
                      "                    continue\n\n"
                      "                cb([self])\n\n")]),
    dict(name='R13.12 loop over a snapshot of the keys, entry looked up per key', edits=[
        (_PL, "            for _,cb_val in self._callbacks[rpc.PILOT_STATE].items():\n\n",
              "            for cb_id in list(self._callbacks[rpc.PILOT_STATE]):\n\n"
              "                cb_val  = self._callbacks[rpc.PILOT_STATE][cb_id]\n")]),
    dict(name='R13.12 argument tuple chosen by a conditional expression, one call', edits=[
        (_PL, _CALLS, "                args = ([self], cb_data) if cb_data else ([self],)\n"
                      "                cb(*args)\n\n")]),
    dict(name='R13.12 invocation extracted into a helper method of the pilot', edits=[
        (_PL, _CALLS, "                self._invoke_cb(cb, cb_data)\n\n"),
        (_PL, "    # --------------------------------------------------------------------------\n    #\n    def as_dict(self):\n        \"\"\"Dictionary representation.\n",
              "    # --------------------------------------------------------------------------\n    #\n"
              "    def _invoke_cb(self, cb, cb_data):\n\n"
              "        if cb_data: cb([self], cb_data)\n"
              "        else      : cb([self])\n\n\n"
              "    # --------------------------------------------------------------------------\n    #\n    def as_dict(self):\n        \"\"\"Dictionary representation.\n")]),
    dict(name='R13.12 whole registry table copied before the loop (trivial slice of the items)', edits=[
        (_PL, "            for _,cb_val in self._callbacks[rpc.PILOT_STATE].items():\n",
              "            for _,cb_val in list(self._callbacks[rpc.PILOT_STATE].items())[:]:\n")]),
    # ---- R13.8: task things in the pilot manager's loop
    dict(name='R13.8 task things skipped by an explicit continue (what the fast path meant)', edits=[
        (_PM, "        for thing in things:\n\n" + _PTEST,
              "        for thing in things:\n\n"
              "            if thing.get('type') == 'task':\n"
              "                # task updates are handled by the tmgr\n"
              "                continue\n\n" + _PTEST)]),
    dict(name='R13.8 type read into a local, non-pilots logged and skipped', edits=[
        (_PM, "        for thing in things:\n\n" + _PTEST,
              "        for thing in things:\n\n"
              "            kind = thing.get('type')\n"
              "            if kind != 'pilot':\n"
              "                self._log.debug('pmgr ignores %s update', kind)\n"
              "                continue\n\n" + _PTEST)]),
    dict(name='R13.8 the kinds that are not for the pilot manager listed, skipped with continue', edits=[
        (_PM, "        for thing in things:\n\n" + _PTEST,
              "        for thing in things:\n\n"
              "            if thing.get('type') in ['task', 'service']:\n"
              "                continue\n\n" + _PTEST)]),
]

# ---- round 6: R13.6 decided per pair of states, R13.13 the registry key
_REGKEY = "            cb_id = id(cb)\n"
_REGSTORE = ("            cb_id = id(cb)\n"
             "            self._callbacks[metric][cb_id] = {'cb'      : cb,\n"
             "                                              'cb_data' : cb_data}\n")
_UNREGKEY = "                    to_delete = [id(cb)]\n"

MUTATIONS += [
    dict(name='R13.6 seed C13-i2: the state write indented into the block that validates the transition',
         rules=('R13.6',), edits=[
        (_PL, _ST, "            self._state = target\n\n")],
         note='FAILED / CANCELED skip the block: the callbacks see the previous state'),
    dict(name='R13.6 final states left out: the write guarded by `target not in rps.FINAL`',
         rules=('R13.6',), edits=[
        (_PL, _ST, "        if target not in rps.FINAL:\n            self._state = target\n\n")]),
    dict(name='R13.6 FAILED / CANCELED take a fast path around the write (pass / else form)',
         rules=('R13.6',), edits=[
        (_PL, _ST, "        if target in [rps.FAILED, rps.CANCELED]:\n            pass\n        else:\n            self._state = target\n\n")]),
    dict(name='R13.6 the state is written for a single step forward only',
         rules=('R13.6',), edits=[
        (_PL, _ST, "        if rps._pilot_state_value(target) - rps._pilot_state_value(current) == 1:\n            self._state = target\n\n")],
         note='a pilot that fails while launching jumps more than one step'),
    dict(name='R13.13 seed C13-i6: registry keyed by the name of the callable in register / unregister',
         rules=('R13.13',), edits=[
        (_PL, _REGKEY, "            cb_id = getattr(cb, '__name__', id(cb))\n"),
        (_PL, _UNREGKEY, "                    to_delete = [getattr(cb, '__name__', id(cb))]\n")]),
    dict(name='R13.13 keyed by cb.__name__, inline', rules=('R13.13',), edits=[
        (_PL, _REGSTORE, "            self._callbacks[metric][cb.__name__] = {'cb'      : cb,\n"
                         "                                              'cb_data' : cb_data}\n")]),
    dict(name='R13.13 keyed by the qualified name, id() as fallback of an `or`', rules=('R13.13',), edits=[
        (_PL, _REGKEY, "            cb_id = getattr(cb, '__qualname__', None) or id(cb)\n")]),
    dict(name='R13.13 keyed by the id() of the function behind the bound method', rules=('R13.13',), edits=[
        (_PL, _REGKEY, "            cb_id = id(getattr(cb, '__func__', cb))\n")],
         note='stable over attribute accesses - and the same for every TaskManager'),
    dict(name='R13.13 one callback per metric: keyed by the metric', rules=('R13.13',), edits=[
        (_PL, _REGKEY, "            cb_id = metric\n")]),
]

SILENT += [
    # ---- R13.6: the write on some paths only, decided per pair of states
    dict(name='R13.6 write skipped where the rank of the state is unchanged and the state is not final (test hoisted)', edits=[
        (_PL, _ST, "        same_rank = rps._pilot_state_value(target) == rps._pilot_state_value(current)\n"
                   "        if not same_rank or target in rps.FINAL:\n"
                   "            self._state = target\n\n")],
         note='non-final states have different ranks: skipped only where nothing changes'),
    dict(name='R13.6 one write per kind of target, DONE written as a literal', edits=[
        (_PL, _ST, "        if target in [rps.FAILED, rps.CANCELED]:\n"
                   "            self._state = target\n"
                   "        elif target == rps.DONE:\n"
                   "            self._state = rps.DONE\n"
                   "        else:\n"
                   "            self._state = target\n\n")]),
    dict(name='R13.6 final states always written, others when they differ', edits=[
        (_PL, _ST, "        is_final = target in rps.FINAL\n"
                   "        if is_final or target != current:\n"
                   "            self._state = target\n\n")]),
    dict(name='R13.6 write skipped only for a non-final state of the same rank, early-pass form', edits=[
        (_PL, _ST, "        if target not in rps.FINAL and \\\n"
                   "           rps._pilot_state_value(target) == rps._pilot_state_value(current):\n"
                   "            pass\n"
                   "        else:\n"
                   "            self._state = target\n\n")]),
    # ---- R13.13: rewrites of the store in Pilot.register_callback
    dict(name='R13.13 key inline, no local', edits=[
        (_PL, _REGSTORE, "            self._callbacks[metric][id(cb)] = {'cb'      : cb,\n"
                         "                                               'cb_data' : cb_data}\n")]),
    dict(name='R13.13 local renamed, entry built first and stored through a second local', edits=[
        (_PL, _REGSTORE, "            entry  = {'cb': cb, 'cb_data': cb_data}\n"
                         "            handle = id(cb)\n"
                         "            key    = handle\n"
                         "            self._callbacks[metric][key] = entry\n")]),
    dict(name='R13.13 keyed by the callable itself at both ends', edits=[
        (_PL, _REGSTORE, "            self._callbacks[metric][cb] = {'cb'      : cb,\n"
                         "                                           'cb_data' : cb_data}\n"),
        (_PL, _UNREGKEY, "                    to_delete = [cb]\n")],
         note='equal bound methods are the same callback: one entry per callable'),
    dict(name='R13.13 key is the pair (metric, id of the callable) at both ends', edits=[
        (_PL, _REGKEY, "            cb_id = (metric, id(cb))\n"),
        (_PL, _UNREGKEY, "                    to_delete = [(metric, id(cb))]\n")]),
]
