"""C12  Each task is bound to exactly one eligible pilot  (DESIGN 5 / C12)

Anchors: tmgr/scheduler/base.py TMGRSchedulingComponent (control_cb, work,
_assign_pilot), round_robin.py RoundRobin, backfilling.py Backfilling.
"""

import ast
import copy

from ..model import (walk, dotted, call_name, kwarg, unparse, short, UNKNOWN,
                     root_name, AnalysisError, calls_in, stores_in_target)
from ..cfg import cfg_of
from ..flow import Deps, guards, loop_slice, Exploration, const_compare
from .. import idioms as I

BASE = ('tmgr/scheduler/base.py', 'TMGRSchedulingComponent')
RR   = ('tmgr/scheduler/round_robin.py', 'RoundRobin')
BF   = ('tmgr/scheduler/backfilling.py', 'Backfilling')

POOLS = ('_wait_pool', '_early')          # persistent pools of waiting tasks
EMPTY = ('list', 'dict', 'set')


# ------------------------------------------------------------------------------
# helpers
#
def stores_of(node):
    a = node.ast
    if a is None:
        return []
    if node.kind == 'for':
        return stores_in_target(a.target)
    if node.kind != 'stmt':
        return []
    out = []
    if isinstance(a, ast.Assign):
        for t in a.targets:
            out += stores_in_target(t)
    elif isinstance(a, (ast.AugAssign, ast.AnnAssign)):
        out += stores_in_target(a.target)
    return out


def nsucc(g, nid):
    return [e.dst for e in g.succ[nid] if e.label != 'exc']


def defs_reaching(g, name, target):
    """(definition nodes of `name` reaching cfg node `target`, undefined on
    some path)"""
    defs = [n for n in g.nodes if name in stores_of(n)]
    out = []
    for d in defs:
        others = {o.id for o in defs if o is not d}
        r = g.reachable(nsucc(g, d.id), skip_nodes=others - {target})
        if target in r:
            out.append(d)
    r = g.reachable(g.entry.id, skip_nodes={d.id for d in defs} - {target})
    return out, target in r


def reach_noeffect(g, starts, via):
    """nodes reachable from `starts` on paths on which no node of `via` takes
    effect (a via node may still be left through its exception edge)"""
    via = set(via)
    seen = set()
    todo = list(starts)
    while todo:
        n = todo.pop()
        if n in seen:
            continue
        seen.add(n)
        for e in g.succ[n]:
            if n in via and e.label != 'exc':
                continue
            todo.append(e.dst)
    return seen


def iter_start(g, head):
    return loop_slice(g, head)[0]


def enclosing_for(g, node, name):
    for h in reversed(node.loops):
        hn = g.nodes[h]
        if hn.kind == 'for' and name in stores_in_target(hn.ast.target):
            return hn
    return None


def is_empty_ctor(v):
    if isinstance(v, (ast.List, ast.Dict, ast.Set, ast.Tuple)):
        return not (getattr(v, 'elts', None) or getattr(v, 'keys', None))
    return isinstance(v, ast.Call) and dotted(v.func) in EMPTY and \
        not v.args and not v.keywords


def is_self_attr(e, attr=None):
    return isinstance(e, ast.Attribute) and isinstance(e.value, ast.Name) and \
        e.value.id == 'self' and (attr is None or e.attr == attr)


def resolve_local(g, expr, at, depth=3):
    """copy of expr in which local names with exactly one reaching simple
    assignment are replaced by the assigned expression"""
    class T(ast.NodeTransformer):
        def visit_Name(self, n):
            if not isinstance(n.ctx, ast.Load) or depth <= 0:
                return n
            defs, undef = defs_reaching(g, n.id, at)
            if undef or len(defs) != 1:
                return n
            d = defs[0]
            if d.kind == 'stmt' and isinstance(d.ast, ast.Assign) and \
                    len(d.ast.targets) == 1 and \
                    isinstance(d.ast.targets[0], ast.Name) and \
                    (I.is_path(d.ast.value) or
                     isinstance(d.ast.value, ast.BinOp) or
                     isinstance(d.ast.value, ast.Call) and
                     dotted(d.ast.value.func).endswith('_state_value')):
                return resolve_local(g, d.ast.value, d.id, depth - 1)
            return n
    return T().visit(copy.deepcopy(expr))


def pilot_entry(e, key):
    """e == self._pilots[K][key]  ->  K (ast) else None"""
    if isinstance(e, ast.Subscript) and isinstance(e.slice, ast.Constant) and \
            e.slice.value == key and isinstance(e.value, ast.Subscript) and \
            is_self_attr(e.value.value, '_pilots'):
        return e.value.slice
    if isinstance(e, ast.Call) and isinstance(e.func, ast.Attribute) and \
            e.func.attr == 'get' and e.args and \
            isinstance(e.args[0], ast.Constant) and e.args[0].value == key and \
            isinstance(e.func.value, ast.Subscript) and \
            is_self_attr(e.func.value.value, '_pilots'):
        return e.func.value.slice
    if isinstance(e, ast.Call) and isinstance(e.func, ast.Attribute) and \
            e.func.attr == 'get' and e.args and \
            isinstance(e.args[0], ast.Constant) and e.args[0].value == key and \
            isinstance(e.func.value, ast.Call) and \
            isinstance(e.func.value.func, ast.Attribute) and \
            e.func.value.func.attr == 'get' and e.func.value.args and \
            is_self_attr(e.func.value.func.value, '_pilots'):
        return e.func.value.args[0]
    return None


def info_field(e, key):
    """e == self._pilots[K]['info'][key]"""
    return isinstance(e, ast.Subscript) and \
        isinstance(e.slice, ast.Constant) and e.slice.value == key and \
        pilot_entry(e.value, 'info') is not None


def assign_calls(f):
    return [c for c in calls_in(f.node)
            if call_name(c) == 'self._assign_pilot']


def assign_task_arg(c):
    return kwarg(c, 'task', 0)


def assign_pilot_arg(c):
    return kwarg(c, 'pilot', 1)


def role_consts(prog):
    return (prog.const(BASE[0], 'ADDED'), prog.const(BASE[0], 'REMOVED'))


def classify_role_atom(prog, f, g, atom, pol, at, added):
    """'ok' | 'wrong' | None for a guard on the pilot's role"""
    if not (isinstance(atom, ast.Compare) and len(atom.ops) == 1):
        return None
    l, r = atom.left, atom.comparators[0]
    for a, b in ((l, r), (r, l)):
        if pilot_entry(resolve_local(g, a, at), 'role') is not None:
            v = prog.fold(f.module, b, f.cls)
            op = atom.ops[0]
            if v is UNKNOWN:
                return 'unknown'
            if v != added:
                return 'wrong'
            if isinstance(op, (ast.Eq, ast.Is)):
                return 'ok' if pol else 'wrong'
            if isinstance(op, (ast.NotEq, ast.IsNot)):
                return 'wrong' if pol else 'ok'
            return 'wrong'
    return None


# ------------------------------------------------------------------------------
# R12.1  the pilot of a scheduling decision derives from self._pids
#
def derive(g, expr, at, depth=0):
    """'pids' | 'pilots' | 'empty' | 'unknown' : where the values of expr come
    from"""
    if depth > 8:
        return 'unknown'
    d = depth + 1
    if is_self_attr(expr, '_pids'):
        return 'pids'
    if is_self_attr(expr, '_pilots'):
        return 'pilots'
    if is_empty_ctor(expr):
        return 'empty'
    if isinstance(expr, ast.Subscript):
        return derive(g, expr.value, at, d)
    if isinstance(expr, ast.Call):
        fn = dotted(expr.func)
        if fn in ('list', 'sorted', 'reversed', 'tuple', 'iter', 'set') and \
                len(expr.args) >= 1:
            return derive(g, expr.args[0], at, d)
        if isinstance(expr.func, ast.Attribute) and \
                expr.func.attr in ('copy', 'keys') and not expr.args:
            return derive(g, expr.func.value, at, d)
        return 'unknown'
    if isinstance(expr, ast.Name):
        defs, undef = defs_reaching(g, expr.id, at)
        if undef or not defs:
            return 'unknown'
        res = set()
        for dn in defs:
            if dn.kind == 'for':
                t = dn.ast.target
                if not (isinstance(t, ast.Name) and t.id == expr.id):
                    return 'unknown'
                res.add(derive(g, dn.ast.iter, dn.id, d))
            elif dn.kind == 'stmt' and isinstance(dn.ast, ast.Assign) and \
                    len(dn.ast.targets) == 1 and \
                    isinstance(dn.ast.targets[0], ast.Name):
                res.add(derive(g, dn.ast.value, dn.id, d))
            else:
                return 'unknown'
        # a local list: what is put into it
        for n in g.nodes:
            if n.kind != 'stmt':
                continue
            for c in calls_in(n.ast):
                if isinstance(c.func, ast.Attribute) and \
                        isinstance(c.func.value, ast.Name) and \
                        c.func.value.id == expr.id:
                    if c.func.attr in ('append', 'add') and c.args:
                        res.add(derive(g, c.args[0], n.id, d))
                    elif c.func.attr == 'insert' and len(c.args) == 2:
                        res.add(derive(g, c.args[1], n.id, d))
                    elif c.func.attr == 'extend' and c.args:
                        res.add(derive(g, c.args[0], n.id, d))
            if isinstance(n.ast, ast.AugAssign) and \
                    isinstance(n.ast.target, ast.Name) and \
                    n.ast.target.id == expr.id:
                res.add(derive(g, n.ast.value, n.id, d))
        res.discard('empty')
        if not res:
            return 'empty'
        if 'unknown' in res:
            return 'unknown'
        if 'pilots' in res:
            return 'pilots'
        return 'pids'
    return 'unknown'


def r12_1(prog, rep, rid='R12.1'):
    rep.rule(rid, 'the pilot handed to _assign_pilot in _schedule_tasks derives '
             'from self._pids; _pids grows only in add_pilots and shrinks in '
             'remove_pilots; control_cb calls both for their command after '
             'setting the role', minimum=10)
    added, removed = role_consts(prog)
    base = prog.cls(*BASE)
    for rel, cname in (RR, BF):
        K = prog.cls(rel, cname)
        f = prog.find_method(K, '_schedule_tasks')
        if f is None:
            raise AnalysisError('anchor %s._schedule_tasks not found' % cname)
        rep.saw(f)
        g = cfg_of(f)
        rep.stat('cfg_nodes', len(g.nodes))
        smap = I.stmt_node_map(g)
        calls = assign_calls(f)
        if not calls:
            raise AnalysisError('UNRECOGNISED-IDIOM %s: no call of '
                                'self._assign_pilot' % f.where)
        for c in calls:
            node = smap[id(c)]
            p = assign_pilot_arg(c)
            keys = []
            if p is None:
                raise AnalysisError('UNRECOGNISED-IDIOM %s: `%s` has no pilot '
                                    'argument' % (f.where, short(c, 60)))
            if isinstance(p, ast.Name):
                defs, undef = defs_reaching(g, p.id, node.id)
                if undef or not defs:
                    raise AnalysisError('UNRECOGNISED-IDIOM %s: pilot %r of '
                                        '`%s` has no local definition'
                                        % (f.where, p.id, short(c, 60)))
                for dn in defs:
                    k = None
                    if dn.kind == 'stmt' and isinstance(dn.ast, ast.Assign):
                        k = pilot_entry(dn.ast.value, 'pilot')
                    if k is None:
                        raise AnalysisError(
                            'UNRECOGNISED-IDIOM %s: pilot %r is defined by '
                            '`%s`, not by self._pilots[<pid>][\'pilot\']'
                            % (f.where, p.id, short(dn.ast, 60)))
                    keys.append((k, dn.id))
            else:
                k = pilot_entry(p, 'pilot')
                if k is None:
                    raise AnalysisError('UNRECOGNISED-IDIOM %s: pilot argument '
                                        'of `%s`' % (f.where, short(c, 60)))
                keys.append((k, node.id))
            kinds = {derive(g, k, at) for k, at in keys}
            if 'unknown' in kinds or 'empty' in kinds:
                raise AnalysisError('UNRECOGNISED-IDIOM %s: cannot trace the '
                                    'pilot id of `%s` to self._pids or '
                                    'self._pilots' % (f.where, short(c, 60)))
            okay = kinds == {'pids'}
            if not okay:
                # all known pilots: acceptable only under role == ADDED
                for tid, lab in guards(g, node.id):
                    if classify_role_atom(prog, f, g, g.nodes[tid].ast,
                                          lab == 'T', tid, added) == 'ok':
                        okay = True
            rep.check(okay, rid, f,
                      '%s: the pilot of `%s` is taken from self._pids'
                      % (cname, short(c, 50)), construct=c,
                      message='%s._schedule_tasks: the pilot id used for `%s` '
                      'is drawn from self._pilots (every pilot the scheduler '
                      'ever heard of) and not from self._pids, and no '
                      '`role == ADDED` test guards it: tasks are bound to '
                      'pilots that were removed or never added'
                      % (cname, short(c, 50)), loc=f.loc(c),
                      history='add p1, add p2, remove p1, submit a task '
                      'without a pilot: the task can be bound to p1')
        # writers of self._pids
        methods = I.class_methods(prog, K, stop_at=base)
        for mname, m in sorted(methods.items()):
            _pids_writers(prog, rep, rid, cname, mname, m)
    _control_cb(prog, rep, rid, added, removed)


def _pids_writes(m):
    out = []
    for kind, target, stmt in I.stores(m.node, nested=True):
        t = target
        while isinstance(t, ast.Subscript):
            t = t.value
        if is_self_attr(t, '_pids'):
            out.append((kind, target, stmt))
    return out


def _pids_writers(prog, rep, rid, cname, mname, m):
    writes = _pids_writes(m)
    if not writes and mname not in ('add_pilots', 'remove_pilots'):
        return
    rep.saw(m)
    g = cfg_of(m)
    smap = I.stmt_node_map(g)
    params = [p for p in m.params if p != 'self']

    def grows(kind, target, stmt):
        if kind == 'aug' and isinstance(stmt.op, ast.Add):
            return stmt.value
        if kind == 'mutate' and stmt.func.attr in ('append', 'extend',
                                                   'insert', 'add'):
            return stmt.args[-1] if stmt.args else None
        if kind == 'assign' and is_self_attr(target, '_pids') and \
                not is_empty_ctor(stmt.value):
            v = stmt.value
            if isinstance(v, ast.BinOp) and isinstance(v.op, ast.Add):
                return v.right if is_self_attr(v.left, '_pids') else v.left
            if isinstance(v, (ast.ListComp,)) and any(
                    is_self_attr(gen.iter, '_pids') for gen in v.generators) \
                    and isinstance(v.elt, ast.Name):
                return None                 # a filter: shrinks
            return v
        return None

    if mname == 'add_pilots':
        adds = []
        for w in writes:
            v = grows(*w)
            if v is not None:
                adds.append((w, v))
        good = []
        for (kind, target, stmt), v in adds:
            dep = Deps(m.node, implicit=False).expr_depends(v)
            if params and params[0] in dep:
                good.append(smap[id(stmt)].id)
        okay = bool(good) and g.exit.id not in reach_noeffect(
            g, [g.entry.id], good)
        rep.check(okay, rid, m, '%s.add_pilots extends self._pids by the added '
                  'pids on every normal path' % cname,
                  construct='%s.add_pilots: self._pids += pids' % cname,
                  message='%s.add_pilots has a normal path on which the added '
                  'pilot ids are not appended to self._pids: the scheduler '
                  'never uses the new pilot' % cname, loc=m.loc(),
                  history='add_pilots(p1); submit a task: it stays in the wait '
                  'pool although p1 is added')
        return
    if mname == 'remove_pilots':
        rem = []
        for kind, target, stmt in writes:
            if kind == 'mutate' and stmt.func.attr in ('remove', 'discard') \
                    and stmt.args and isinstance(stmt.args[0], ast.Name):
                n = smap[id(stmt)]
                h = enclosing_for(g, n, stmt.args[0].id)
                if h is not None and isinstance(h.ast.iter, ast.Name) and \
                        params and h.ast.iter.id == params[0]:
                    rem.append((n, h))
            elif kind == 'assign' and is_self_attr(target, '_pids') and \
                    isinstance(stmt.value, ast.ListComp) and params and \
                    any(isinstance(x, ast.Name) and x.id == params[0]
                        for x in walk(stmt.value)):
                rem.append((smap[id(stmt)], None))
        okay = False
        for n, h in rem:
            if h is None:
                okay = g.exit.id not in reach_noeffect(g, [g.entry.id], [n.id])
            else:
                # every iteration that comes back to the head removed the pid,
                # and every normal path runs the loop
                body_ok = h.id not in reach_noeffect(g, [iter_start(g, h.id)],
                                                     [n.id])
                loop_ok = g.exit.id not in g.reachable(g.entry.id,
                                                       skip_nodes={h.id})
                okay = okay or (body_ok and loop_ok)
        rep.check(okay, rid, m, '%s.remove_pilots takes every given pid out of '
                  'self._pids' % cname,
                  construct='%s.remove_pilots: self._pids.remove(pid)' % cname,
                  message='%s.remove_pilots has a normal path on which a '
                  'removed pilot id stays in self._pids: tasks are still bound '
                  'to the removed pilot' % cname, loc=m.loc(),
                  history='add p1, remove p1, submit a task: it is bound to p1')
        for w in writes:
            v = grows(*w)
            if v is not None:
                rep.bad(rid, m, w[2], '%s.remove_pilots adds to self._pids '
                        '(`%s`)' % (cname, short(w[2], 50)), m.loc(w[2]),
                        history='a removed pilot is schedulable again')
        return
    for w in writes:
        kind, target, stmt = w
        if mname in ('_configure', '__init__', 'initialize') and \
                kind == 'assign' and is_empty_ctor(stmt.value):
            continue
        v = grows(*w)
        if v is not None:
            rep.bad(rid, m, stmt, 'self._pids grows outside add_pilots: `%s` '
                    'in %s.%s - a pilot becomes a scheduling target without '
                    'an add_pilots command for it (the argument that tasks go '
                    'only to added pilots rests on add_pilots/remove_pilots '
                    'being the only writers)' % (short(stmt, 50), cname, mname),
                    m.loc(stmt), history='a pilot that was never added (or '
                    'was removed) receives tasks')
        else:
            rep.info(rid, m, 'self._pids shrinks in %s.%s: `%s`'
                     % (cname, mname, short(stmt, 50)), m.loc(stmt))


def _control_cb(prog, rep, rid, added, removed):
    f = prog.method(BASE[0], BASE[1], 'control_cb')
    rep.saw(f)
    g = cfg_of(f)
    smap = I.stmt_node_map(g)
    d = Deps(f.node, implicit=False)
    msg = f.params[-1]
    spec = (('add_pilots', 'self.add_pilots', added, 'ADDED',
             'add_pilots(p1) for a Backfilling scheduler: the scheduling '
             'pass triggered by the command skips p1 (role is not ADDED yet); '
             'waiting tasks stay unscheduled until some later event'),
            ('remove_pilots', 'self.remove_pilots', removed, 'REMOVED',
             'remove_pilots(p1): the entry of p1 keeps role ADDED, so a '
             'second add_pilots(p1) raises and Backfilling still treats p1 as '
             'eligible'))
    for cmd, callee, role, rname, hist in spec:
        calls = [c for c in calls_in(f.node) if call_name(c) == callee]
        if not calls:
            rep.bad(rid, f, '%s(...) missing' % callee, 'control_cb never calls '
                    '%s: the command %r does not reach the scheduler'
                    % (callee, cmd), f.loc(), history='%s(p1) has no effect on '
                    'self._pids' % cmd)
            continue
        for c in calls:
            node = smap[id(c)]
            gd = False
            for tid, lab in guards(g, node.id):
                cc = const_compare(prog, f.module, g.nodes[tid].ast, f.cls)
                if cc and cc[2] == frozenset([cmd]) and \
                        (cc[1] == 'in') == (lab == 'T'):
                    gd = True
            arg_ok = bool(c.args) and msg in d.expr_depends(c.args[0])
            rep.check(gd and arg_ok, rid, f, 'control_cb: `%s` runs for cmd == '
                      '%r with ids taken from the message' % (short(c, 40), cmd),
                      construct=c,
                      message='control_cb: `%s` is %s' % (
                          short(c, 50), 'not control dependent on cmd == %r'
                          % cmd if not gd else 'not fed from the message'),
                      loc=f.loc(c), history='a %r command changes the pilot '
                      'set in the wrong way' % cmd)
            # role store in a loop which precedes the call
            okay = False
            for kind, target, stmt in I.stores(f.node):
                if kind != 'assign' or pilot_entry(target, 'role') is None:
                    continue
                if prog.fold(f.module, stmt.value, f.cls) != role:
                    continue
                sn = smap[id(stmt)]
                if not sn.loops:
                    okay = okay or node.id not in reach_noeffect(
                        g, [g.entry.id], [sn.id])
                    continue
                h = sn.loops[-1]
                before = node.id not in g.reachable(g.entry.id,
                                                    skip_nodes={h})
                each = h not in reach_noeffect(g, [iter_start(g, h)], [sn.id])
                okay = okay or (before and each)
            rep.check(okay, rid, f, 'control_cb: role = %s is stored for every '
                      'pilot of the command before `%s`' % (rname, short(c, 40)),
                      construct='%s [role %s first]' % (short(c, 60), rname),
                      message='control_cb: `%s` is reached without the role of '
                      'every pilot of the command having been set to %s'
                      % (short(c, 50), rname), loc=f.loc(c), history=hist)


# ------------------------------------------------------------------------------
# R12.8 (extension of R12.1)  a pilot object read from the table is a real one
#
def placeholder_writers(prog):
    """[(FuncInfo, stmt)]: stores of an entry {.. 'pilot': None ..} into
    self._pilots which the same function does not complete with a pilot
    object on every normal path (entries of pilots that were never added)"""
    out = []
    seen = set()
    for rel, cname in (BASE, RR, BF):
        K = prog.cls(rel, cname)
        for mname, f in sorted(K.methods.items()):
            if id(f.node) in seen:
                continue
            seen.add(id(f.node))
            ws = []
            for n in walk(f.node):
                if isinstance(n, ast.Assign) and isinstance(n.value, ast.Dict) \
                        and any(isinstance(t, ast.Subscript) and
                                is_self_attr(t.value, '_pilots')
                                for t in n.targets):
                    for k, v in zip(n.value.keys, n.value.values):
                        if isinstance(k, ast.Constant) and k.value == 'pilot' \
                                and isinstance(v, ast.Constant) and \
                                v.value is None:
                            ws.append(n)
            if not ws:
                continue
            g = cfg_of(f)
            smap = I.stmt_node_map(g)
            fills = [smap[id(st)].id for kind, t, st in I.stores(f.node)
                     if kind == 'assign' and pilot_entry(t, 'pilot') is not None
                     and not (isinstance(st.value, ast.Constant) and
                              st.value.value is None) and id(st) in smap]
            for w in ws:
                wn = smap[id(w)]
                ends = {g.exit.id}
                if wn.loops:
                    ends.add(wn.loops[-1])
                if ends & reach_noeffect(g, nsucc(g, wn.id), fills):
                    out.append((f, w))
    return out


def _pilot_key_read(v):
    """task's own pilot: X.get('pilot') / X['pilot']  ->  X name"""
    if isinstance(v, ast.Call) and isinstance(v.func, ast.Attribute) and \
            v.func.attr == 'get' and v.args and \
            isinstance(v.args[0], ast.Constant) and \
            v.args[0].value == 'pilot' and isinstance(v.func.value, ast.Name):
        return v.func.value.id
    if isinstance(v, ast.Subscript) and isinstance(v.slice, ast.Constant) and \
            v.slice.value == 'pilot' and isinstance(v.value, ast.Name):
        return v.value.id
    return None


def _only_unbound_callers(prog, f, g, node):
    """the site lies on a branch `<task's pilot>` is truthy, in a method whose
    callers (in the scheduler classes) pass only tasks collected on the
    branch where the task names no pilot: the site is unreachable"""
    params = [p for p in f.params if p != 'self']
    if not params:
        return False
    bound = False
    for tid, lab in guards(g, node.id):
        a = g.nodes[tid].ast
        if isinstance(a, ast.Name) and lab == 'T':
            defs, undef = defs_reaching(g, a.id, tid)
            if not undef and defs and all(
                    d.kind == 'stmt' and isinstance(d.ast, ast.Assign) and
                    _pilot_key_read(d.ast.value) is not None for d in defs):
                tv = _pilot_key_read(defs[0].ast.value)
                h = enclosing_for(g, node, tv)
                if h is not None and isinstance(h.ast.iter, ast.Name) and \
                        h.ast.iter.id == params[0]:
                    bound = True
    if not bound:
        return False
    callers = 0
    seen = set()
    for rel, cname in (BASE, RR, BF):
        for mname, m in prog.cls(rel, cname).methods.items():
            if id(m.node) in seen:
                continue
            seen.add(id(m.node))
            for c in calls_in(m.node):
                if call_name(c) != 'self.' + f.name:
                    continue
                callers += 1
                if not (c.args and isinstance(c.args[0], ast.Name)):
                    return False
                L = c.args[0].id
                mg = cfg_of(m)
                for dn in [n for n in mg.nodes if L in stores_of(n)]:
                    if not (dn.kind == 'stmt' and
                            isinstance(dn.ast, ast.Assign) and
                            is_empty_ctor(dn.ast.value)):
                        return False
                apps = 0
                for n in mg.nodes:
                    if n.kind != 'stmt' or n.ast is None:
                        continue
                    for cc in calls_in(n.ast):
                        if isinstance(cc.func, ast.Attribute) and \
                                cc.func.attr == 'append' and \
                                isinstance(cc.func.value, ast.Name) and \
                                cc.func.value.id == L and cc.args and \
                                isinstance(cc.args[0], ast.Name):
                            apps += 1
                            okay = False
                            for tid, lab in guards(mg, n.id):
                                a = mg.nodes[tid].ast
                                if isinstance(a, ast.Name) and lab == 'F':
                                    ds, ud = defs_reaching(mg, a.id, tid)
                                    if not ud and ds and all(
                                            d.kind == 'stmt' and
                                            isinstance(d.ast, ast.Assign) and
                                            _pilot_key_read(d.ast.value) ==
                                            cc.args[0].id for d in ds):
                                        okay = True
                            if not okay:
                                return False
                if not apps:
                    return False
    return callers > 0


def r12_8(prog, rep, rid='R12.8'):
    rep.rule(rid, 'a pilot object read from self._pilots[..][\'pilot\'] and '
             'handed to _assign_pilot is guarded by its own truth value, by '
             'role == ADDED of that entry, or its key comes from self._pids; '
             'membership in self._pilots suffices only if no placeholder '
             'entries are written', minimum=3)
    added, removed = role_consts(prog)
    holders = placeholder_writers(prog)
    htxt = ', '.join('%s (%s)' % (hf.qual, hf.loc(st)) for hf, st in holders)
    seen = set()
    for rel, cname in (BASE, RR, BF):
        K = prog.cls(rel, cname)
        for mname, f in sorted(K.methods.items()):
            if id(f.node) in seen:
                continue
            seen.add(id(f.node))
            calls = assign_calls(f)
            if not calls:
                continue
            g = cfg_of(f)
            smap = I.stmt_node_map(g)
            for c in calls:
                node = smap.get(id(c))
                p = assign_pilot_arg(c)
                if node is None or p is None:
                    continue
                keys = []           # (key expr, at)
                pdefs = None
                if isinstance(p, ast.Name):
                    defs, undef = defs_reaching(g, p.id, node.id)
                    pdefs = {d.id for d in defs}
                    for dn in defs:
                        if dn.kind == 'stmt' and isinstance(dn.ast, ast.Assign):
                            k = pilot_entry(dn.ast.value, 'pilot')
                            if k is not None:
                                keys.append((k, dn.id))
                else:
                    k = pilot_entry(p, 'pilot')
                    if k is not None:
                        keys.append((k, node.id))
                if not keys:
                    continue        # not read from the table (the command)
                rep.saw(f)
                how = None
                if all(derive(g, k, at) == 'pids' for k, at in keys):
                    how = 'its key is drawn from self._pids'
                gs = guards(g, node.id)
                for tid, lab in gs:
                    if how:
                        break
                    a = g.nodes[tid].ast
                    pol = lab == 'T'
                    # truth value of the pilot object itself
                    if isinstance(p, ast.Name):
                        same = {d.id for d in defs_reaching(g, p.id, tid)[0]} \
                            == pdefs
                        if isinstance(a, ast.Name) and a.id == p.id and pol \
                                and same:
                            how = 'it is tested for truth'
                        if isinstance(a, ast.Compare) and len(a.ops) == 1 and \
                                isinstance(a.left, ast.Name) and \
                                a.left.id == p.id and same and \
                                isinstance(a.comparators[0], ast.Constant) and \
                                a.comparators[0].value is None:
                            isnot = isinstance(a.ops[0], (ast.IsNot, ast.NotEq))
                            if isnot == pol:
                                how = 'it is tested against None'
                    # role of the same entry
                    if classify_role_atom(prog, f, g, a, pol, tid, added) \
                            == 'ok':
                        how = 'the role of the entry is ADDED'
                    # membership, if no placeholders exist
                    if not holders and isinstance(a, ast.Compare) and \
                            len(a.ops) == 1 and \
                            is_self_attr(a.comparators[0], '_pilots') and \
                            isinstance(a.ops[0], (ast.In, ast.NotIn)) and \
                            isinstance(a.ops[0], ast.In) == pol and \
                            any(unparse(a.left) == unparse(k)
                                for k, _ in keys):
                        how = 'its key is a member of self._pilots, which ' \
                              'holds added pilots only'
                if not how and _only_unbound_callers(prog, f, g, node):
                    how = 'the branch is unreachable: every caller passes ' \
                          'only tasks that name no pilot'
                    rep.info(rid, f, '%s.%s: `%s` lies on a dead branch (%s)'
                             % (cname, mname, short(c, 50), how), f.loc(c))
                rep.check(bool(how), rid, f, '%s.%s: the pilot of `%s` is a '
                          'real pilot object: %s' % (cname, mname,
                                                     short(c, 50), how),
                          construct='%s [pilot object from the table]'
                          % unparse(c),
                          message='%s.%s: `%s` receives self._pilots[%s]'
                          '[\'pilot\'] without a test of that object (or of '
                          'role == ADDED); the entry may be a placeholder with '
                          'pilot None, written by %s for a pilot that is only '
                          'known from a state notification: _assign_pilot(task, '
                          'None) raises and the whole batch is lost instead of '
                          'the task waiting for its pilot'
                          % (cname, mname, short(c, 50),
                             unparse(keys[0][0]), htxt or '<none>'),
                          loc=f.loc(c),
                          history='state notification for pilot p1 arrives '
                          'before add_pilots(p1); work([t]) with t[\'pilot\'] '
                          '== p1: TypeError in _assign_pilot, t and the rest '
                          'of the batch are neither forwarded nor kept in '
                          'self._early')


# ------------------------------------------------------------------------------
# R12.2  one outcome per task
#
def outcomes_in(node, tvar):
    """outcome effects of a cfg node for the task variable: [(kind, container
    text, ast)] - hand-on of the task, retention of the task in a container"""
    out = []
    a = node.ast
    if a is None or node.kind not in ('stmt',):
        return out
    for c in calls_in(a):
        if I.is_handon(c):
            th = I.handon_thing(c)
            if isinstance(th, ast.Name) and th.id == tvar:
                out.append(('handon', unparse(c.func), c))
        elif isinstance(c.func, ast.Attribute) and \
                c.func.attr in ('append', 'add') and len(c.args) == 1 and \
                isinstance(c.args[0], ast.Name) and c.args[0].id == tvar:
            recv = c.func.value
            # d.setdefault(k, list()).append(t) == d[k].append(t)
            if isinstance(recv, ast.Call) and \
                    isinstance(recv.func, ast.Attribute) and \
                    recv.func.attr == 'setdefault' and len(recv.args) == 2 \
                    and I.is_path(recv.func.value):
                recv = ast.Subscript(value=recv.func.value, slice=recv.args[0],
                                     ctx=ast.Load())
            if I.is_path(recv):
                out.append(('retain', unparse(recv), c))
    if isinstance(a, ast.Assign) and isinstance(a.value, ast.Name) and \
            a.value.id == tvar:
        for t in a.targets:
            if isinstance(t, ast.Subscript) and I.is_path(t.value):
                out.append(('retain', unparse(t.value), a))
    # d[k] = d.get(k, []) + [t]  /  d[k] = d[k] + [t]
    if isinstance(a, ast.Assign) and isinstance(a.value, ast.BinOp) and \
            isinstance(a.value.op, ast.Add) and \
            isinstance(a.value.right, (ast.List, ast.Tuple)) and \
            len(a.value.right.elts) == 1 and \
            isinstance(a.value.right.elts[0], ast.Name) and \
            a.value.right.elts[0].id == tvar:
        for t in a.targets:
            if isinstance(t, ast.Subscript) and I.is_path(t.value):
                out.append(('retain', unparse(t), a))
    return out


def bool_flags(f):
    """local names which are only ever assigned True / False"""
    vals = {}
    for n in walk(f.node):
        if isinstance(n, (ast.Assign, ast.AugAssign, ast.AnnAssign, ast.For,
                          ast.comprehension, ast.NamedExpr, ast.withitem)):
            if isinstance(n, ast.Assign):
                tg, v = n.targets, n.value
            elif isinstance(n, ast.withitem):
                tg, v = ([n.optional_vars] if n.optional_vars else []), None
            elif isinstance(n, (ast.For, ast.comprehension)):
                tg, v = [n.target], None
            else:
                tg, v = [n.target], None
            for t in tg:
                for name in stores_in_target(t):
                    good = isinstance(t, ast.Name) and \
                        isinstance(v, ast.Constant) and \
                        isinstance(v.value, bool)
                    vals[name] = vals.get(name, True) and good
    return {k for k, v in vals.items() if v} - set(f.params)


def _iterates_tasks(f, it):
    """the iterable is a parameter of the function (the incoming tasks) or is
    rooted at one of the persistent pools"""
    e = it
    while True:
        if isinstance(e, ast.Call):
            if isinstance(e.func, ast.Attribute) and \
                    e.func.attr in ('items', 'values', 'copy'):
                e = e.func.value
            elif dotted(e.func) in ('list', 'sorted', 'reversed', 'enumerate') \
                    and e.args:
                e = e.args[0]
            else:
                return False
        elif isinstance(e, ast.Subscript):
            e = e.value
        else:
            break
    if isinstance(e, ast.Name):
        return e.id in f.params
    return isinstance(e, ast.Attribute) and is_self_attr(e) and e.attr in POOLS


def task_loops(f, g):
    """[(for head node, task variable)]: outermost loops whose body has an
    outcome for a name bound by the loop"""
    out = []
    for h, a in g.loop_ast.items():
        hn = g.nodes[h]
        if hn.kind != 'for':
            continue
        if not _iterates_tasks(f, a.iter):
            continue
        for name in stores_in_target(a.target):
            if any(outcomes_in(g.nodes[i], name) for i in g.loop_body[h]):
                if not any(o.id in hn.loops and v == name for o, v in out):
                    out.append((hn, name))
    return out


def r12_2(prog, rep, rid='R12.2'):
    rep.rule(rid, 'every iteration of the task loops of work, RoundRobin._work/'
             '_schedule_tasks, Backfilling._work/_schedule_tasks has exactly '
             'one outcome for the task (handed on xor kept in one pool), and '
             'every local outcome list is handed on after the loop', minimum=12)
    anchors = [(BASE, 'work'), (RR, '_work'), (RR, '_schedule_tasks'),
               (BF, '_work'), (BF, '_schedule_tasks')]
    nloops = 0
    for (rel, cname), mname in anchors:
        f = prog.method(rel, cname, mname)
        rep.saw(f)
        g = cfg_of(f)
        flags = bool_flags(f)
        loops = task_loops(f, g)
        if not loops:
            raise AnalysisError('UNRECOGNISED-IDIOM %s: no loop over tasks '
                                'with an outcome per task' % f.where)
        for hn, tvar in loops:
            nloops += 1
            _one_outcome(rep, rid, f, g, hn, tvar, flags, cname)
            _consumed(rep, rid, f, g, hn, tvar, cname)
        _whole_list(rep, rid, f, g, loops, cname)
    rep.stat('task_loops', nloops)


def _one_outcome(rep, rid, f, g, hn, tvar, flags, cname):
    start, stop, stop_edge = loop_slice(g, hn.id)

    def transfer(node, edge, st):
        cnt, fl = st
        a = node.ast
        if node.kind == 'test' and edge.label in 'TF' and \
                isinstance(a, ast.Constant):
            if bool(a.value) != (edge.label == 'T'):
                return None
        if node.kind == 'test' and edge.label in 'TF' and \
                isinstance(a, ast.Name) and a.id in flags:
            known = dict(fl).get(a.id)
            if known is not None and known != (edge.label == 'T'):
                return None
        if edge.label == 'exc':
            return st
        if node.kind == 'stmt':
            if isinstance(a, ast.Assign) and len(a.targets) == 1 and \
                    isinstance(a.targets[0], ast.Name) and \
                    a.targets[0].id in flags:
                dfl = dict(fl)
                dfl[a.targets[0].id] = a.value.value
                fl = tuple(sorted(dfl.items()))
            k = len(outcomes_in(node, tvar))
            if k:
                cnt = min(2, cnt + k)
        return (cnt, fl)

    ex = Exploration(g, start, (0, ()), transfer, stop=stop,
                     stop_edge=stop_edge)
    rep.stat('paths', ex.states)
    lost, twice = [], []
    for t in ex.terminals:
        if t.node == g.raise_.id:
            continue
        if t.state[0] == 0:
            lost.append(t)
        elif t.state[0] >= 2:
            twice.append(t)
    hdr = 'for %s in %s' % (unparse(hn.ast.target), unparse(hn.ast.iter))
    what = '%s.%s: every path through one iteration of `%s` has exactly one ' \
           'outcome for %r' % (cname, f.name, hdr, tvar)
    if lost:
        rep.bad(rid, f, '%s [task lost]' % hdr,
                '%s.%s: an iteration of `%s` can end without %r being handed '
                'on or kept in any pool: the task disappears in the scheduler'
                % (cname, f.name, hdr, tvar), f.loc(hn.ast),
                history='a task taking the branch [%s] is never bound and '
                'never reported' % ' ; '.join(ex.literals(lost[0])),
                path=ex.literals(lost[0]))
    if twice:
        rep.bad(rid, f, '%s [two outcomes]' % hdr,
                '%s.%s: an iteration of `%s` gives %r two outcomes (handed on '
                'and/or kept twice): the task is bound or forwarded twice'
                % (cname, f.name, hdr, tvar), f.loc(hn.ast),
                history='a task taking the branch [%s] is forwarded twice'
                % ' ; '.join(ex.literals(twice[0])),
                path=ex.literals(twice[0]))
    if not lost and not twice:
        rep.ok(rid, f, what, f.loc(hn.ast))


def _local_containers(f, g, hn, tvar):
    """{name: [outcome nodes]} for outcome containers that are local names"""
    out = {}
    for i in g.loop_body[hn.id]:
        for kind, cont, a in outcomes_in(g.nodes[i], tvar):
            if kind == 'retain' and cont.isidentifier():
                out.setdefault(cont, []).append(g.nodes[i])
    return out


def consumer_nodes(g, name):
    """cfg nodes that hand the local collection `name` on: hand-on call,
    self-call with it as argument, store into a self attribute"""
    out = []
    for n in g.nodes:
        if n.kind != 'stmt' or n.ast is None:
            continue
        a = n.ast
        hit = False
        for c in calls_in(a):
            args = list(c.args) + [k.value for k in c.keywords]
            if any(isinstance(x, ast.Name) and x.id == name for x in args):
                if I.is_handon(c) or call_name(c).startswith('self.'):
                    hit = True
                elif isinstance(c.func, ast.Attribute) and \
                        c.func.attr in ('extend', 'update') and \
                        root_name(c.func.value) == 'self':
                    hit = True
        if isinstance(a, (ast.Assign, ast.AugAssign)) and \
                isinstance(a.value, ast.Name) and a.value.id == name:
            tg = a.targets if isinstance(a, ast.Assign) else [a.target]
            if any(root_name(t) == 'self' for t in tg):
                hit = True
        if hit:
            out.append(n)
    return out


def _truth_tests(g, name):
    out = []
    for n in g.nodes:
        if n.kind != 'test':
            continue
        a = n.ast
        if isinstance(a, ast.Name) and a.id == name:
            out.append(n.id)
        elif isinstance(a, ast.Call) and dotted(a.func) == 'len' and \
                len(a.args) == 1 and isinstance(a.args[0], ast.Name) and \
                a.args[0].id == name:
            out.append(n.id)
    return out


def _consumed(rep, rid, f, g, hn, tvar, cname):
    conts = _local_containers(f, g, hn, tvar)
    after = [e.dst for e in g.succ[hn.id] if e.label == 'done']
    for name in sorted(conts):
        cons = [n.id for n in consumer_nodes(g, name)]
        skip = [(t, 'F') for t in _truth_tests(g, name)]
        r = set()
        for s in after:
            if s in cons:
                continue
            r |= g.reachable(s, skip_nodes=cons, skip_edges=skip,
                             labels={'next', 'T', 'F', 'iter', 'done'})
        okay = bool(cons) and g.exit.id not in r
        rep.check(okay, rid, f, '%s.%s: the tasks collected in %r are handed '
                  'on (or the list is empty) on every path after the loop'
                  % (cname, f.name, name),
                  construct='%s [collected tasks handed on]' % name,
                  message='%s.%s: tasks are collected in %r, but a normal path '
                  'from the end of the loop to the return neither hands %r on '
                  'nor tests it empty: those tasks are dropped'
                  % (cname, f.name, name, name), loc=f.loc(conts[name][0].ast),
                  history='tasks that took the %r branch are never bound and '
                  'never reported' % name)


def _whole_list(rep, rid, f, g, loops, cname):
    """a list parameter which is both iterated and (elsewhere) kept wholesale:
    exactly one of the two on every normal path"""
    params = [p for p in f.params if p != 'self']
    for p in params:
        keep = []
        for n in g.nodes:
            if n.kind != 'stmt':
                continue
            a = n.ast
            if isinstance(a, ast.AugAssign) and isinstance(a.op, ast.Add) and \
                    isinstance(a.value, ast.Name) and a.value.id == p and \
                    root_name(a.target) == 'self':
                keep.append(n.id)
            for c in calls_in(a):
                if isinstance(c.func, ast.Attribute) and \
                        c.func.attr == 'extend' and c.args and \
                        isinstance(c.args[0], ast.Name) and \
                        c.args[0].id == p and root_name(c.func.value) == 'self':
                    keep.append(n.id)
        heads = [hn.id for hn, tv in loops if isinstance(hn.ast.iter, ast.Name)
                 and hn.ast.iter.id == p]
        if not keep or not heads:
            continue

        def transfer(node, edge, st):
            if edge.label == 'exc':
                return st
            kept, looped = st
            if node.id in keep:
                kept = True
            if node.id in heads:
                looped = True
            return (kept, looped)
        ex = Exploration(g, g.entry.id, (False, False), transfer)
        both = [t for t in ex.terminals if t.node == g.exit.id and
                t.state == (True, True)]
        none = [t for t in ex.terminals if t.node == g.exit.id and
                t.state == (False, False)]
        bad = both or none
        rep.check(not bad, rid, f, '%s.%s: %r is either kept as a whole in the '
                  'wait pool or scheduled task by task, never both, never '
                  'neither' % (cname, f.name, p),
                  construct='%s [kept xor scheduled]' % p,
                  message='%s.%s: a normal path %s' % (
                      cname, f.name, 'keeps %r in the wait pool and schedules '
                      'it as well: every task is forwarded now and again when '
                      'the pool is drained' % p if both else 'neither keeps %r '
                      'nor schedules it: the tasks are dropped' % p),
                  loc=f.loc(), path=ex.literals(bad[0]) if bad else None,
                  history='no pilot is added yet and tasks arrive: [%s]'
                  % (' ; '.join(ex.literals(bad[0])) if bad else ''))


# ------------------------------------------------------------------------------
# R12.3  a pool whose content is handed on is drained on that path
#
def _pool_of(expr):
    """(pool attr, keyed, drains at source) if expr reads content of a
    persistent pool: self._wait_pool[:], list(self._wait_pool),
    self._early.get(k), self._early[k], self._early.pop(k, ..)"""
    e = expr
    keyed = False
    popped = False
    if isinstance(e, ast.Call):
        if dotted(e.func) in ('list', 'dict', 'sorted') and len(e.args) == 1:
            e = e.args[0]
        elif isinstance(e.func, ast.Attribute) and \
                e.func.attr in ('get', 'pop', 'copy', 'values', 'items'):
            keyed = e.func.attr in ('get', 'pop') and bool(e.args)
            popped = e.func.attr == 'pop' and bool(e.args)
            e = e.func.value
        else:
            return None
    if isinstance(e, ast.Subscript):
        if not isinstance(e.slice, ast.Slice):
            keyed = True
        e = e.value
    if is_self_attr(e) and e.attr in POOLS:
        return (e.attr, keyed, popped)
    return None


def _drains(g, pool, alias):
    """(drain nodes of the whole pool / of one key, drain nodes through the
    alias)"""
    hard, soft = [], []
    for n in g.nodes:
        if n.kind != 'stmt' or n.ast is None:
            continue
        a = n.ast
        if isinstance(a, ast.Assign):
            for t in a.targets:
                if is_self_attr(t, pool) and (is_empty_ctor(a.value) or
                                              isinstance(a.value, ast.Name)
                                              and a.value.id != alias):
                    hard.append(n.id)
                if isinstance(t, ast.Subscript) and \
                        is_self_attr(t.value, pool) and is_empty_ctor(a.value):
                    hard.append(n.id)
        if isinstance(a, ast.Delete):
            for t in a.targets:
                if isinstance(t, ast.Subscript) and is_self_attr(t.value, pool):
                    hard.append(n.id)
                if isinstance(t, ast.Subscript) and \
                        isinstance(t.value, ast.Name) and t.value.id == alias:
                    soft.append(n.id)
        for c in calls_in(a):
            if isinstance(c.func, ast.Attribute) and \
                    c.func.attr in ('clear', 'pop', 'popitem'):
                if is_self_attr(c.func.value, pool):
                    hard.append(n.id)
                elif isinstance(c.func.value, ast.Name) and \
                        c.func.value.id == alias and c.func.attr == 'clear':
                    soft.append(n.id)
    return hard, soft


def r12_3(prog, rep, rid='R12.3'):
    rep.rule(rid, 'a pool (self._wait_pool, self._early[pid]) whose content is '
             'handed on is cleared on that path', minimum=3)
    base = prog.cls(*BASE)
    seen = set()
    for rel, cname in (BASE, RR, BF):
        K = prog.cls(rel, cname)
        for mname, f in sorted(K.methods.items()):
            if id(f.node) in seen:
                continue
            seen.add(id(f.node))
            g = None
            # (a) content copied / aliased into a local which is forwarded
            for n in walk(f.node):
                if not (isinstance(n, ast.Assign) and len(n.targets) == 1 and
                        isinstance(n.targets[0], ast.Name)):
                    continue
                po = _pool_of(n.value)
                if po is None:
                    continue
                pool, keyed, popped = po
                alias = n.targets[0].id
                g = g or cfg_of(f)
                smap = I.stmt_node_map(g)
                dnode = smap[id(n)]
                fwd = []
                for c in calls_in(f.node):
                    args = list(c.args) + [k.value for k in c.keywords]
                    if not any(isinstance(x, ast.Name) and x.id == alias
                               for x in args):
                        continue
                    if I.is_handon(c) or (call_name(c).startswith('self.')
                                          and call_name(c) != 'self._assign_pilot'
                                          and not call_name(c).startswith(
                                              'self._log')):
                        fn = smap.get(id(c))
                        if fn is not None and fn.id in g.reachable(dnode.id):
                            fwd.append((c, fn))
                if not fwd:
                    continue
                rep.saw(f)
                is_alias = not isinstance(n.value, ast.Call) and not (
                    isinstance(n.value, ast.Subscript) and
                    isinstance(n.value.slice, ast.Slice))
                hard, soft = _drains(g, pool, alias)
                for c, fn in fwd:
                    if popped:
                        okay = True
                    else:
                        before = bool(hard) and fn.id not in reach_noeffect(
                            g, nsucc(g, dnode.id), hard)
                        ends = {g.exit.id}
                        if fn.loops:
                            ends.add(fn.loops[-1])
                        via = list(hard)
                        callee = prog.resolve_call(f, c, K)
                        refill = callee is not None and any(
                            is_self_attr(t if not isinstance(t, ast.Subscript)
                                         else t.value, pool)
                            for _, t, _ in I.stores(callee.node))
                        if I.is_handon(c) or not refill:
                            via += soft if (keyed and is_alias) else []
                            r = reach_noeffect(g, nsucc(g, fn.id), via)
                            after = bool(via) and not (ends & r)
                        else:
                            after = False
                        okay = before or after
                    what = 'self.%s%s' % (pool, '[<key>]' if keyed else '')
                    rep.check(okay, rid, f, '%s.%s: %s is cleared on the path '
                              'that forwards its content by `%s`'
                              % (cname, mname, what, short(c, 50)),
                              construct=c,
                              message='%s.%s: the tasks read from %s (`%s`) are '
                              'forwarded by `%s`, but the pool entry is not '
                              'cleared on that path: the same tasks are '
                              'forwarded again the next time this code runs '
                              'for the same key' % (cname, mname, what,
                                                    short(n, 50), short(c, 60)),
                              loc=f.loc(c),
                              history='tasks t1, t2 name pilot p1 before p1 is '
                              'known (kept in self._early[p1]); add_pilots(p1) '
                              'forwards them; remove_pilots(p1); add_pilots(p1) '
                              'again: t1, t2 are assigned and advanced to '
                              'TMGR_STAGING_INPUT_PENDING a second time'
                              if pool == '_early' else
                              'tasks wait in the pool; a pilot is added twice '
                              'in a row (or another event drains the pool '
                              'again): the waiting tasks are scheduled twice')
            # (b) a loop iterates the pool itself and forwards some items
            g = g or cfg_of(f)
            for hn, tvar in task_loops(f, g):
                root = hn.ast.iter
                if not any(is_self_attr(x) and x.attr in POOLS
                           for x in walk(root)):
                    continue
                pool = [x.attr for x in walk(root)
                        if is_self_attr(x) and x.attr in POOLS][0]
                conts = _local_containers(f, g, hn, tvar)
                forwarded = [c for c in conts if any(
                    I.is_handon(cc) for n in consumer_nodes(g, c)
                    for cc in calls_in(n.ast))]
                direct = any(k == 'handon' for i in g.loop_body[hn.id]
                             for k, _, _ in outcomes_in(g.nodes[i], tvar))
                if not forwarded and not direct:
                    continue
                rep.saw(f)
                kept = [c for c in conts if c not in forwarded]
                repl = []
                for n in g.nodes:
                    if n.kind == 'stmt' and isinstance(n.ast, ast.Assign) and \
                            any(is_self_attr(t, pool) for t in n.ast.targets) \
                            and isinstance(n.ast.value, ast.Name) and \
                            n.ast.value.id in kept:
                        repl.append(n.id)
                after = [e.dst for e in g.succ[hn.id] if e.label == 'done']
                r = reach_noeffect(g, after, repl)
                okay = bool(repl) and g.exit.id not in r
                rep.check(okay, rid, f, '%s.%s: after the loop over self.%s '
                          'the pool is replaced by the tasks that were not '
                          'scheduled' % (cname, mname, pool),
                          construct='self.%s = <unscheduled>' % pool,
                          message='%s.%s: the loop over self.%s forwards some '
                          'of its tasks (%s), but a normal path to the return '
                          'does not replace the pool by the remaining tasks: '
                          'scheduled tasks stay in the wait pool and are '
                          'scheduled again' % (cname, mname, pool,
                                               ', '.join(forwarded) or
                                               'direct hand-on'),
                          loc=f.loc(hn.ast),
                          history='one task waits, a pilot becomes active: the '
                          'task is bound and advanced; the next task state '
                          'update triggers _schedule_tasks again: the same '
                          'task is bound and advanced a second time')


# ------------------------------------------------------------------------------
# R12.4  _assign_pilot dominates every hand-on to TMGR_STAGING_INPUT_PENDING
#
def r12_4(prog, rep, rid='R12.4', classes=None):
    if rid == 'R12.4':
        rep.rule(rid, 'every task handed on to TMGR_STAGING_INPUT_PENDING went '
                 'through _assign_pilot (binding + sandboxes) on every path',
                 minimum=5)
    target = prog.const('states.py', 'TMGR_STAGING_INPUT_PENDING')
    seen = set()
    n_sites = 0
    for K in classes or [prog.cls(*x) for x in (BASE, RR, BF)]:
        for mname, f in sorted(K.methods.items()):
            if id(f.node) in seen:
                continue
            seen.add(id(f.node))
            for c in calls_in(f.node):
                if not I.is_handon(c) or \
                        I.handon_state(prog, f, c, K) != target:
                    continue
                n_sites += 1
                rep.saw(f)
                _assigned_before(prog, rep, rid, K, f, c)
    return n_sites


def _assigned_before(prog, rep, rid, K, f, c):
    g = cfg_of(f)
    smap = I.stmt_node_map(g)
    hnode = smap[id(c)]
    thing = I.handon_thing(c)
    if not isinstance(thing, ast.Name):
        raise AnalysisError('UNRECOGNISED-IDIOM %s: `%s` hands on something '
                            'that is not a plain name' % (f.where, short(c, 60)))
    T = thing.id
    acalls = assign_calls(f)

    def anodes(name):
        return [smap[id(a)].id for a in acalls
                if isinstance(assign_task_arg(a), ast.Name) and
                assign_task_arg(a).id == name and id(a) in smap]

    def start_for(node, name):
        h = enclosing_for(g, node, name)
        return iter_start(g, h.id) if h is not None else g.entry.id

    okay, how = None, ''
    appends = []
    for n in g.nodes:
        if n.kind != 'stmt' or n.ast is None:
            continue
        for cc in calls_in(n.ast):
            if isinstance(cc.func, ast.Attribute) and \
                    cc.func.attr in ('append', 'add') and \
                    isinstance(cc.func.value, ast.Name) and \
                    cc.func.value.id == T and len(cc.args) == 1:
                appends.append((n, cc.args[0]))
    loops = [hn for hn in g.nodes if hn.kind == 'for' and
             isinstance(hn.ast.iter, ast.Name) and hn.ast.iter.id == T and
             isinstance(hn.ast.target, ast.Name) and
             anodes(hn.ast.target.id)]
    if appends:
        # (b1) a local list: each element was assigned before it was appended
        defs = [n for n in g.nodes if T in stores_of(n)]
        for dn in defs:
            if not (dn.kind == 'stmt' and isinstance(dn.ast, ast.Assign) and
                    is_empty_ctor(dn.ast.value)):
                raise AnalysisError('UNRECOGNISED-IDIOM %s: list %r handed on '
                                    'by `%s` is also defined by `%s`'
                                    % (f.where, T, short(c, 50),
                                       short(dn.ast, 50)))
        okay = True
        for n, x in appends:
            if not isinstance(x, ast.Name):
                okay = False
                continue
            via = anodes(x.id)
            if not via or n.id in reach_noeffect(g, [start_for(n, x.id)], via):
                okay = False
        how = 'each task appended to %r was assigned first' % T
    elif loops:
        # (b2) a loop over the list assigns every element, before the hand-on
        okay = False
        for hn in loops:
            via = anodes(hn.ast.target.id)
            each = hn.id not in reach_noeffect(g, [iter_start(g, hn.id)], via)
            before = hnode.id not in g.reachable(g.entry.id,
                                                 skip_nodes={hn.id})
            okay = okay or (each and before)
        how = 'a loop over %r assigns every task before the hand-on' % T
    else:
        via = anodes(T)
        okay = bool(via) and hnode.id not in reach_noeffect(
            g, [start_for(hnode, T)], via)
        how = '_assign_pilot(%s, ..) precedes the hand-on' % T
    rep.check(okay, rid, f, '%s.%s: `%s`: %s' % (K.name, f.name, short(c, 50),
                                                how),
              construct=c,
              message='%s.%s: `%s` can be reached with a task that did not '
              'pass self._assign_pilot(): the task goes to input staging '
              'without a pilot binding and without sandboxes'
              % (K.name, f.name, short(c, 60)), loc=f.loc(c),
              history='the task arrives at the tmgr input stager with '
              "task['pilot'] unset (or naming a pilot whose sandboxes were "
              'never derived): staging and the agent hand-over fail')


# ------------------------------------------------------------------------------
# R12.5  backfilling eligibility
#
def _flip(op):
    return {ast.Lt: ast.Gt, ast.Gt: ast.Lt, ast.LtE: ast.GtE,
            ast.GtE: ast.LtE, ast.Eq: ast.Eq, ast.NotEq: ast.NotEq}.get(type(op))


def _holds_when(op, pol):
    """relation that holds on the edge: (type of op) if pol else its negation"""
    neg = {ast.Lt: ast.GtE, ast.GtE: ast.Lt, ast.Gt: ast.LtE, ast.LtE: ast.Gt,
           ast.Eq: ast.NotEq, ast.NotEq: ast.Eq}
    t = type(op)
    return t if pol else neg.get(t)


def _state_value_of_pilot(g, e, at):
    """e == <..>_pilot_state_value(self._pilots[K]['state'])"""
    e = resolve_local(g, e, at)
    if isinstance(e, ast.Call) and \
            dotted(e.func).split('.')[-1] == '_pilot_state_value' and e.args:
        return pilot_entry(resolve_local(g, e.args[0], at), 'state') is not None
    return False


def _unchain(atom, pol):
    """a <= b <= c holding  ->  [a <= b, b <= c]"""
    if isinstance(atom, ast.Compare) and len(atom.ops) > 1 and pol:
        out = []
        left = atom.left
        for op, right in zip(atom.ops, atom.comparators):
            out.append(ast.Compare(left=left, ops=[op], comparators=[right]))
            left = right
        return out
    return [atom]


def classify_bf_guard(prog, f, g, atom, pol, at, added):
    """(kind, relation that holds on the edge as 'value REL bound' / verdict)
    kind in role / start / stop / hwm / None"""
    r = classify_role_atom(prog, f, g, atom, pol, at, added)
    if r:
        return ('role', r)
    names = {n.id for n in walk(atom) if isinstance(n, ast.Name)}
    if isinstance(atom, ast.Compare) and len(atom.ops) == 1:
        op = atom.ops[0]
        l, rr = atom.left, atom.comparators[0]
        for kind, bound in (('start', '_BF_START_VAL'),
                            ('stop', '_BF_STOP_VAL')):
            for a, b, o in ((l, rr, type(op)), (rr, l, _flip(op))):
                if isinstance(b, ast.Name) and b.id == bound and \
                        _state_value_of_pilot(g, a, at) and o is not None:
                    rel = _holds_when(o(), pol)       # value REL bound
                    good = {'start': ast.GtE, 'stop': ast.LtE}[kind]
                    return (kind, 'ok' if rel is good else 'wrong')
        # used / hwm
        for a, b, o in ((l, rr, type(op)), (rr, l, _flip(op))):
            ra, rb = resolve_local(g, a, at), resolve_local(g, b, at)
            if info_field(ra, 'used') and info_field(rb, 'hwm') and \
                    o is not None:
                rel = _holds_when(o(), pol)           # used REL hwm
                return ('hwm', rel)
    for kind, bound in (('start', '_BF_START_VAL'), ('stop', '_BF_STOP_VAL')):
        if bound in names:
            return (kind, 'unknown')
    src = unparse(resolve_local(g, atom, at))
    if "['hwm']" in src or "['used']" in src:
        return ('hwm', 'unknown')
    if "['role']" in src:
        return ('role', 'unknown')
    return (None, None)


def r12_5(prog, rep, rid='R12.5'):
    rep.rule(rid, 'Backfilling: a pilot becomes a candidate only with role '
             'ADDED, state within [START, STOP] and used < hwm; a pilot that '
             'reaches its mark is no candidate for the next task', minimum=5)
    added, removed = role_consts(prog)
    m = prog.module(BF[0])
    for nm in ('_BF_START_VAL', '_BF_STOP_VAL'):
        if nm not in m.assigns:
            raise AnalysisError('anchor constant %s::%s not found' % (BF[0], nm))
    f = prog.method(BF[0], BF[1], '_schedule_tasks')
    rep.saw(f)
    g = cfg_of(f)
    smap = I.stmt_node_map(g)
    # candidate list: local list filled from a loop over self._pids
    cands = []
    for n in g.nodes:
        if n.kind != 'stmt' or n.ast is None:
            continue
        for c in calls_in(n.ast):
            if isinstance(c.func, ast.Attribute) and c.func.attr == 'append' \
                    and isinstance(c.func.value, ast.Name) and c.args and \
                    isinstance(c.args[0], ast.Name):
                h = enclosing_for(g, n, c.args[0].id)
                if h is not None and derive(g, h.ast.iter, h.id) in (
                        'pids', 'pilots'):
                    cands.append((n, c, h))
    if not cands:
        raise AnalysisError('UNRECOGNISED-IDIOM %s: no candidate list filled '
                            'from self._pids' % f.where)
    for n, c, h in cands:
        cname = c.func.value.id
        found = {}
        for tid, lab in guards(g, n.id, start=iter_start(g, h.id)):
            for atom in _unchain(g.nodes[tid].ast, lab == 'T'):
                kind, v = classify_bf_guard(prog, f, g, atom, lab == 'T', tid,
                                            added)
                if kind:
                    found.setdefault(kind, []).append((v, atom, lab))
        spec = [
            ('role', 'role == ADDED', 'a pilot that was removed (role REMOVED) '
             'or only seen in a state update (role None) is a candidate',
             'remove_pilots(p1) sets the role, a concurrent scheduling pass '
             'still finds p1 in self._pids: a task is bound to the removed p1'),
            ('start', 'state value >= _BF_START_VAL', 'a pilot that is not yet '
             'in the start state (or exactly in it, for a wrong operator) is '
             'treated wrongly', 'pilot p1 is PMGR_ACTIVE (== start state) but '
             'is skipped, or p1 is still PMGR_LAUNCHING and gets tasks'),
            ('stop', 'state value <= _BF_STOP_VAL', 'a pilot beyond the stop '
             'state (final) is a candidate, or an active one is skipped',
             'pilot p1 is FAILED: tasks are still bound to it'),
            ('hwm', 'used < hwm', 'a pilot that has reached its high-water '
             'mark is a candidate', 'pilot with 10 cores, hwm 20, used 20: '
             'another task is assigned to it'),
        ]
        for kind, text, effect, hist in spec:
            hits = found.get(kind, [])
            verd = []
            for v, atom, lab in hits:
                if kind == 'hwm' and v not in ('unknown',):
                    v = 'ok' if v is ast.Lt else 'wrong'
                verd.append((v, atom, lab))
            if any(v == 'unknown' for v, _, _ in verd) and \
                    not any(v == 'wrong' for v, _, _ in verd):
                a = [x for x in verd if x[0] == 'unknown'][0]
                raise AnalysisError('UNRECOGNISED-IDIOM %s: `%s` is guarded by '
                                    '`%s`, a %s test the recogniser does not '
                                    'know' % (f.where, short(c, 40),
                                              short(a[1], 60), kind))
            wrong = [x for x in verd if x[0] == 'wrong']
            good  = [x for x in verd if x[0] == 'ok']
            if wrong:
                v, atom, lab = wrong[0]
                rep.bad(rid, f, '%s [%s: %s taken when %s]'
                        % (short(c, 40), kind, unparse(atom), lab == 'T'),
                        'Backfilling._schedule_tasks: the candidate filter '
                        '`%s` (taken when %s) does not establish `%s`: %s'
                        % (short(atom, 60), lab == 'T', text, effect),
                        f.loc(atom), history=hist)
            elif good:
                rep.ok(rid, f, 'Backfilling: `%s` is control dependent on %s '
                       '(`%s`)' % (short(c, 40), text, short(good[0][1], 50)),
                       f.loc(c))
            else:
                rep.bad(rid, f, '%s [no test: %s]' % (short(c, 40), kind),
                        'Backfilling._schedule_tasks: `%s` is not control '
                        'dependent on `%s`: %s' % (short(c, 40), text, effect),
                        f.loc(c), history=hist)
        # a pilot reaching its mark is removed (or the assignment itself is
        # guarded by the strict test)
        credits = [x for x in g.nodes if x.kind == 'stmt' and
                   isinstance(x.ast, ast.AugAssign) and
                   isinstance(x.ast.op, ast.Add) and
                   info_field(resolve_local(g, x.ast.target, x.id), 'used')]
        if not credits:
            raise AnalysisError('UNRECOGNISED-IDIOM %s: no `info[\'used\'] += '
                                '..`' % f.where)
        for cr in credits:
            inner = None
            for hh in reversed(cr.loops):
                if g.nodes[hh].kind == 'for' and \
                        derive(g, g.nodes[hh].ast.iter, hh) in ('pids',
                                                                'pilots'):
                    inner = g.nodes[hh]
                    break
            if inner is None:
                raise AnalysisError('UNRECOGNISED-IDIOM %s: the credit `%s` is '
                                    'not inside a loop over candidate pilots'
                                    % (f.where, short(cr.ast, 40)))
            strict = False
            for tid, lab in guards(g, cr.id, start=iter_start(g, inner.id)):
                kind, v = classify_bf_guard(prog, f, g, g.nodes[tid].ast,
                                            lab == 'T', tid, added)
                if kind == 'hwm' and v is ast.Lt:
                    strict = True
            removed_ok = False
            pv = inner.ast.target.id if isinstance(inner.ast.target, ast.Name) \
                else None
            for x in g.nodes:
                if x.kind != 'stmt' or x.ast is None:
                    continue
                for cc in calls_in(x.ast):
                    if isinstance(cc.func, ast.Attribute) and \
                            cc.func.attr in ('remove', 'discard') and \
                            isinstance(cc.func.value, ast.Name) and \
                            cc.func.value.id == cname and cc.args and \
                            isinstance(cc.args[0], ast.Name) and \
                            cc.args[0].id == pv:
                        gs = guards(g, x.id, start=nsucc(g, cr.id)[0])
                        kinds = [classify_bf_guard(prog, f, g, g.nodes[t].ast,
                                                   l == 'T', t, added)
                                 for t, l in gs]
                        if x.id in g.reachable(nsucc(g, cr.id)) and \
                                all(k == 'hwm' and v is ast.GtE
                                    for k, v in kinds) and kinds:
                            removed_ok = True
            rep.check(strict or removed_ok, rid, f,
                      'Backfilling: after `%s` a pilot with used >= hwm leaves '
                      'the candidates (or the assignment is guarded by used < '
                      'hwm)' % short(cr.ast, 40),
                      construct='%s [full pilot leaves the candidates]'
                      % short(cr.ast, 40),
                      message='Backfilling._schedule_tasks: after the credit '
                      '`%s` the pilot is neither removed from %r when '
                      'used >= hwm nor is the assignment guarded by the strict '
                      'test used < hwm: a pilot exactly at its high-water mark '
                      'receives a further task' % (short(cr.ast, 40), cname),
                      loc=f.loc(cr.ast),
                      history='pilot with hwm 20 and used 10; two waiting '
                      'tasks of 10 cores and one more: the first brings used '
                      'to 20 == hwm, the second is still assigned to it')


# ------------------------------------------------------------------------------
# R12.6  usage symmetry
#
def _canon(e, tvars):
    if isinstance(e, ast.BinOp) and isinstance(e.op, (ast.Mult, ast.Add)):
        sym = '*' if isinstance(e.op, ast.Mult) else '+'
        parts = []

        def flat(x):
            if isinstance(x, ast.BinOp) and type(x.op) is type(e.op):
                flat(x.left)
                flat(x.right)
            else:
                parts.append(_canon(x, tvars))
        flat(e)
        return '(' + sym.join(sorted(parts)) + ')'
    if isinstance(e, ast.Name) and e.id in tvars:
        return '$task'
    if isinstance(e, ast.Subscript):
        return '%s[%s]' % (_canon(e.value, tvars), unparse(e.slice))
    if isinstance(e, ast.Attribute):
        return '%s.%s' % (_canon(e.value, tvars), e.attr)
    return unparse(e)


def _usage_updates(prog, f, op):
    g = cfg_of(f)
    out = []
    for x in g.nodes:
        if x.kind == 'stmt' and isinstance(x.ast, ast.AugAssign) and \
                isinstance(x.ast.op, op) and \
                info_field(resolve_local(g, x.ast.target, x.id), 'used'):
            val = resolve_local(g, x.ast.value, x.id)
            tv = {n.id for n in walk(val) if isinstance(n, ast.Name)
                  and isinstance(n.ctx, ast.Load)}
            loopvars = set()
            for h in x.loops:
                if g.nodes[h].kind == 'for':
                    loopvars |= set(stores_in_target(g.nodes[h].ast.target))
            out.append((x, _canon(val, tv & loopvars), g))
    return out


def r12_6(prog, rep, rid='R12.6'):
    rep.rule(rid, "Backfilling: info['used'] is credited and debited by the "
             'same expression; the debit happens once per task (done test '
             'before, done.append on the same path)', minimum=2)
    fs = prog.method(BF[0], BF[1], '_schedule_tasks')
    fu = prog.method(BF[0], BF[1], 'update_tasks')
    rep.saw(fs)
    rep.saw(fu)
    cr = _usage_updates(prog, fs, ast.Add)
    db = _usage_updates(prog, fu, ast.Sub)
    if not cr or not db:
        raise AnalysisError("UNRECOGNISED-IDIOM %s: credit/debit of "
                            "info['used'] not found (%d/%d)"
                            % (BF[0], len(cr), len(db)))
    for d, dexpr, g in db:
        same = any(dexpr == cexpr for _, cexpr, _ in cr)
        rep.check(same, rid, fu, "Backfilling: the debit `%s` subtracts what "
                  "_schedule_tasks added (%s)" % (short(d.ast, 50), dexpr),
                  construct='%s [same expression as the credit]'
                  % short(d.ast, 70),
                  message="Backfilling.update_tasks debits info['used'] by %s "
                  "but _schedule_tasks credits %s: the usage figure of a pilot "
                  "does not return to zero when all its tasks have finished "
                  "(or runs negative and raises)"
                  % (dexpr, ' / '.join(c for _, c, _ in cr)), loc=fu.loc(d.ast),
                  history='one task with ranks=2, cores_per_rank=4 runs and '
                  "finishes on a pilot: info['used'] != 0 afterwards")
        # once per uid
        h = None
        for hh in reversed(d.loops):
            if g.nodes[hh].kind == 'for':
                h = g.nodes[hh]
                break
        if h is None:
            raise AnalysisError('UNRECOGNISED-IDIOM %s: debit outside of a '
                                'loop over tasks' % fu.where)
        start = iter_start(g, h.id)
        tested = None
        for tid, lab in guards(g, d.id, start=start):
            a = g.nodes[tid].ast
            if isinstance(a, ast.Compare) and len(a.ops) == 1 and \
                    isinstance(a.ops[0], (ast.In, ast.NotIn)) and \
                    info_field(resolve_local(g, a.comparators[0], tid), 'done'):
                fresh = isinstance(a.ops[0], ast.NotIn) == (lab == 'T')
                tested = (a, fresh)
        apps = []
        for x in g.nodes:
            if x.kind != 'stmt' or x.ast is None:
                continue
            for cc in calls_in(x.ast):
                if isinstance(cc.func, ast.Attribute) and \
                        cc.func.attr in ('append', 'add') and cc.args and \
                        info_field(resolve_local(g, cc.func.value, x.id),
                                   'done') and tested and \
                        unparse(cc.args[0]) == unparse(tested[0].left):
                    apps.append(x.id)
        # the append is on every path through the debit (before or after it)
        before = bool(apps) and d.id not in reach_noeffect(g, [start], apps)
        r = reach_noeffect(g, nsucc(g, d.id), apps)
        after = bool(apps) and h.id not in r and g.exit.id not in r
        okay = bool(tested) and tested[1] and (before or after)
        rep.check(okay, rid, fu, "Backfilling: the debit is guarded by `uid not "
                  "in info['done']` and the uid is appended to info['done'] on "
                  "the same path", construct='%s [once per task]'
                  % short(d.ast, 70),
                  message="Backfilling.update_tasks: the debit `%s` is %s: "
                  "every further state notification of the same task debits "
                  "again" % (short(d.ast, 50),
                             "not guarded by a (correctly oriented) test of the "
                             "uid against info['done']" if not (tested and
                                                                tested[1])
                             else "not accompanied by info['done'].append(uid) "
                             "on every path"), loc=fu.loc(d.ast),
                  history='a task passes AGENT_STAGING_OUTPUT_PENDING and then '
                  'DONE: both notifications are beyond AGENT_EXECUTING, used is '
                  'debited twice, goes negative and update_tasks raises')


# ------------------------------------------------------------------------------
# R12.7  round robin index
#
def _is_idx(e):
    return is_self_attr(e, '_idx')


def _is_len_pids(e):
    return isinstance(e, ast.Call) and dotted(e.func) == 'len' and \
        len(e.args) == 1 and is_self_attr(e.args[0], '_pids')


def r12_7(prog, rep, rid='R12.7'):
    rep.rule(rid, 'RoundRobin: the index into self._pids is wrapped before it '
             'is used and advanced exactly once per assignment', minimum=2)
    f = prog.method(RR[0], RR[1], '_schedule_tasks')
    rep.saw(f)
    g = cfg_of(f)
    smap = I.stmt_node_map(g)
    uses = []
    for n in walk(f.node):
        if isinstance(n, ast.Subscript) and is_self_attr(n.value, '_pids') and \
                isinstance(n.ctx, ast.Load) and \
                any(_is_idx(x) for x in walk(n.slice)):
            uses.append(n)
    if not uses:
        raise AnalysisError('UNRECOGNISED-IDIOM %s: no self._pids[self._idx]'
                            % f.where)
    writes = [smap[id(st)] for k, t, st in I.stores(f.node)
              if _is_idx(t) and id(st) in smap]
    for u in uses:
        un = smap[id(u)]
        s = u.slice
        okay, why = False, ''
        if isinstance(s, ast.BinOp) and isinstance(s.op, ast.Mod) and \
                _is_len_pids(s.right):
            okay = True
        elif _is_idx(s):
            wraps = []
            for t in g.nodes:
                if t.kind != 'test' or not isinstance(t.ast, ast.Compare) or \
                        len(t.ast.ops) != 1:
                    continue
                l, r, op = t.ast.left, t.ast.comparators[0], type(t.ast.ops[0])
                if _is_len_pids(l) and _is_idx(r):
                    l, r, op = r, l, _flip(t.ast.ops[0])
                if _is_idx(l) and _is_len_pids(r) and op is ast.GtE:
                    wraps.append(t)
            start = iter_start(g, un.loops[-1]) if un.loops else g.entry.id
            for w in wraps:
                resets = [x.id for x in writes if isinstance(x.ast, ast.Assign)
                          and isinstance(x.ast.value, ast.Constant) and
                          x.ast.value.value == 0]
                tsucc = [e.dst for e in g.succ[w.id] if e.label == 'T']
                c1 = un.id not in g.reachable(start, skip_nodes={w.id})
                c2 = bool(resets) and bool(tsucc) and un.id not in \
                    reach_noeffect(g, tsucc, resets)
                others = [x for x in writes if x.id not in resets]
                c3 = all(un.id not in g.reachable(nsucc(g, x.id),
                                                  skip_nodes={w.id})
                         for x in others)
                if c1 and c2 and c3:
                    okay = True
            why = 'no test `self._idx >= len(self._pids)` with a reset to 0 ' \
                  'lies on every path to the use (after the last change of ' \
                  'the index)'
        else:
            raise AnalysisError('UNRECOGNISED-IDIOM %s: index expression `%s`'
                                % (f.where, short(s, 40)))
        rep.check(okay, rid, f, 'RoundRobin: `%s` is preceded by the wrap of '
                  'self._idx on every path' % short(u, 40), construct=u,
                  message='RoundRobin._schedule_tasks: `%s` is used although %s'
                  % (short(u, 40), why), loc=f.loc(u),
                  history='three pilots, self._idx == 3 after a batch; two '
                  'pilots are removed; the next task indexes self._pids[3]: '
                  'IndexError, the task is reported FAILED although a pilot '
                  'is available')
        # advanced exactly once per completed assignment
        if not un.loops:
            raise AnalysisError('UNRECOGNISED-IDIOM %s: index use outside of '
                                'the task loop' % f.where)
        head = un.loops[-1]
        start, stop, stop_edge = loop_slice(g, head)
        incs = set()
        for x in writes:
            a = x.ast
            if isinstance(a, ast.AugAssign) and isinstance(a.op, ast.Add) and \
                    isinstance(a.value, ast.Constant) and a.value.value == 1:
                incs.add(x.id)
            elif isinstance(a, ast.Assign) and any(
                    isinstance(b, ast.BinOp) and isinstance(b.op, ast.Add) and
                    _is_idx(b.left) and isinstance(b.right, ast.Constant) and
                    b.right.value == 1 for b in walk(a.value)):
                incs.add(x.id)
            elif isinstance(a, ast.AugAssign):
                raise AnalysisError('UNRECOGNISED-IDIOM %s: `%s`'
                                    % (f.where, short(a, 40)))
        asg = {smap[id(c)].id for c in assign_calls(f) if id(c) in smap}

        def transfer(node, edge, st):
            n, done, exc = st
            if edge.label == 'exc':
                return (n, done, True)
            if node.id in incs:
                n = min(2, n + 1)
            if node.id in asg:
                done = True
            return (n, done, exc)
        ex = Exploration(g, start, (0, False, False), transfer, stop=stop,
                         stop_edge=stop_edge)
        # iterations which raised after the assignment report the task FAILED
        bad = [t for t in ex.terminals if t.state[1] and not t.state[2]
               and t.state[0] != 1]
        rep.check(not bad, rid, f, 'RoundRobin: every iteration that assigns a '
                  'task advances self._idx exactly once',
                  construct='self._idx advanced once per assignment',
                  message='RoundRobin._schedule_tasks: an iteration that '
                  'assigns a task advances self._idx %s: the batch is not '
                  'spread evenly over the pilots' % (
                      'not at all' if bad and bad[0].state[0] == 0 else
                      'more than once'), loc=f.loc(u),
                  history='two pilots and a batch of four tasks: all four go '
                  'to the same pilot')


# ------------------------------------------------------------------------------
#
def run(prog, rep, tier):
    rep.decided = ('the pilot bound by both _schedule_tasks derives from '
        'self._pids, which grows only in add_pilots and shrinks in '
        'remove_pilots, called by control_cb for the respective command after '
        'the role was stored; every task loop of the three scheduler classes '
        'has exactly one outcome per task and every collected list is handed '
        'on; pools whose content is forwarded are cleared on that path; every '
        'hand-on to TMGR_STAGING_INPUT_PENDING is preceded by _assign_pilot; '
        'backfilling candidates are filtered by role, state window and '
        'high-water mark, full pilots leave the candidates; usage is credited '
        'and debited by the same expression, once per task; the round-robin '
        'index is wrapped before use and advanced once per assignment.')
    rep.undecided = ('interleavings of control messages, state notifications '
        'and the work callback (the three callbacks take different locks); '
        'whether task state notifications of early-bound tasks are consistent '
        "with Backfilling's bookkeeping (observation, unarmed).")
    rep.assumptions = [
        'self.advance either hands all given tasks on or raises before any '
        'effect (DESIGN 2.8)',
        'reaching definitions are computed per local name on the CFG; a local '
        'list derives from self._pids if everything put into it does',
        'inner loops are explored with one iteration (k=1); boolean locals '
        'assigned only True/False are tracked exactly',
        'self._wait_pool and self._early are the only persistent pools of '
        'waiting tasks in the tmgr scheduler classes',
    ]
    r12_1(prog, rep)
    r12_2(prog, rep)
    r12_3(prog, rep)
    n = r12_4(prog, rep)
    if n < 5:
        raise AnalysisError('R12.4: only %d hand-on sites to '
                            'TMGR_STAGING_INPUT_PENDING found (expected >= 5)'
                            % n)
    r12_5(prog, rep)
    r12_6(prog, rep)
    r12_7(prog, rep)
    r12_8(prog, rep)
    if tier == 'thorough':
        rep.rule('R12.4s', 'sweep of R12.4 over every class of the package that '
                 'hands on to TMGR_STAGING_INPUT_PENDING', minimum=0)
        anchors = {prog.cls(*x) for x in (BASE, RR, BF)}
        extra = [k for k in prog.all_classes() if k not in anchors]
        k = r12_4(prog, rep, rid='R12.4s', classes=extra)
        rep.stat('sweep_sites', k)
        rep.stat('sweep_classes', len(extra))


# ------------------------------------------------------------------------------
# self-test variants
#
_B = 'tmgr/scheduler/base.py'
_R = 'tmgr/scheduler/round_robin.py'
_F = 'tmgr/scheduler/backfilling.py'

# proposed fix (see /verif/proposed_fixes/F12.diff)
_ADV = ("                        self.advance(early_tasks, rps.TMGR_STAGING_INPUT_PENDING,\n"
        "                                     publish=True, push=True)\n")
FIX_F12 = (_B, _ADV + "\n            # let the scheduler know\n",
           _ADV + "\n"
           "                        # these tasks are on their way now: forget them, or\n"
           "                        # a pilot which gets removed and added again would\n"
           "                        # receive them a second time\n"
           "                        del self._early[pid]\n"
           "\n            # let the scheduler know\n")

_EARLY = ("                    pilot = self._pilots.get(pid, {}).get('pilot')\n"
          "                    if pilot:\n")

_START = ("                if  rps._pilot_state_value(state) < _BF_START_VAL:\n"
          "                    # not eligible, yet\n                    continue\n\n"
          "                if  rps._pilot_state_value(state) > _BF_STOP_VAL:\n"
          "                    # not ligible anymore")

MUTATIONS = [
    dict(name='R12.1 Backfilling draws candidates from all known pilots, no role test',
         rules=('R12.1',), edits=[
        (_F, "            for pid in self._pids:\n\n                info  = self._pilots[pid]['info']",
             "            for pid in self._pilots:\n\n                info  = self._pilots[pid]['info']"),
        (_F, "                if role != ADDED:\n                    continue\n\n", "")]),
    dict(name='R12.1 RoundRobin.add_pilots records the pids only when tasks wait',
         rules=('R12.1',), edits=[
        (_R, "            self._pids += pids\n\n            if self._wait_pool:\n",
             "            if self._wait_pool:\n                self._pids += pids\n")]),
    dict(name='R12.1 Backfilling.remove_pilots forgets to drop the pid',
         rules=('R12.1',), edits=[
        (_F, "                self._pids.remove(pid)\n                # FIXME: cancel tasks\n",
             "                # FIXME: cancel tasks\n")]),
    dict(name='R12.1 RoundRobin.update_pilots re-adds pilots it hears about',
         rules=('R12.1',), edits=[
        (_R, "        # FIXME: we don't react on pilot state changes right now\n        pass\n",
             "        # FIXME: we don't react on pilot state changes right now\n        self._pids += [pid for pid in pids if pid not in self._pids]\n")]),
    dict(name='R12.1 control_cb does not mark added pilots as ADDED',
         rules=('R12.1',), edits=[
        (_B, "                    self._pilots[pid]['role']  = ADDED\n", "")]),
    dict(name='R12.1 control_cb listens for a misspelled remove command',
         rules=('R12.1',), edits=[
        (_B, "        elif cmd == 'remove_pilots':\n", "        elif cmd == 'remove_pilot':\n")]),
    dict(name='R12.1 control_cb marks removed pilots after telling the scheduler',
         rules=('R12.1',), edits=[
        (_B, "                    self._pilots[pid]['role'] = REMOVED\n                    self._log.debug('removed pilot: %s', self._pilots[pid])\n\n            # let the scheduler know\n            self.remove_pilots(pids)\n",
             "                    self._log.debug('removed pilot: %s', self._pilots[pid])\n\n            # let the scheduler know\n            self.remove_pilots(pids)\n\n            for pid in pids:\n                self._pilots[pid]['role'] = REMOVED\n")]),
    dict(name='R12.2 work drops tasks without a pilot', rules=('R12.2',), edits=[
        (_B, "                else:\n                    to_schedule.append(task)\n", "")]),
    dict(name='R12.2 RoundRobin._work: unknown pilot falls through', rules=('R12.2',), edits=[
        (_R, "                        failed.append(task)\n                        continue\n",
             "                        failed.append(task)\n")],
         note='without the continue the next statement raises KeyError - still two outcomes on the modelled path'),
    dict(name='R12.2 RoundRobin._schedule_tasks: no return after parking the tasks',
         rules=('R12.2',), edits=[
        (_R, "                    self._wait_pool += tasks\n                    return\n",
             "                    self._wait_pool += tasks\n")]),
    dict(name='R12.2 Backfilling: success flag tested with the wrong polarity',
         rules=('R12.2',), edits=[
        (_F, "                if not success:\n", "                if success:\n")]),
    dict(name='R12.2 RoundRobin._work: unscheduled tasks dropped when no pilot is known',
         rules=('R12.2',), edits=[
        (_R, "        if unscheduled: self._schedule_tasks(unscheduled)",
             "        if unscheduled and self._pids: self._schedule_tasks(unscheduled)")]),
    dict(name='R12.2 RoundRobin._schedule_tasks: failed tasks not reported',
         rules=('R12.2',), edits=[
        (_R, "            self.advance(tasks_fail, rps.FAILED, publish=True, push=False)\n", "")]),
    dict(name='R12.3 RoundRobin.add_pilots does not empty the wait pool',
         rules=('R12.3',), edits=[
        (_R, "                self._wait_pool = list()\n", "")]),
    dict(name='R12.3 RoundRobin.add_pilots empties the pool after scheduling',
         rules=('R12.3',), edits=[
        (_R, "                self._wait_pool = list()\n                self._schedule_tasks(tasks)\n",
             "                self._schedule_tasks(tasks)\n                self._wait_pool = list()\n")],
         note='_schedule_tasks may park the tasks again; the late reset loses them'),
    dict(name='R12.3 Backfilling keeps scheduled tasks in the wait pool',
         rules=('R12.3',), edits=[
        (_F, "            self._wait_pool = unscheduled\n", "")]),
    dict(name='R12.4 work forwards early-bound tasks without _assign_pilot',
         rules=('R12.4',), edits=[
        (_B, "                        self._assign_pilot(task, pilot)\n                        self.advance(task, rps.TMGR_STAGING_INPUT_PENDING,",
             "                        self.advance(task, rps.TMGR_STAGING_INPUT_PENDING,")]),
    dict(name='R12.4 RoundRobin._work schedules without _assign_pilot',
         rules=('R12.4',), edits=[
        (_R, "                    self._assign_pilot(task, pilot)\n                    scheduled.append(task)\n",
             "                    scheduled.append(task)\n")]),
    dict(name='R12.4 control_cb assigns only early tasks without a pilot entry',
         rules=('R12.4',), edits=[
        (_B, "                        for task in early_tasks:\n                            self._assign_pilot(task, pilot)\n",
             "                        for task in early_tasks:\n                            if not task.get('pilot'):\n                                self._assign_pilot(task, pilot)\n")]),
    dict(name='R12.4 RoundRobin._schedule_tasks: task recorded as ok before it is assigned',
         rules=('R12.4',), edits=[
        (_R, "                    # we assign the task to the pilot.\n                    self._assign_pilot(task, pilot)\n\n                    tasks_ok.append(task)\n",
             "                    tasks_ok.append(task)\n\n                    # we assign the task to the pilot.\n                    self._assign_pilot(task, pilot)\n")],
         note='if _assign_pilot raises the task is in tasks_ok and in tasks_fail'),
    dict(name='R12.5 role test dropped', rules=('R12.5',), edits=[
        (_F, "                if role != ADDED:\n                    continue\n\n", "")]),
    dict(name='R12.5 role test inverted', rules=('R12.5',), edits=[
        (_F, "                if role != ADDED:\n", "                if role == ADDED:\n")]),
    dict(name='R12.5 start window excludes the start state itself', rules=('R12.5',), edits=[
        (_F, _START, _START.replace("< _BF_START_VAL", "<= _BF_START_VAL"))]),
    dict(name='R12.5 stop window admits nothing at the stop state', rules=('R12.5',), edits=[
        (_F, "                if  rps._pilot_state_value(state) > _BF_STOP_VAL:\n                    # not ligible anymore",
             "                if  rps._pilot_state_value(state) >= _BF_STOP_VAL:\n                    # not ligible anymore")]),
    dict(name='R12.5 stop window test dropped', rules=('R12.5',), edits=[
        (_F, "                if  rps._pilot_state_value(state) > _BF_STOP_VAL:\n                    # not ligible anymore\n                    continue\n\n", "")]),
    dict(name='R12.5 pilot exactly at its mark stays a candidate', rules=('R12.5',), edits=[
        (_F, "                if info['used'] >= info['hwm']:\n                    # pilot is full",
             "                if info['used'] > info['hwm']:\n                    # pilot is full")]),
    dict(name='R12.5 full pilot not removed from the candidates', rules=('R12.5',), edits=[
        (_F, "                        if info['used'] >= info['hwm']:\n                            pids.remove(pid)\n", "")]),
    dict(name='R12.6 debit ignores cores_per_rank', rules=('R12.6',), edits=[
        (_F, "                info['used'] -= task['description']['ranks'] \\\n                              * task['description']['cores_per_rank']\n",
             "                info['used'] -= task['description']['ranks']\n")]),
    dict(name='R12.6 done test dropped', rules=('R12.6',), edits=[
        (_F, "                if uid in info['done']:\n                    # we don't need further state udates\n                    self._log.debug('upd task %s in done', uid)\n                    continue\n\n", "")]),
    dict(name='R12.6 done list never filled', rules=('R12.6',), edits=[
        (_F, "                info['done'].append(uid)\n", "")]),
    dict(name='R12.7 index not wrapped', rules=('R12.7',), edits=[
        (_R, "                    if self._idx >= len(self._pids):\n                        self._idx = 0\n\n", "")]),
    dict(name='R12.7 wrap test off by one', rules=('R12.7',), edits=[
        (_R, "                    if self._idx >= len(self._pids):", "                    if self._idx > len(self._pids):")]),
    dict(name='R12.7 index never advanced', rules=('R12.7',), edits=[
        (_R, "                    self._idx += 1\n\n", "")]),
    dict(name='R12.7 index advanced twice per task', rules=('R12.7',), edits=[
        (_R, "                    tasks_ok.append(task)\n", "                    tasks_ok.append(task)\n                    self._idx += 1\n")]),
    dict(name='R12.8 work: early binding by membership in self._pilots (placeholder entries)',
         rules=('R12.8',), edits=[
        (_B, _EARLY, "                    if pid in self._pilots:\n                        pilot = self._pilots[pid]['pilot']\n")]),
    dict(name='R12.8 work: None test inverted', rules=('R12.8',), edits=[
        (_B, _EARLY, "                    pilot = self._pilots.get(pid, {}).get('pilot')\n                    if pilot is None:\n")]),
    dict(name='R12.8 work: tests the task\'s pilot id instead of the pilot object',
         rules=('R12.8',), edits=[
        (_B, _EARLY, "                    pilot = self._pilots.get(pid, {}).get('pilot')\n                    if pid:\n")]),
    dict(name='R12.8 work hands tasks of unknown pilots to the scheduler (RoundRobin._work branch becomes live)',
         rules=('R12.8',), edits=[
        (_B, "                        if pid not in self._early:\n                            self._early[pid] = list()\n                        self._early[pid].append(task)\n",
             "                        to_schedule.append(task)\n")]),
]

SILENT = [
    dict(name='work: pilot object tested against None', edits=[
        (_B, _EARLY, "                    pilot = self._pilots.get(pid, {}).get('pilot')\n                    if pilot is not None:\n")]),
    dict(name='work: early binding guarded by membership and role == ADDED', edits=[
        (_B, _EARLY, "                    if  pid in self._pilots \\\n                    and self._pilots[pid]['role'] == ADDED:\n                        pilot = self._pilots[pid]['pilot']\n")]),
    dict(name='work: entry fetched first, pilot object tested', edits=[
        (_B, _EARLY, "                    pilot = None\n                    if pid in self._pilots:\n                        pilot = self._pilots[pid]['pilot']\n                    if pilot:\n")]),
    dict(name='F12 repaired (del after the hand-on)', edits=[FIX_F12]),
    dict(name='F12 repaired by popping the entry at the source', edits=[
        (_B, "                    early_tasks = self._early.get(pid)\n",
             "                    early_tasks = self._early.pop(pid, None)\n")]),
    dict(name='RoundRobin.add_pilots uses extend', edits=[
        (_R, "            self._pids += pids\n", "            self._pids.extend(pids)\n")]),
    dict(name='Backfilling iterates copies of self._pids', edits=[
        (_F, "            for pid in self._pids:\n\n                info  = self._pilots[pid]['info']",
             "            for pid in list(self._pids):\n\n                info  = self._pilots[pid]['info']")]),
    dict(name='RoundRobin._work: if/else instead of early continue', edits=[
        (_R, "                        failed.append(task)\n                        continue\n\n                    pilot = self._pilots[pid]['pilot']\n\n                    self._assign_pilot(task, pilot)\n                    scheduled.append(task)\n",
             "                        failed.append(task)\n\n                    else:\n                        pilot = self._pilots[pid]['pilot']\n\n                        self._assign_pilot(task, pilot)\n                        scheduled.append(task)\n")]),
    dict(name='Backfilling: hwm filter as negated strict test', edits=[
        (_F, "                if info['used'] >= info['hwm']:\n                    # pilot is full",
             "                if not info['used'] < info['hwm']:\n                    # pilot is full")]),
    dict(name='Backfilling: inner assignment guard strict', edits=[
        (_F, "                    if info['used'] <= info['hwm']:\n", "                    if info['used'] < info['hwm']:\n")]),
    dict(name='Backfilling: role filter as positive nested test', edits=[
        (_F, "                if role != ADDED:\n                    continue\n\n                if  rps._pilot_state_value(state) < _BF_START_VAL:\n                    # not eligible, yet\n                    continue\n\n                if  rps._pilot_state_value(state) > _BF_STOP_VAL:\n                    # not ligible anymore\n                    continue\n\n                if info['used'] >= info['hwm']:\n                    # pilot is full\n                    continue\n\n                pids.append(pid)\n",
             "                if ADDED == role:\n                    value = rps._pilot_state_value(state)\n                    if  _BF_START_VAL <= value <= _BF_STOP_VAL \\\n                    and info['hwm'] > info['used']:\n                        pids.append(pid)\n")]),
    dict(name='Backfilling: credit factors swapped', edits=[
        (_F, "                cores   = task['description']['ranks'] \\\n                        * task['description']['cores_per_rank']\n",
             "                descr   = task['description']\n                cores   = descr['cores_per_rank'] * descr['ranks']\n")]),
    dict(name='Backfilling: for/else instead of the success flag', edits=[
        (_F, "                success = False\n", ""),
        (_F, "                        success = True\n", ""),
        (_F, "                if not success:\n                    # we did not find a useable pilot for this task -- keep it\n",
             "                else:\n                    # we did not find a useable pilot for this task -- keep it\n")]),
    dict(name='RoundRobin: index advanced after the assignment', edits=[
        (_R, "                    self._idx += 1\n\n", ""),
        (_R, "                    tasks_ok.append(task)\n", "                    tasks_ok.append(task)\n                    self._idx += 1\n")]),
    dict(name='RoundRobin: wrap by modulo at the use', edits=[
        (_R, "                    if self._idx >= len(self._pids):\n                        self._idx = 0\n\n", ""),
        (_R, "                    pid   = self._pids[self._idx]\n", "                    pid   = self._pids[self._idx % len(self._pids)]\n")]),
    dict(name='RoundRobin: wrap test with the length on the left', edits=[
        (_R, "                    if self._idx >= len(self._pids):", "                    if len(self._pids) <= self._idx:")]),
    dict(name='corpus r2: pools filled through setdefault(..).append', edits=[
        (_B, "                        if pid not in self._early:\n                            self._early[pid] = list()\n                        self._early[pid].append(task)\n",
             "                        self._early.setdefault(pid, list()).append(task)\n"),
        (_B, "            if pid not in self._tasks:\n                self._tasks[pid] = list()\n            self._tasks[pid].append(uid)\n",
             "            self._tasks.setdefault(pid, list()).append(uid)\n")]),
    dict(name='early pool entry rebuilt by concatenation', edits=[
        (_B, "                        if pid not in self._early:\n                            self._early[pid] = list()\n                        self._early[pid].append(task)\n",
             "                        self._early[pid] = self._early.get(pid, []) + [task]\n")]),
    dict(name='corpus r2: work() with inverted tests and early continues', edits=[
        (_B, "                if pid:\n                    # this task is bound already (it is early-bound), so we\n",
             "                if not pid:\n                    to_schedule.append(task)\n                    continue\n\n                if True:\n                    # this task is bound already (it is early-bound), so we\n"),
        (_B, "                else:\n                    to_schedule.append(task)\n", "")]),
]
