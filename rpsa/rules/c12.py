"""C12  Each task is bound to exactly one eligible pilot  (DESIGN 5 / C12)

Anchors: tmgr/scheduler/base.py TMGRSchedulingComponent (control_cb, work,
_assign_pilot), round_robin.py RoundRobin, backfilling.py Backfilling.
"""

import ast
import copy

from ..model import (walk, dotted, call_name, kwarg, unparse, short, UNKNOWN,
                     root_name, AnalysisError, calls_in, stores_in_target)
from ..cfg import cfg_of
from ..flow import Deps, guards, loop_slice, Exploration, const_compare
from .. import idioms as I

BASE = ('tmgr/scheduler/base.py', 'TMGRSchedulingComponent')
RR   = ('tmgr/scheduler/round_robin.py', 'RoundRobin')
BF   = ('tmgr/scheduler/backfilling.py', 'Backfilling')

POOLS = ('_wait_pool', '_early')          # persistent pools of waiting tasks
EMPTY = ('list', 'dict', 'set')


# ------------------------------------------------------------------------------
# helpers
#
def stores_of(node):
    a = node.ast
    if a is None:
        return []
    if node.kind == 'for':
        return stores_in_target(a.target)
    if node.kind != 'stmt':
        return []
    out = []
    if isinstance(a, ast.Assign):
        for t in a.targets:
            out += stores_in_target(t)
    elif isinstance(a, (ast.AugAssign, ast.AnnAssign)):
        out += stores_in_target(a.target)
    return out


def nsucc(g, nid):
    return [e.dst for e in g.succ[nid] if e.label != 'exc']


def defs_reaching(g, name, target):
    """(definition nodes of `name` reaching cfg node `target`, undefined on
    some path)"""
    defs = [n for n in g.nodes if name in stores_of(n)]
    out = []
    for d in defs:
        others = {o.id for o in defs if o is not d}
        r = g.reachable(nsucc(g, d.id), skip_nodes=others - {target})
        if target in r:
            out.append(d)
    r = g.reachable(g.entry.id, skip_nodes={d.id for d in defs} - {target})
    return out, target in r


def reach_noeffect(g, starts, via, stop=()):
    """nodes reachable from `starts` on paths on which no node of `via` takes
    effect (a via node may still be left through its exception edge) and
    which do not enter a node of `stop`"""
    via = set(via)
    seen = set()
    todo = list(starts)
    while todo:
        n = todo.pop()
        if n in seen or n in stop:
            continue
        seen.add(n)
        for e in g.succ[n]:
            if n in via and e.label != 'exc':
                continue
            todo.append(e.dst)
    return seen


def iter_start(g, head):
    return loop_slice(g, head)[0]


STARTUP = ('__init__', 'initialize', '_configure', 'configure')
QUIET   = ('self._log.', 'self._prof.', 'self._rep.', 'self._logger.')
PURE    = ('len', 'bool', 'int', 'str', 'list', 'tuple', 'sorted', 'reversed',
           'enumerate', 'iter', 'set', 'dict', 'min', 'max', 'range', 'zip',
           'isinstance', 'repr', 'id')
MUTATORS = ('append', 'extend', 'insert', 'pop', 'remove', 'clear', 'sort',
            'reverse', 'update', 'setdefault', 'popitem', 'add', 'discard',
            'appendleft', 'popleft')

# facts about the scheduler classes, collected once per run (see _setup):
#   funcs    id(function ast) -> (FuncInfo, [concrete classes that see it])
#   written  attribute -> names of the non start-up methods that store
#            `self.<attribute>` (plain / augmented assignment, del)
#   rebound  as written, without the augmented assignments
#   ctor     attribute -> values assigned to it by the start-up methods
_CTX = {'prog': None, 'funcs': {}, 'written': {}, 'rebound': {}, 'ctor': {}}
_VIEWS = {}


def _setup(prog):
    funcs, written, rebound, ctor = {}, {}, {}, {}
    base = prog.cls(*BASE)
    for rel, cname in (BASE, RR, BF):
        K = prog.cls(rel, cname)
        for mname, m in I.class_methods(prog, K, stop_at=base).items():
            ent = funcs.setdefault(id(m.node), (m, []))
            if K not in ent[1]:
                ent[1].append(K)
        for mname, m in K.methods.items():
            aug = {id(x.target) for x in ast.walk(m.node)
                   if isinstance(x, ast.AugAssign)}
            for x in ast.walk(m.node):
                if isinstance(x, ast.Assign) and mname in STARTUP:
                    for t in x.targets:
                        if is_self_attr(t):
                            ctor.setdefault(t.attr, []).append(x.value)
                if is_self_attr(x) and isinstance(x.ctx, (ast.Store, ast.Del)) \
                        and mname not in STARTUP:
                    written.setdefault(x.attr, set()).add(mname)
                    if id(x) not in aug:
                        rebound.setdefault(x.attr, set()).add(mname)
    _CTX.update(prog=prog, funcs=funcs, written=written, rebound=rebound,
                ctor=ctor)
    _VIEWS.clear()
    _PSTORES.clear()
    del STALE[:]


def is_container_attr(attr):
    """self.<attr> is created as a container by the start-up methods and is
    never re-assigned afterwards (only mutated in place): a local alias of it
    denotes the same object as the attribute, whatever happens in between"""
    vals = _CTX['ctor'].get(attr)
    return bool(vals) and attr not in _CTX['rebound'] and all(
        is_empty_ctor(v) or isinstance(v, (ast.List, ast.Dict, ast.Set))
        for v in vals)


def is_quiet_call(c):
    return isinstance(c, ast.Call) and dotted(c.func).startswith(QUIET)


def is_quiet_stmt(s):
    """logging / profiling / reporting statement: no effect on the property"""
    return isinstance(s, ast.Expr) and (is_quiet_call(s.value) or
                                        isinstance(s.value, ast.Constant))


def first_stmt(body):
    for s in body:
        if not is_quiet_stmt(s):
            return s
    return None


def assigned_value(stmt, name):
    """value expression bound to the plain name by an assignment statement:
    `name = v`, `a = name = v`, `name, b = v, w`  (else None)"""
    if not isinstance(stmt, ast.Assign):
        return None
    for t in stmt.targets:
        if isinstance(t, ast.Name) and t.id == name:
            return stmt.value
        if isinstance(t, (ast.Tuple, ast.List)) and \
                isinstance(stmt.value, (ast.Tuple, ast.List)) and \
                len(t.elts) == len(stmt.value.elts) and \
                not any(isinstance(e, ast.Starred)
                        for e in t.elts + stmt.value.elts):
            for e, v in zip(t.elts, stmt.value.elts):
                if isinstance(e, ast.Name) and e.id == name:
                    return v
    return None


def between(g, a, b):
    """cfg nodes which lie on some path from (after) node a to node b that
    does not pass a again - b itself only if it lies on such a cycle"""
    fwd = g.reachable(nsucc(g, a), skip_nodes={a})
    out = {n for n in fwd if n != b and b in g.reachable(n, skip_nodes={a})}
    if b in fwd and b in g.reachable(nsucc(g, b), skip_nodes={a}):
        out.add(b)
    return out


def attr_writes(g, attr):
    out = set()
    for n in g.nodes:
        if n.ast is None or n.kind in ('while', 'dispatch', 'handler', 'with'):
            continue
        roots = [n.ast.target] if n.kind == 'for' else [n.ast]
        for r in roots:
            if any(is_self_attr(x, attr) and
                   isinstance(x.ctx, (ast.Store, ast.Del)) for x in walk(r)):
                out.add(n.id)
    return out


def loud_calls(g, nid):
    """calls of a cfg node other than logging / profiling and pure builtins"""
    n = g.nodes[nid]
    return [c for c in I.stmt_calls(n) if not is_quiet_call(c) and
            dotted(c.func) not in PURE]


def snapshot_fresh(g, attr, d, at):
    """a value read from self.<attr> at node d is still current at node `at`:
    no store to the attribute and - if other methods store it - no call on a
    path between the two"""
    mid = between(g, d, at)
    if mid & attr_writes(g, attr):
        return False
    fi = _CTX['funcs'].get(id(g.func))
    own = fi[0].name if fi else None
    if _CTX['written'].get(attr, set()) - {own}:
        return not any(loud_calls(g, m) for m in mid)
    return True


def _getter_expr(g, call):
    """`self.m(a, b)` where m (the same function for every concrete class)
    consists of `return <expr>`, possibly after single-assignment locals
    bound to call-free expressions (`d = task['description']`): that
    expression, with the parameters replaced by the arguments and the locals
    by their values.  A static method has no receiver parameter."""
    if not (isinstance(call.func, ast.Attribute) and
            isinstance(call.func.value, ast.Name) and
            call.func.value.id == 'self'):
        return None
    fi = _CTX['funcs'].get(id(g.func))
    prog = _CTX['prog']
    if fi is None or prog is None:
        return None
    f, concretes = fi
    callees = {id(c.node): c for c in
               [prog.resolve_call(f, call, K) for K in concretes]
               if c is not None}
    if len(callees) != 1 or len(concretes) != len(
            [1 for K in concretes if prog.resolve_call(f, call, K)]):
        return None
    callee = list(callees.values())[0]
    body = [s for s in callee.node.body if not is_quiet_stmt(s)]
    ret = body[-1] if body else None
    if not isinstance(ret, ast.Return) or ret.value is None:
        return None
    a = callee.node.args
    if a.vararg or a.kwarg or a.kwonlyargs or a.posonlyargs:
        return None
    deco = [dotted(d) for d in callee.node.decorator_list]
    if [d for d in deco if d not in ('staticmethod', 'classmethod')]:
        return None
    params = [x.arg for x in a.args]
    if 'staticmethod' not in deco:
        params = params[1:]
    lets = []
    for s in body[:-1]:
        # straight-line locals, each bound once to an expression without
        # calls: reading them is reading the expression
        if not (isinstance(s, ast.Assign) and len(s.targets) == 1 and
                isinstance(s.targets[0], ast.Name)):
            return None
        nm = s.targets[0].id
        if nm in params or nm in [k for k, _ in lets] or nm == 'self' or \
                any(isinstance(x, (ast.Call, ast.Lambda, ast.NamedExpr,
                                   ast.Await, ast.Yield, ast.ListComp,
                                   ast.DictComp, ast.SetComp,
                                   ast.GeneratorExp, ast.Dict, ast.List,
                                   ast.Set))
                    for x in ast.walk(s.value)):
            return None
        lets.append((nm, s.value))
    if lets and any(isinstance(x, ast.Name) and x.id in params and
                    isinstance(x.ctx, (ast.Store, ast.Del))
                    for x in ast.walk(callee.node)):
        return None
    if len(call.args) > len(params) or any(isinstance(x, ast.Starred)
                                           for x in call.args):
        return None
    bind = dict(zip(params, call.args))
    for k in call.keywords:
        if k.arg is None or k.arg not in params or k.arg in bind:
            return None
        bind[k.arg] = k.value
    defaults = dict(zip(params[len(params) - len(a.defaults):], a.defaults))
    for p in params:
        if p not in bind:
            if p not in defaults:
                return None
            bind[p] = defaults[p]
    local = {x.id for x in ast.walk(g.func) if isinstance(x, ast.Name) and
             isinstance(x.ctx, (ast.Store, ast.Del))}
    local |= {x.arg for x in g.func.args.args}
    letnames = {k for k, _ in lets}
    for v in [v for _, v in lets] + [ret.value]:
        for x in ast.walk(v):
            if isinstance(x, (ast.Lambda, ast.NamedExpr, ast.Await, ast.Yield,
                              ast.ListComp, ast.DictComp, ast.SetComp,
                              ast.GeneratorExp)):
                return None
            if isinstance(x, ast.Name) and x.id not in bind and \
                    x.id != 'self' and x.id not in letnames and x.id in local:
                return None         # a global of the callee, shadowed here

    class S(ast.NodeTransformer):
        def visit_Name(self, n):
            if n.id in bind and isinstance(n.ctx, ast.Load):
                return copy.deepcopy(bind[n.id])
            return n
    for nm, v in lets:
        bind[nm] = S().visit(copy.deepcopy(v))
    return S().visit(copy.deepcopy(ret.value))


def _same_value(g, expr, a, b):
    """the names in expr have the same reaching definitions at nodes a, b"""
    for x in walk(expr):
        if isinstance(x, ast.Name) and x.id != 'self':
            da = {d.id for d in defs_reaching(g, x.id, a)[0]}
            db = {d.id for d in defs_reaching(g, x.id, b)[0]}
            if da != db:
                return False
    return True


def entry_alias(g, name, at, depth=2):
    """K if the local `name` denotes the record self._pilots[K] at node `at`
    whichever definition reaches it: read from the table (subscript / get /
    a method that returns such a record for its argument), or a fresh dict
    that was stored as self._pilots[K] on every path to `at`"""
    defs, undef = defs_reaching(g, name, at)
    if undef or not defs:
        return None
    keys = []
    for d in defs:
        v = assigned_value(d.ast, name) if d.kind == 'stmt' else None
        K = None
        if isinstance(v, ast.Subscript) and is_self_attr(v.value, '_pilots') \
                and not isinstance(v.slice, ast.Slice):
            K = v.slice
        elif isinstance(v, ast.Call) and isinstance(v.func, ast.Attribute) and \
                v.func.attr == 'get' and is_self_attr(v.func.value, '_pilots') \
                and v.args and not v.keywords and (
                    len(v.args) == 1 or len(v.args) == 2 and
                    isinstance(v.args[1], ast.Constant) and
                    v.args[1].value is None):
            K = v.args[0]       # None cannot be subscripted: a record or raise
        elif isinstance(v, ast.Dict) or isinstance(v, ast.Call) and \
                dotted(v.func) == 'dict':
            puts = [(n.id, t.slice) for n in g.nodes
                    if n.kind == 'stmt' and isinstance(n.ast, ast.Assign) and
                    isinstance(n.ast.value, ast.Name) and
                    n.ast.value.id == name for t in n.ast.targets
                    if isinstance(t, ast.Subscript) and
                    is_self_attr(t.value, '_pilots')]
            if puts and len({unparse(k) for _, k in puts}) == 1 and \
                    at not in reach_noeffect(g, nsucc(g, d.id),
                                             [i for i, _ in puts]):
                K = puts[0][1]
        elif isinstance(v, ast.Call) and depth > 0:
            K = _entry_call(g, v, depth - 1)
        if K is None or not _same_value(g, K, d.id, at):
            return None
        keys.append(K)
    if len({unparse(k) for k in keys}) != 1:
        return None
    return keys[0]


def _entry_call(g, call, depth):
    """`self.m(.., K, ..)` where every return of m hands back the record
    self._pilots[<its parameter>]: the argument K"""
    fi = _CTX['funcs'].get(id(g.func))
    prog = _CTX['prog']
    if fi is None or prog is None or not (
            isinstance(call.func, ast.Attribute) and
            isinstance(call.func.value, ast.Name) and
            call.func.value.id == 'self'):
        return None
    f, concretes = fi
    callees = [prog.resolve_call(f, call, K) for K in concretes]
    if not callees or any(c is None or c.node is not callees[0].node
                          for c in callees):
        return None
    callee = callees[0]
    a = callee.node.args
    if a.vararg or a.kwarg or a.kwonlyargs or a.posonlyargs or \
            id(callee.node) not in _CTX['funcs']:
        return None
    params = [x.arg for x in a.args][1:]
    cg = cfg_of(callee)
    rets = [n for n in cg.nodes if n.kind == 'stmt' and
            isinstance(n.ast, ast.Return)]
    if not rets or any(e.src not in {r.id for r in rets}
                       for e in cg.pred[cg.exit.id]):
        return None                 # may fall off the end
    idx = set()
    for r in rets:
        v = r.ast.value
        K = None
        if isinstance(v, ast.Name):
            K = entry_alias(cg, v.id, r.id, depth)
        elif isinstance(v, ast.Subscript) and is_self_attr(v.value, '_pilots'):
            K = v.slice
        if not (isinstance(K, ast.Name) and K.id in params) or \
                [n for n in cg.nodes if K.id in stores_of(n)]:
            return None
        idx.add(params.index(K.id))
    if len(idx) != 1:
        return None
    i = idx.pop()
    if i < len(call.args):
        return None if isinstance(call.args[i], ast.Starred) else call.args[i]
    for k in call.keywords:
        if k.arg == params[i]:
            return k.value
    return None


_PSTORES = {}       # id(cfg) -> (cfg, [(node id, target)]) stores through paths
STALE = []          # (cfg, name, def node id, use node id, store node id)


def _path_stores(g):
    ent = _PSTORES.get(id(g))
    if ent is not None and ent[0] is g:
        return ent[1]
    out = []
    for n in g.nodes:
        if n.kind != 'stmt' or n.ast is None:
            continue
        a = n.ast
        ts = []
        if isinstance(a, ast.Assign):
            for t in a.targets:
                ts += [t] if not isinstance(t, (ast.Tuple, ast.List)) \
                    else list(t.elts)
        elif isinstance(a, ast.AugAssign):
            ts = [a.target]
        elif isinstance(a, ast.AnnAssign) and a.value is not None:
            ts = [a.target]
        elif isinstance(a, ast.Delete):
            ts = list(a.targets)
        for t in ts:
            if isinstance(t, (ast.Subscript, ast.Attribute)):
                out.append((n.id, t))
    _PSTORES[id(g)] = (g, out)
    return out


def _last_step(e):
    if isinstance(e, ast.Attribute):
        return '.' + e.attr
    if isinstance(e, ast.Subscript):
        return '[' + unparse(e.slice) + ']'
    return None


def overwritten(g, v, d, at, depth=3):
    """the location the access path `v` was read from at node d is stored to
    (assigned, augmented, deleted) on a path from d to node `at`: a local
    bound to `v` at d holds the value from BEFORE that change (a change made
    THROUGH the value - info['used'] += n for info = rec['info'] - is not
    one: the local still denotes the same container).  Returns the node id of
    the store or None."""
    step = _last_step(v)
    if step is None:
        return None
    cands = [(m, t) for m, t in _path_stores(g) if _last_step(t) == step]
    if not cands:
        return None
    mid = None
    want = None
    for m, t in cands:
        if mid is None:
            mid = between(g, d, at)
            want = unparse(resolve_local(g, v, d, depth))
        if m in mid and m != d and \
                unparse(resolve_local(g, t, m, depth)) == want:
            return m
    return None


def stale_names(g, expr, at):
    """[(name, definition node, store node)]: locals read by expr at node
    `at` whose only definition binds them to an access path that is stored to
    between the definition and `at`"""
    out = []
    for x in walk(expr):
        if isinstance(x, ast.Name) and isinstance(x.ctx, ast.Load):
            defs, undef = defs_reaching(g, x.id, at)
            if undef or len(defs) != 1 or defs[0].kind != 'stmt':
                continue
            v = assigned_value(defs[0].ast, x.id)
            if v is not None and I.is_path(v) and \
                    not isinstance(v, ast.Name):
                w = overwritten(g, v, defs[0].id, at)
                if w is not None:
                    out.append((x.id, defs[0], g.nodes[w]))
    return out


def resolve_local(g, expr, at, depth=4, allow=None):
    """copy of expr in canonical form: local names with exactly one reaching
    simple assignment are replaced by the assigned expression (access paths,
    arithmetic; an alias `x = self.<attr>` only if the attribute is a
    container that is never re-assigned, or if no store / foreign call lies
    between the alias and the use; whatever `allow(value, def node id, at)`
    admits) and calls of getter methods (`return <expr>`) by that
    expression"""
    class T(ast.NodeTransformer):
        def visit_Name(self, n):
            if not isinstance(n.ctx, ast.Load) or depth <= 0:
                return n
            defs, undef = defs_reaching(g, n.id, at)
            if undef or not defs:
                return n
            d = defs[0]
            v = assigned_value(d.ast, n.id) if d.kind == 'stmt' else None
            if len(defs) != 1 or v is None or isinstance(v, ast.Dict) or \
                    isinstance(v, ast.Call) and _getter_expr(g, v) is None \
                    and not dotted(v.func).endswith('_state_value') \
                    and not (allow is not None and allow(v, d.id, at)):
                K = entry_alias(g, n.id, at)
                if K is not None:
                    return ast.Subscript(
                        value=ast.Attribute(
                            value=ast.Name(id='self', ctx=ast.Load()),
                            attr='_pilots', ctx=ast.Load()),
                        slice=resolve_local(g, K, at, depth - 1, allow),
                        ctx=ast.Load())
                return n
            if is_self_attr(v):
                if not (is_container_attr(v.attr) or
                        snapshot_fresh(g, v.attr, d.id, at)):
                    return n
                return copy.deepcopy(v)
            if I.is_path(v) and not isinstance(v, ast.Name):
                # a value read ahead of a change of the place it was read
                # from is not that place any more (stale local)
                w = overwritten(g, v, d.id, at, depth - 1)
                if w is not None:
                    STALE.append((g, n.id, d.id, at, w))
                    return n
            if I.is_path(v) or isinstance(v, ast.BinOp) or \
                    isinstance(v, ast.Call) and (
                        dotted(v.func).endswith('_state_value') or
                        _getter_expr(g, v) is not None) or \
                    (allow is not None and allow(v, d.id, at)):
                return resolve_local(g, v, d.id, depth - 1, allow)
            return n

        def visit_Call(self, n):
            if depth > 0:
                e = _getter_expr(g, n)
                if e is not None:
                    return resolve_local(g, e, at, depth - 1, allow)
            return self.generic_visit(n)
    return T().visit(copy.deepcopy(expr))


# ------------------------------------------------------------------------------
# loops seen as `for <target> in <iter>`
#
class LoopV:
    """one loop of a function in the form `for <target> in <iter>`:
    for     for T in X
    range   for i in range(len(X)): T = X[i]
    pop     L = <X>; while L: T = L.pop(..)      (L not touched otherwise)
    index   i = 0; while i < len(X): T = X[i]; ..; i += 1  (once per iteration)
    """
    def __init__(self, g, head, form, target, it, names):
        self.g      = g
        self.head   = head
        self.id     = head.id
        self.loops  = head.loops
        self.form   = form
        self.target = target
        self.iter   = it
        self.names  = names
        self.ast    = head.ast

    @property
    def after(self):
        """nodes at which the loop is left normally (not by break)"""
        g = self.g
        if self.head.kind == 'for':
            return [e.dst for e in g.succ[self.id] if e.label == 'done']
        body = g.loop_body[self.id]
        return [e.dst for n in body if g.nodes[n].kind == 'test' and
                any(x is g.nodes[n].ast for x in walk(self.ast.test))
                for e in g.succ[n] if e.label in 'TF' and e.dst not in body
                and e.enter != self.id]

    @property
    def header(self):
        return 'for %s in %s' % (unparse(self.target), unparse(self.iter))


def _touched(g, body, text, but=()):
    """the object named by the path `text` is changed, re-bound or handed to
    somebody who might change it inside the loop body (node ids)"""
    for nid in body:
        n = g.nodes[nid]
        if n.ast is None or n.kind in ('while', 'dispatch', 'handler'):
            continue
        roots = [n.ast.iter, n.ast.target] if n.kind == 'for' else \
            [i.context_expr for i in n.ast.items] if n.kind == 'with' else \
            [n.ast]
        for r in roots:
            for x in walk(r):
                if any(x is b for b in but):
                    continue
                if isinstance(x, (ast.Name, ast.Attribute, ast.Subscript)) and \
                        isinstance(x.ctx, (ast.Store, ast.Del)):
                    t = x
                    while isinstance(t, ast.Subscript):
                        t = t.value
                    if unparse(t) == text:
                        return True
                if isinstance(x, ast.Call):
                    if isinstance(x.func, ast.Attribute) and \
                            x.func.attr in MUTATORS and \
                            unparse(x.func.value) == text:
                        return True
                    if not is_quiet_call(x) and dotted(x.func) not in PURE and \
                            any(unparse(a) == text for a in list(x.args) +
                                [k.value for k in x.keywords]):
                        return True
    return False


def _while_view(g, head):
    s = head.ast
    body = g.loop_body[head.id]
    t = s.test
    enter = [e for n in body for e in g.succ[n] if e.enter == head.id]
    if len(enter) != 1 or enter[0].label != 'T' or \
            g.nodes[enter[0].src].ast is not t:
        return None
    bind = first_stmt(s.body)
    if not (isinstance(bind, ast.Assign) and len(bind.targets) == 1 and
            stores_in_target(bind.targets[0])):
        return None
    target, v = bind.targets[0], bind.value
    names = stores_in_target(target)
    bnodes = [n for n in g.nodes if n.ast is bind]
    if len(bnodes) != 1:
        return None
    # pop form
    L = None
    if isinstance(t, ast.Name):
        L = t.id
    elif isinstance(t, ast.Call) and dotted(t.func) == 'len' and \
            len(t.args) == 1 and isinstance(t.args[0], ast.Name):
        L = t.args[0].id
    elif isinstance(t, ast.Compare) and len(t.ops) == 1 and \
            isinstance(t.ops[0], (ast.Gt, ast.NotEq)) and \
            isinstance(t.comparators[0], ast.Constant) and \
            t.comparators[0].value == 0 and isinstance(t.left, ast.Call) and \
            dotted(t.left.func) == 'len' and len(t.left.args) == 1 and \
            isinstance(t.left.args[0], ast.Name):
        L = t.left.args[0].id
    if L is not None:
        if not (isinstance(v, ast.Call) and isinstance(v.func, ast.Attribute)
                and v.func.attr in ('pop', 'popleft') and
                isinstance(v.func.value, ast.Name) and v.func.value.id == L
                and not v.keywords and len(v.args) <= 1 and
                all(isinstance(a, ast.Constant) and a.value in (0, -1)
                    for a in v.args)):
            return None
        if L in names or L in [a.arg for a in g.func.args.args]:
            return None
        defs = [n for n in g.nodes if L in stores_of(n)]
        if len(defs) != 1 or defs[0].id in body or \
                assigned_value(defs[0].ast, L) is None or \
                head.id in g.reachable(g.entry.id, skip_nodes={defs[0].id}):
            return None
        every = {n.id for n in g.nodes}
        if _touched(g, every, L, but=(v,) + tuple(walk(defs[0].ast))):
            return None
        return LoopV(g, head, 'pop', target, assigned_value(defs[0].ast, L),
                     names)
    # index form
    if not (isinstance(t, ast.Compare) and len(t.ops) == 1):
        return None
    l, r, op = t.left, t.comparators[0], type(t.ops[0])
    if isinstance(l, ast.Call):
        l, r, op = r, l, {ast.Gt: ast.Lt}.get(op, op)
    if not (isinstance(l, ast.Name) and op in (ast.Lt, ast.NotEq) and
            isinstance(r, ast.Call) and dotted(r.func) == 'len' and
            len(r.args) == 1 and I.is_path(r.args[0])):
        return None
    i, X = l.id, r.args[0]
    if not (isinstance(v, ast.Subscript) and isinstance(v.slice, ast.Name) and
            v.slice.id == i and unparse(v.value) == unparse(X)) or i in names:
        return None
    defs = [n for n in g.nodes if i in stores_of(n)]
    init = [n for n in defs if n.id not in body]
    incs = [n for n in defs if n.id in body]
    if len(init) != 1 or len(incs) != 1:
        return None
    init, inc = init[0], incs[0]
    iv = assigned_value(init.ast, i)
    if not (isinstance(iv, ast.Constant) and iv.value == 0 and
            type(iv.value) is int) or \
            head.id in g.reachable(g.entry.id, skip_nodes={init.id}):
        return None
    a = inc.ast
    plus1 = inc.kind == 'stmt' and (
        isinstance(a, ast.AugAssign) and isinstance(a.op, ast.Add) and
        isinstance(a.value, ast.Constant) and a.value.value == 1 or
        isinstance(a, ast.Assign) and len(a.targets) == 1 and
        isinstance(a.value, ast.BinOp) and isinstance(a.value.op, ast.Add) and
        {type(a.value.left), type(a.value.right)} == {ast.Name, ast.Constant}
        and all(isinstance(x, ast.Name) and x.id == i or
                isinstance(x, ast.Constant) and x.value == 1
                for x in (a.value.left, a.value.right)))
    if not plus1 or not inc.loops or inc.loops[-1] != head.id:
        return None
    start = iter_start(g, head.id)
    if head.id in g.reachable(start, skip_nodes={inc.id}) or \
            bnodes[0].id in g.reachable(nsucc(g, inc.id),
                                        skip_nodes={head.id}):
        return None
    if _touched(g, body, unparse(X)):
        return None
    return LoopV(g, head, 'index', target, X, names)


def loop_views(g):
    """{head id: LoopV} for the loops of g which have the form of a for loop"""
    if id(g) in _VIEWS:
        return _VIEWS[id(g)][1]
    out = {}
    for h, a in g.loop_ast.items():
        hn = g.nodes[h]
        if hn.kind == 'for':
            v = LoopV(g, hn, 'for', a.target, a.iter,
                      stores_in_target(a.target))
            it = a.iter
            b = first_stmt(a.body)
            if isinstance(it, ast.Call) and dotted(it.func) == 'range' and \
                    len(it.args) == 1 and not it.keywords and \
                    isinstance(it.args[0], ast.Call) and \
                    dotted(it.args[0].func) == 'len' and \
                    len(it.args[0].args) == 1 and \
                    I.is_path(it.args[0].args[0]) and \
                    isinstance(a.target, ast.Name) and \
                    isinstance(b, ast.Assign) and len(b.targets) == 1 and \
                    isinstance(b.value, ast.Subscript) and \
                    isinstance(b.value.slice, ast.Name) and \
                    b.value.slice.id == a.target.id and \
                    unparse(b.value.value) == unparse(it.args[0].args[0]) and \
                    a.target.id not in stores_in_target(b.targets[0]) and \
                    not _touched(g, g.loop_body[h],
                                 unparse(it.args[0].args[0])):
                v = LoopV(g, hn, 'range', b.targets[0], it.args[0].args[0],
                          stores_in_target(b.targets[0]))
            out[h] = v
        elif hn.kind == 'while':
            v = _while_view(g, hn)
            if v is not None:
                out[h] = v
    _VIEWS[id(g)] = (g, out)
    return out


def enclosing_for(g, node, name):
    """innermost loop view around the node which binds `name` per iteration"""
    views = loop_views(g)
    for h in reversed(node.loops):
        v = views.get(h)
        if v is not None and name in v.names:
            return v
    return None


def strip_copy(e):
    """list(X), X[:], X.copy(), sorted(X) ...  ->  X"""
    while True:
        if isinstance(e, ast.Call) and dotted(e.func) in (
                'list', 'tuple', 'sorted', 'reversed') and len(e.args) == 1:
            e = e.args[0]
        elif isinstance(e, ast.Call) and isinstance(e.func, ast.Attribute) \
                and e.func.attr == 'copy' and not e.args:
            e = e.func.value
        elif isinstance(e, ast.Subscript) and isinstance(e.slice, ast.Slice) \
                and e.slice.lower is None and e.slice.upper is None and \
                e.slice.step is None:
            e = e.value
        else:
            return e


def is_empty_ctor(v):
    if isinstance(v, (ast.List, ast.Dict, ast.Set, ast.Tuple)):
        return not (getattr(v, 'elts', None) or getattr(v, 'keys', None))
    return isinstance(v, ast.Call) and dotted(v.func) in EMPTY and \
        not v.args and not v.keywords


def is_self_attr(e, attr=None):
    return isinstance(e, ast.Attribute) and isinstance(e.value, ast.Name) and \
        e.value.id == 'self' and (attr is None or e.attr == attr)


# ------------------------------------------------------------------------------
# guards: what is known to hold at a site
#
def _testlike(v):
    return isinstance(v, (ast.Compare, ast.BoolOp)) or \
        isinstance(v, ast.UnaryOp) and isinstance(v.op, ast.Not)


def hoisted_test(g, name, tid):
    """the local `name`, tested at node tid, holds the value of a test
    expression computed ahead (`ok = a == b; if ok:`): that expression, if the
    assignment is the only one reaching the test and nothing it reads can
    have changed in between.  None if the name is not such a local;
    AnalysisError if it is one the recogniser cannot see through."""
    defs, undef = defs_reaching(g, name, tid)
    vals = [assigned_value(d.ast, name) if d.kind == 'stmt' else None
            for d in defs]
    if not any(v is not None and _testlike(v) for v in vals):
        return None
    where = 'test `%s` (line %s)' % (name, getattr(g.nodes[tid].ast, 'lineno',
                                                   '?'))
    if undef or len(defs) != 1:
        raise AnalysisError('UNRECOGNISED-IDIOM %s: the %s is a local which '
                            'holds the outcome of a comparison on some paths '
                            'only' % (g.func.name, where))
    d, v = defs[0], vals[0]
    reads = {x.id for x in walk(v) if isinstance(x, ast.Name)}
    content = any(isinstance(x, (ast.Subscript, ast.Attribute, ast.Call)) or
                  isinstance(x, ast.Compare) and
                  any(isinstance(o, (ast.In, ast.NotIn)) for o in x.ops)
                  for x in walk(v))
    for m in between(g, d.id, tid):
        n = g.nodes[m]
        stale = bool(set(stores_of(n)) & reads)
        if n.kind == 'stmt' and n.ast is not None:
            for kind, t, st in I.stores(n.ast):
                if root_name(t) in reads:
                    stale = True
        if content and loud_calls(g, m):
            stale = True
        if stale:
            raise AnalysisError('UNRECOGNISED-IDIOM %s: the %s holds `%s`, '
                                'computed before `%s` which may change its '
                                'operands' % (g.func.name, where, short(v, 50),
                                              short(n.ast, 40)))
    return v


def _facts(g, e, pol, tid, out, depth=0):
    if isinstance(e, ast.UnaryOp) and isinstance(e.op, ast.Not):
        return _facts(g, e.operand, not pol, tid, out, depth)
    if isinstance(e, ast.BoolOp):
        if isinstance(e.op, ast.And) == pol:    # `and` holds / `or` fails
            for v in e.values:
                _facts(g, v, pol, tid, out, depth)
        return
    if isinstance(e, ast.Name) and depth < 4:
        v = hoisted_test(g, e.id, tid)
        if v is not None:
            return _facts(g, v, pol, tid, out, depth + 1)
    if isinstance(e, ast.Call) and depth < 4:
        # a predicate method `return <test>` (the same function for every
        # concrete class) is read as that test over its arguments
        v = _getter_expr(g, e)
        if v is not None and _testlike(v):
            return _facts(g, v, pol, tid, out, depth + 1)
    out.append((e, pol, tid))


def guard_facts(g, target, start=None):
    """[(atom, holds, test node id)]: the atomic tests whose outcome is known
    on every path from start to target (control dependence with polarity;
    tests computed ahead into a local are seen through)"""
    out = []
    for tid, lab in guards(g, target, start=start):
        _facts(g, g.nodes[tid].ast, lab == 'T', tid, out)
    return out


def test_expr(g, t):
    """the expression a test node decides (a hoisted test seen through)"""
    a = t.ast
    if isinstance(a, ast.Name):
        v = hoisted_test(g, a.id, t.id)
        if v is not None:
            return v
    return a


def pilot_entry(e, key):
    """e == self._pilots[K][key]  ->  K (ast) else None"""
    if isinstance(e, ast.Subscript) and isinstance(e.slice, ast.Constant) and \
            e.slice.value == key and isinstance(e.value, ast.Subscript) and \
            is_self_attr(e.value.value, '_pilots'):
        return e.value.slice
    if isinstance(e, ast.Call) and isinstance(e.func, ast.Attribute) and \
            e.func.attr == 'get' and e.args and \
            isinstance(e.args[0], ast.Constant) and e.args[0].value == key and \
            isinstance(e.func.value, ast.Subscript) and \
            is_self_attr(e.func.value.value, '_pilots'):
        return e.func.value.slice
    if isinstance(e, ast.Call) and isinstance(e.func, ast.Attribute) and \
            e.func.attr == 'get' and e.args and \
            isinstance(e.args[0], ast.Constant) and e.args[0].value == key and \
            isinstance(e.func.value, ast.Call) and \
            isinstance(e.func.value.func, ast.Attribute) and \
            e.func.value.func.attr == 'get' and e.func.value.args and \
            is_self_attr(e.func.value.func.value, '_pilots'):
        return e.func.value.args[0]
    return None


def info_field(e, key):
    """e == self._pilots[K]['info'][key]"""
    return isinstance(e, ast.Subscript) and \
        isinstance(e.slice, ast.Constant) and e.slice.value == key and \
        pilot_entry(e.value, 'info') is not None


def assign_calls(f):
    return [c for c in calls_in(f.node)
            if call_name(c) == 'self._assign_pilot']


def assign_task_arg(c):
    return kwarg(c, 'task', 0)


def assign_pilot_arg(c):
    return kwarg(c, 'pilot', 1)


def role_consts(prog):
    return (prog.const(BASE[0], 'ADDED'), prog.const(BASE[0], 'REMOVED'))


def classify_role_atom(prog, f, g, atom, pol, at, added):
    """'ok' | 'wrong' | None for a guard on the pilot's role"""
    if not (isinstance(atom, ast.Compare) and len(atom.ops) == 1):
        return None
    l, r = atom.left, atom.comparators[0]
    for a, b in ((l, r), (r, l)):
        if pilot_entry(resolve_local(g, a, at), 'role') is not None:
            v = prog.fold(f.module, b, f.cls)
            op = atom.ops[0]
            if v is UNKNOWN:
                return 'unknown'
            if v != added:
                return 'wrong'
            if isinstance(op, (ast.Eq, ast.Is)):
                return 'ok' if pol else 'wrong'
            if isinstance(op, (ast.NotEq, ast.IsNot)):
                return 'wrong' if pol else 'ok'
            return 'wrong'
    return None


# ------------------------------------------------------------------------------
# R12.1  the pilot of a scheduling decision derives from self._pids
#
def derive(g, expr, at, depth=0):
    """'pids' | 'pilots' | 'empty' | 'unknown' : where the values of expr come
    from"""
    if depth > 8:
        return 'unknown'
    d = depth + 1
    if is_self_attr(expr, '_pids'):
        return 'pids'
    if is_self_attr(expr, '_pilots'):
        return 'pilots'
    if is_empty_ctor(expr):
        return 'empty'
    if isinstance(expr, ast.Subscript):
        return derive(g, expr.value, at, d)
    if isinstance(expr, ast.Call):
        fn = dotted(expr.func)
        if fn in ('list', 'sorted', 'reversed', 'tuple', 'iter', 'set') and \
                len(expr.args) >= 1:
            return derive(g, expr.args[0], at, d)
        if isinstance(expr.func, ast.Attribute) and \
                expr.func.attr in ('copy', 'keys') and not expr.args:
            return derive(g, expr.func.value, at, d)
        if isinstance(expr.func, ast.Attribute) and \
                expr.func.attr in ('pop', 'popleft') and \
                isinstance(expr.func.value, ast.Name) and len(expr.args) <= 1:
            return derive(g, expr.func.value, at, d)    # an element of a list
        e = _getter_expr(g, expr)
        if e is not None:
            return derive(g, e, at, d)
        return 'unknown'
    if isinstance(expr, ast.Name):
        defs, undef = defs_reaching(g, expr.id, at)
        if undef or not defs:
            return 'unknown'
        res = set()
        for dn in defs:
            if dn.kind == 'for':
                t = dn.ast.target
                if not (isinstance(t, ast.Name) and t.id == expr.id):
                    return 'unknown'
                res.add(derive(g, dn.ast.iter, dn.id, d))
            elif dn.kind == 'stmt' and \
                    assigned_value(dn.ast, expr.id) is not None:
                res.add(derive(g, assigned_value(dn.ast, expr.id), dn.id, d))
            else:
                return 'unknown'
        # a local list: what is put into it
        for n in g.nodes:
            if n.kind != 'stmt':
                continue
            for c in calls_in(n.ast):
                if isinstance(c.func, ast.Attribute) and \
                        isinstance(c.func.value, ast.Name) and \
                        c.func.value.id == expr.id:
                    if c.func.attr in ('append', 'add') and c.args:
                        res.add(derive(g, c.args[0], n.id, d))
                    elif c.func.attr == 'insert' and len(c.args) == 2:
                        res.add(derive(g, c.args[1], n.id, d))
                    elif c.func.attr == 'extend' and c.args:
                        res.add(derive(g, c.args[0], n.id, d))
            if isinstance(n.ast, ast.AugAssign) and \
                    isinstance(n.ast.target, ast.Name) and \
                    n.ast.target.id == expr.id:
                res.add(derive(g, n.ast.value, n.id, d))
        res.discard('empty')
        if not res:
            return 'empty'
        if 'unknown' in res:
            return 'unknown'
        if 'pilots' in res:
            return 'pilots'
        return 'pids'
    return 'unknown'


def r12_1(prog, rep, rid='R12.1'):
    rep.rule(rid, 'the pilot handed to _assign_pilot in _schedule_tasks derives '
             'from self._pids; _pids grows only in add_pilots and shrinks in '
             'remove_pilots; control_cb calls both for their command after '
             'setting the role', minimum=10)
    added, removed = role_consts(prog)
    base = prog.cls(*BASE)
    for rel, cname in (RR, BF):
        K = prog.cls(rel, cname)
        f = prog.find_method(K, '_schedule_tasks')
        if f is None:
            raise AnalysisError('anchor %s._schedule_tasks not found' % cname)
        rep.saw(f)
        g = cfg_of(f)
        rep.stat('cfg_nodes', len(g.nodes))
        smap = I.stmt_node_map(g)
        calls = assign_calls(f)
        if not calls:
            raise AnalysisError('UNRECOGNISED-IDIOM %s: no call of '
                                'self._assign_pilot' % f.where)
        for c in calls:
            node = smap[id(c)]
            p = assign_pilot_arg(c)
            keys = []
            if p is None:
                raise AnalysisError('UNRECOGNISED-IDIOM %s: `%s` has no pilot '
                                    'argument' % (f.where, short(c, 60)))
            if isinstance(p, ast.Name):
                defs, undef = defs_reaching(g, p.id, node.id)
                if undef or not defs:
                    raise AnalysisError('UNRECOGNISED-IDIOM %s: pilot %r of '
                                        '`%s` has no local definition'
                                        % (f.where, p.id, short(c, 60)))
                for dn in defs:
                    k = None
                    v = assigned_value(dn.ast, p.id) \
                        if dn.kind == 'stmt' else None
                    if v is not None:
                        k = pilot_entry(resolve_local(g, v, dn.id), 'pilot')
                    if k is None:
                        raise AnalysisError(
                            'UNRECOGNISED-IDIOM %s: pilot %r is defined by '
                            '`%s`, not by self._pilots[<pid>][\'pilot\']'
                            % (f.where, p.id, short(dn.ast, 60)))
                    keys.append((k, dn.id))
            else:
                k = pilot_entry(resolve_local(g, p, node.id), 'pilot')
                if k is None:
                    raise AnalysisError('UNRECOGNISED-IDIOM %s: pilot argument '
                                        'of `%s`' % (f.where, short(c, 60)))
                keys.append((k, node.id))
            kinds = {derive(g, k, at) for k, at in keys}
            if 'unknown' in kinds or 'empty' in kinds:
                raise AnalysisError('UNRECOGNISED-IDIOM %s: cannot trace the '
                                    'pilot id of `%s` to self._pids or '
                                    'self._pilots' % (f.where, short(c, 60)))
            okay = kinds == {'pids'}
            if not okay:
                # all known pilots: acceptable only under role == ADDED
                for a, pol, tid in guard_facts(g, node.id):
                    if classify_role_atom(prog, f, g, a, pol, tid,
                                          added) == 'ok':
                        okay = True
            rep.check(okay, rid, f,
                      '%s: the pilot of `%s` is taken from self._pids'
                      % (cname, short(c, 50)), construct=c,
                      message='%s._schedule_tasks: the pilot id used for `%s` '
                      'is drawn from self._pilots (every pilot the scheduler '
                      'ever heard of) and not from self._pids, and no '
                      '`role == ADDED` test guards it: tasks are bound to '
                      'pilots that were removed or never added'
                      % (cname, short(c, 50)), loc=f.loc(c),
                      history='add p1, add p2, remove p1, submit a task '
                      'without a pilot: the task can be bound to p1')
        # writers of self._pids
        methods = I.class_methods(prog, K, stop_at=base)
        for mname, m in sorted(methods.items()):
            _pids_writers(prog, rep, rid, cname, mname, m)
    _control_cb(prog, rep, rid, added, removed)


def _pids_writes(m):
    """stores through self._pids, or through a local name the method binds to
    self._pids (the list is the same object)"""
    alias = {t.id for n in walk(m.node, nested=True)
             if isinstance(n, ast.Assign) for t in walk(n)
             if isinstance(t, ast.Name) and isinstance(t.ctx, ast.Store) and
             is_self_attr(assigned_value(n, t.id), '_pids')}

    def is_pids(t):
        return is_self_attr(t, '_pids') or \
            isinstance(t, ast.Name) and t.id in alias
    out = []
    for kind, target, stmt in I.stores(m.node, nested=True):
        t = target
        while isinstance(t, ast.Subscript):
            t = t.value
        if is_pids(t):
            out.append((kind, target, stmt))
    for n in walk(m.node, nested=True):
        if isinstance(n, ast.AugAssign) and isinstance(n.target, ast.Name) \
                and n.target.id in alias:
            out.append(('aug', n.target, n))
    return out


def _pids_writers(prog, rep, rid, cname, mname, m):
    writes = _pids_writes(m)
    if not writes and mname not in ('add_pilots', 'remove_pilots'):
        return
    rep.saw(m)
    g = cfg_of(m)
    smap = I.stmt_node_map(g)
    params = [p for p in m.params if p != 'self']

    def grows(kind, target, stmt):
        if kind == 'aug' and isinstance(stmt.op, ast.Add):
            return stmt.value
        if kind == 'mutate' and stmt.func.attr in ('append', 'extend',
                                                   'insert', 'add'):
            return stmt.args[-1] if stmt.args else None
        if kind == 'assign' and is_self_attr(target, '_pids') and \
                not is_empty_ctor(stmt.value):
            v = stmt.value
            if isinstance(v, ast.BinOp) and isinstance(v.op, ast.Add):
                return v.right if is_self_attr(v.left, '_pids') else v.left
            if isinstance(v, (ast.ListComp,)) and any(
                    is_self_attr(gen.iter, '_pids') for gen in v.generators) \
                    and isinstance(v.elt, ast.Name):
                return None                 # a filter: shrinks
            return v
        return None

    if mname == 'add_pilots':
        adds = []
        for w in writes:
            v = grows(*w)
            if v is not None:
                adds.append((w, v))
        good = []
        for (kind, target, stmt), v in adds:
            dep = Deps(m.node, implicit=False).expr_depends(v)
            if params and params[0] in dep:
                good.append(smap[id(stmt)].id)
        okay = bool(good) and g.exit.id not in reach_noeffect(
            g, [g.entry.id], good)
        rep.check(okay, rid, m, '%s.add_pilots extends self._pids by the added '
                  'pids on every normal path' % cname,
                  construct='%s.add_pilots: self._pids += pids' % cname,
                  message='%s.add_pilots has a normal path on which the added '
                  'pilot ids are not appended to self._pids: the scheduler '
                  'never uses the new pilot' % cname, loc=m.loc(),
                  history='add_pilots(p1); submit a task: it stays in the wait '
                  'pool although p1 is added')
        return
    if mname == 'remove_pilots':
        rem = []
        for kind, target, stmt in writes:
            if kind == 'mutate' and stmt.func.attr in ('remove', 'discard') \
                    and stmt.args and isinstance(stmt.args[0], ast.Name):
                n = smap[id(stmt)]
                h = enclosing_for(g, n, stmt.args[0].id)
                if h is not None and isinstance(h.iter, ast.Name) and \
                        params and h.iter.id == params[0]:
                    rem.append((n, h))
            elif kind == 'assign' and is_self_attr(target, '_pids') and \
                    isinstance(stmt.value, ast.ListComp) and params and \
                    any(isinstance(x, ast.Name) and x.id == params[0]
                        for x in walk(stmt.value)):
                rem.append((smap[id(stmt)], None))
            elif kind == 'assign' and is_self_attr(target, '_pids') and \
                    isinstance(stmt.value, ast.ListComp) and params:
                # one filter per removed pid, inside the loop over the pids
                n = smap[id(stmt)]
                for x in walk(stmt.value):
                    h = enclosing_for(g, n, x.id) \
                        if isinstance(x, ast.Name) else None
                    if h is not None and isinstance(h.iter, ast.Name) and \
                            h.iter.id == params[0]:
                        rem.append((n, h))
                        break
        okay = False
        for n, h in rem:
            if h is None:
                okay = g.exit.id not in reach_noeffect(g, [g.entry.id], [n.id])
            else:
                # every iteration that comes back to the head removed the pid,
                # and every normal path runs the loop
                body_ok = h.id not in reach_noeffect(g, [iter_start(g, h.id)],
                                                     [n.id])
                loop_ok = g.exit.id not in g.reachable(g.entry.id,
                                                       skip_nodes={h.id})
                okay = okay or (body_ok and loop_ok)
        rep.check(okay, rid, m, '%s.remove_pilots takes every given pid out of '
                  'self._pids' % cname,
                  construct='%s.remove_pilots: self._pids.remove(pid)' % cname,
                  message='%s.remove_pilots has a normal path on which a '
                  'removed pilot id stays in self._pids: tasks are still bound '
                  'to the removed pilot' % cname, loc=m.loc(),
                  history='add p1, remove p1, submit a task: it is bound to p1')
        for w in writes:
            v = grows(*w)
            if v is not None:
                rep.bad(rid, m, w[2], '%s.remove_pilots adds to self._pids '
                        '(`%s`)' % (cname, short(w[2], 50)), m.loc(w[2]),
                        history='a removed pilot is schedulable again')
        return
    for w in writes:
        kind, target, stmt = w
        if mname in ('_configure', '__init__', 'initialize') and \
                kind == 'assign' and is_empty_ctor(stmt.value):
            continue
        v = grows(*w)
        if v is not None:
            rep.bad(rid, m, stmt, 'self._pids grows outside add_pilots: `%s` '
                    'in %s.%s - a pilot becomes a scheduling target without '
                    'an add_pilots command for it (the argument that tasks go '
                    'only to added pilots rests on add_pilots/remove_pilots '
                    'being the only writers)' % (short(stmt, 50), cname, mname),
                    m.loc(stmt), history='a pilot that was never added (or '
                    'was removed) receives tasks')
        else:
            rep.info(rid, m, 'self._pids shrinks in %s.%s: `%s`'
                     % (cname, mname, short(stmt, 50)), m.loc(stmt))


def record_field_stores(f, g, smap, field, good):
    """({loop head or None: [cfg node ids]}, [odd stores]): the stores of
    self._pilots[K][field] = v (or of a whole fresh record with that field)
    for which good(v, store node, K) is True, grouped by the innermost loop
    they run in (stores on alternative branches of one loop count together);
    good() == None: not such a store; False: one the caller cannot read"""
    sets, odd = {}, []
    for kind, target, stmt in I.stores(f.node):
        if kind != 'assign' or id(stmt) not in smap:
            continue
        sn = smap[id(stmt)]
        tr = resolve_local(g, target, sn.id)
        K = pilot_entry(tr, field)
        if K is not None:
            verdicts = [good(stmt.value, sn, K)]
        elif isinstance(tr, ast.Subscript) and \
                is_self_attr(tr.value, '_pilots'):
            # a whole record {field: <value>, ..}
            ds = fresh_dict(g, stmt.value, sn.id)
            if not ds or any(dict_field(x, field) is None for x in ds):
                continue
            verdicts = [good(dict_field(x, field), sn, tr.slice) for x in ds]
        else:
            if isinstance(target, ast.Subscript) and \
                    isinstance(target.slice, ast.Constant) and \
                    target.slice.value == field:
                odd.append(stmt)
            continue
        if any(v is False for v in verdicts):
            odd.append(stmt)
        if not all(v for v in verdicts):
            continue
        sets.setdefault(sn.loops[-1] if sn.loops else None, []).append(sn.id)
    return sets, odd


def record_method_writes(f, g, smap):
    """calls which change a record of self._pilots (or the table) through a
    method: `self._pilots[K].update({..})` - fields the recognisers of single
    stores do not see"""
    out = []
    for x in calls_in(f.node):
        if isinstance(x.func, ast.Attribute) and id(x) in smap and \
                x.func.attr in ('update', '__setitem__'):
            r = resolve_local(g, x.func.value, smap[id(x)].id)
            if is_self_attr(r, '_pilots') or isinstance(r, ast.Subscript) \
                    and is_self_attr(r.value, '_pilots'):
                out.append(x)
    return out


def stored_before(g, sets, node):
    """one of the groups of stores takes effect for every element before the
    node: a loop which every path to the node runs and whose every completed
    iteration passes a store of the group (or straight-line stores on every
    path)"""
    okay = False
    for h, ids in sets.items():
        if h is None:
            okay = okay or node.id not in reach_noeffect(
                g, [g.entry.id], ids)
            continue
        before = node.id not in g.reachable(g.entry.id, skip_nodes={h})
        each = h not in reach_noeffect(g, [iter_start(g, h)], ids)
        okay = okay or (before and each)
    return okay


def _control_cb(prog, rep, rid, added, removed):
    f = prog.method(BASE[0], BASE[1], 'control_cb')
    rep.saw(f)
    g = cfg_of(f)
    smap = I.stmt_node_map(g)
    d = Deps(f.node, implicit=False)
    msg = f.params[-1]
    spec = (('add_pilots', 'self.add_pilots', added, 'ADDED',
             'add_pilots(p1) for a Backfilling scheduler: the scheduling '
             'pass triggered by the command skips p1 (role is not ADDED yet); '
             'waiting tasks stay unscheduled until some later event'),
            ('remove_pilots', 'self.remove_pilots', removed, 'REMOVED',
             'remove_pilots(p1): the entry of p1 keeps role ADDED, so a '
             'second add_pilots(p1) raises and Backfilling still treats p1 as '
             'eligible'))
    for cmd, callee, role, rname, hist in spec:
        calls = [c for c in calls_in(f.node) if call_name(c) == callee]
        if not calls:
            rep.bad(rid, f, '%s(...) missing' % callee, 'control_cb never calls '
                    '%s: the command %r does not reach the scheduler'
                    % (callee, cmd), f.loc(), history='%s(p1) has no effect on '
                    'self._pids' % cmd)
            continue
        for c in calls:
            node = smap[id(c)]
            gd = False
            for a, pol, tid in guard_facts(g, node.id):
                cc = const_compare(prog, f.module, a, f.cls)
                if cc and cc[2] == frozenset([cmd]) and \
                        (cc[1] == 'in') == pol:
                    gd = True
            arg_ok = bool(c.args) and msg in d.expr_depends(c.args[0])
            rep.check(gd and arg_ok, rid, f, 'control_cb: `%s` runs for cmd == '
                      '%r with ids taken from the message' % (short(c, 40), cmd),
                      construct=c,
                      message='control_cb: `%s` is %s' % (
                          short(c, 50), 'not control dependent on cmd == %r'
                          % cmd if not gd else 'not fed from the message'),
                      loc=f.loc(c), history='a %r command changes the pilot '
                      'set in the wrong way' % cmd)
            # role store in a loop which precedes the call
            sets, _ = record_field_stores(
                f, g, smap, 'role',
                lambda v, sn, K: prog.fold(f.module, v, f.cls) == role or None)
            okay = stored_before(g, sets, node)
            if not okay and record_method_writes(f, g, smap):
                raise AnalysisError(
                    'UNRECOGNISED-IDIOM %s: `%s` changes a pilot record '
                    'through a method call' % (f.where, short(
                        record_method_writes(f, g, smap)[0], 60)))
            rep.check(okay, rid, f, 'control_cb: role = %s is stored for every '
                      'pilot of the command before `%s`' % (rname, short(c, 40)),
                      construct='%s [role %s first]' % (short(c, 60), rname),
                      message='control_cb: `%s` is reached without the role of '
                      'every pilot of the command having been set to %s'
                      % (short(c, 50), rname), loc=f.loc(c), history=hist)


# ------------------------------------------------------------------------------
# R12.13  add_pilots: every pilot of the command gets its document
#
def r12_13(prog, rep, rid='R12.13'):
    rep.rule(rid, "control_cb: the pilot document of the command is stored in "
             "the record (self._pilots[<its uid>]['pilot']) of every pilot of "
             "the command, whether the record is new or was created earlier by "
             "a state notification, before self.add_pilots(..) makes the pilot "
             "a scheduling target", minimum=1)
    f = prog.method(BASE[0], BASE[1], 'control_cb')
    rep.saw(f)
    g = cfg_of(f)
    smap = I.stmt_node_map(g)
    deps = Deps(f.node, implicit=False)
    calls = [c for c in calls_in(f.node)
             if call_name(c) == 'self.add_pilots' and id(c) in smap]
    if not calls:
        raise AnalysisError('UNRECOGNISED-IDIOM %s: no call of '
                            'self.add_pilots' % f.where)

    def good(v, sn, K):
        # the value is the element of the loop over the pilots of the command
        # and the key is taken from that element
        if isinstance(v, ast.Constant):
            return None
        lv = loop_views(g).get(sn.loops[-1]) if sn.loops else None
        if lv is None:
            return False
        elem = set(lv.names)

        def from_elem(e):
            r = resolve_local(g, e, sn.id)
            return bool({x.id for x in walk(r) if isinstance(x, ast.Name)}
                        & elem) or bool(deps.expr_depends(e) & elem)
        if not from_elem(v):
            return False
        return from_elem(K)

    for c in calls:
        node = smap[id(c)]
        sets, odd = record_field_stores(f, g, smap, 'pilot', good)
        okay = stored_before(g, sets, node)
        odd += record_method_writes(f, g, smap)
        if not okay and odd:
            raise AnalysisError(
                "UNRECOGNISED-IDIOM %s: `%s` stores a 'pilot' entry the "
                "recogniser cannot tie to the pilots of the command"
                % (f.where, short(odd[0], 60)))
        rep.check(okay, rid, f, "control_cb: the pilot document is stored for "
                  "every pilot of the command before `%s`" % short(c, 40),
                  construct="%s [pilot document first]" % short(c, 60),
                  message="control_cb (add_pilots): `%s` is reached although "
                  "some pilot of the command passed the loop without "
                  "self._pilots[<uid>]['pilot'] = <its document> (%s): a pilot "
                  "whose record exists already - created with 'pilot': None by "
                  "_update_pilot_states for an earlier state notification - "
                  "gets role ADDED but keeps pilot None; tasks naming it stay "
                  "parked in self._early for ever and unbound tasks are handed "
                  "to _assign_pilot(task, None), which raises"
                  % (short(c, 50), 'the document is stored on some branches '
                     'only' if sets else 'no such store'),
                  loc=f.loc(c),
                  history='state notification p1 -> PMGR_LAUNCHING (creates '
                  "the record, 'pilot': None), then add_pilots(p1), then one "
                  'task naming p1 and one unbound task: the first waits for '
                  'ever, the second is FAILED')


# ------------------------------------------------------------------------------
# R12.15  the pilot-set commands: what TaskManager publishes is what control_cb
#         acts on (command constant and argument keys agree)
#
TMGR = ('task_manager.py', 'TaskManager')


def _cmd_values(prog, f, g, node, var_texts):
    """the set of command strings for which the node is reached (None: no
    test of the command on the way), from the guards that compare the command
    variable with constants: membership filters and equality tests together"""
    allowed, excluded = None, set()
    for a, pol, tid in guard_facts(g, node.id):
        cc = const_compare(prog, f.module, a, f.cls)
        if not cc or cc[0] not in var_texts:
            continue
        vals = {v for v in cc[2] if isinstance(v, str)}
        if (cc[1] == 'in') == pol:
            allowed = vals if allowed is None else allowed & vals
        else:
            excluded |= vals
    if allowed is None:
        return None
    return allowed - excluded


def _msg_vars(f, key):
    """texts that denote msg[key] in a callback: the expression itself and
    the locals bound to it"""
    msg = f.params[-1]
    texts = {"%s['%s']" % (msg, key), "%s.get('%s')" % (msg, key)}
    out = set(texts)
    for n in walk(f.node):
        if isinstance(n, ast.Assign) and unparse(n.value) in texts:
            for t in n.targets:
                if isinstance(t, ast.Name):
                    out.add(t.id)
    return out


def _cmd_messages(prog, K):
    """[(method, dict display, command or UNKNOWN, set of arg keys or None)]:
    the messages {'cmd': .., 'arg': {..}} built by the methods of a class"""
    out = []
    for mname, m in sorted(K.methods.items()):
        for n in walk(m.node, nested=True):
            if not isinstance(n, ast.Dict):
                continue
            keys = {k.value: v for k, v in zip(n.keys, n.values)
                    if isinstance(k, ast.Constant)}
            if 'cmd' not in keys:
                continue
            cmd = prog.fold(m.module, keys['cmd'], m.cls)
            arg = keys.get('arg')
            akeys = None
            if isinstance(arg, ast.Dict) and all(
                    isinstance(k, ast.Constant) for k in arg.keys):
                akeys = {k.value for k in arg.keys}
            out.append((m, n, cmd if isinstance(cmd, str) else UNKNOWN, akeys))
    return out


def _handled_commands(prog):
    """the command strings some function of the package compares the 'cmd'
    entry of a message with (equality, membership; constants folded)"""
    out = set()
    for mod in prog.modules.values():
        funcs = list(mod.funcs.values())
        for c in mod.classes.values():
            funcs += list(c.methods.values())
        for f in funcs:
            names = set()
            for n in walk(f.node):
                if isinstance(n, ast.Assign):
                    v = n.value
                    if isinstance(v, ast.Call) and \
                            isinstance(v.func, ast.Attribute) and \
                            v.func.attr == 'get' and v.args:
                        k = v.args[0]
                    elif isinstance(v, ast.Subscript):
                        k = v.slice
                    else:
                        continue
                    if isinstance(k, ast.Constant) and k.value == 'cmd':
                        names |= {t.id for t in n.targets
                                  if isinstance(t, ast.Name)}
            if not names:
                continue
            for n in walk(f.node):
                if isinstance(n, ast.Compare):
                    cc = const_compare(prog, f.module, n, f.cls)
                    if cc and cc[0] in names:
                        out |= {v for v in cc[2] if isinstance(v, str)}
    return out


def r12_15(prog, rep, rid='R12.15'):
    rep.rule(rid, 'the command TaskManager.add_pilots / remove_pilots publishes '
             'is one for which control_cb of the scheduler calls '
             'self.add_pilots / self.remove_pilots, and carries the argument '
             'keys read on the way to that call; every command TaskManager '
             'publishes is handled by some callback', minimum=6)
    f = prog.method(BASE[0], BASE[1], 'control_cb')
    rep.saw(f)
    g = cfg_of(f)
    smap = I.stmt_node_map(g)
    cmdv = _msg_vars(f, 'cmd')
    argv = _msg_vars(f, 'arg')
    tm = prog.cls(*TMGR)
    pubs = _cmd_messages(prog, tm)
    for api in ('add_pilots', 'remove_pilots'):
        pf = prog.find_method(tm, api)
        if pf is None:
            raise AnalysisError('anchor TaskManager.%s not found' % api)
        rep.saw(pf)
        mine = [(cmd, d, akeys) for (xf, d, cmd, akeys) in pubs if xf is pf]
        if not mine or any(cmd is UNKNOWN for cmd, d, akeys in mine):
            raise AnalysisError(
                "UNRECOGNISED-IDIOM %s: no message {'cmd': <constant>, ..} is "
                "built here (or its command is not a constant)" % pf.where)
        calls = [c for c in calls_in(f.node)
                 if call_name(c) == 'self.' + api and id(c) in smap]
        if not calls:
            continue                    # reported by R12.1
        acts, reads = set(), set()
        for c in calls:
            node = smap[id(c)]
            vals = _cmd_values(prog, f, g, node, cmdv)
            if vals is None:
                continue                # no command test: reported by R12.1
            acts |= vals
            # keys of the argument read on a path to the call
            up = {n.id for n in g.nodes
                  if node.id in g.reachable(n.id)} & g.reachable(g.entry.id)
            for x in walk(f.node):
                if isinstance(x, ast.Subscript) and \
                        isinstance(x.ctx, ast.Load) and \
                        isinstance(x.slice, ast.Constant) and \
                        unparse(x.value) in argv and id(x) in smap and \
                        smap[id(x)].id in up:
                    # not in the branch of another command
                    there = _cmd_values(prog, f, g, smap[id(x)], cmdv)
                    if there is None or there & vals:
                        reads.add(x.slice.value)
            rep.check(bool(vals), rid, f, 'control_cb: `%s` is reachable for '
                      'the command(s) %s' % (short(c, 40), sorted(vals)),
                      construct='%s [reachable for some command]'
                      % short(c, 60),
                      message='control_cb: the tests of the command on the way '
                      'to `%s` exclude each other (the accepted commands of '
                      'the filter and the branch test have no string in '
                      'common): no command makes the scheduler call it'
                      % short(c, 50), loc=f.loc(c),
                      history='%s(p1) of the TaskManager has no effect on the '
                      'pilot set of the scheduler' % api)
        for cmd, d, akeys in mine:
            if not acts:
                break
            okay = cmd in acts
            rep.check(okay, rid, pf, "TaskManager.%s publishes %r, for which "
                      "control_cb calls self.%s" % (api, cmd, api),
                      construct='TaskManager.%s -> control_cb [command]' % api,
                      message="TaskManager.%s publishes the command %r, but "
                      "TMGRSchedulingComponent.control_cb calls self.%s only "
                      "for %s: the message is ignored, the scheduler never "
                      "learns that the pilot was %s" % (
                          api, cmd, api, sorted(acts),
                          'added - tasks wait for ever' if api == 'add_pilots'
                          else 'removed - it keeps role ADDED and stays in '
                          'self._pids, tasks submitted later are still bound '
                          'to the removed pilot'),
                      loc=pf.loc(d),
                      history='add_pilots(p0, p1), remove_pilots(p1), submit '
                      'four tasks under RoundRobin: two of them are bound to '
                      'p1' if api == 'remove_pilots' else 'add_pilots(p1), '
                      'submit a task: it stays in the wait pool')
            if okay and akeys is not None:
                miss = reads - akeys
                rep.check(not miss, rid, pf, "TaskManager.%s writes the "
                          "argument keys %s control_cb reads for %r"
                          % (api, sorted(reads), cmd),
                          construct='TaskManager.%s -> control_cb [keys]' % api,
                          message="control_cb reads arg[%s] on the way to "
                          "self.%s, but TaskManager.%s publishes only the keys "
                          "%s: the handler raises KeyError and the command is "
                          "lost" % (', '.join(repr(k) for k in sorted(miss)),
                                    api, api, sorted(akeys)),
                          loc=pf.loc(d),
                          history='every %s command makes control_cb raise; '
                          'the pilot set of the scheduler never changes' % api)
    # every command of the TaskManager has a handler somewhere
    handled = _handled_commands(prog)
    if not handled:
        raise AnalysisError('UNRECOGNISED-IDIOM: no callback of the package '
                            'tests a command constant')
    for xf, d, cmd, akeys in pubs:
        if cmd is UNKNOWN:
            continue
        rep.saw(xf)
        rep.check(cmd in handled, rid, xf, '%s publishes %r, which a '
                  'callback handles' % (xf.qual, cmd),
                  construct='%s publishes %r' % (xf.qual, cmd),
                  message='%s publishes the command %r, which no callback '
                  'of the package tests for (handled commands: %s): the '
                  'message has no effect' % (xf.qual, cmd, sorted(handled)),
                  loc=xf.loc(d), history='the request published by %s is '
                  'dropped by every component' % xf.qual)


# ------------------------------------------------------------------------------
# R12.8 (extension of R12.1)  a pilot object read from the table is a real one
#
def fresh_dict(g, v, at):
    """the dict display / dict(..) call that v denotes at node `at`: v itself
    or the value of every definition of the local v (all displays) - else
    None"""
    if isinstance(v, ast.Dict) or isinstance(v, ast.Call) and \
            dotted(v.func) == 'dict':
        return [v]
    if isinstance(v, ast.Name):
        defs, undef = defs_reaching(g, v.id, at)
        vals = [assigned_value(d.ast, v.id) if d.kind == 'stmt' else None
                for d in defs]
        if defs and not undef and all(
                isinstance(x, ast.Dict) or isinstance(x, ast.Call) and
                dotted(x.func) == 'dict' for x in vals):
            return vals
    return None


def dict_field(d, key):
    """value expression of a constant key in a dict display / dict(k=v)"""
    if isinstance(d, ast.Dict):
        for k, v in zip(d.keys, d.values):
            if isinstance(k, ast.Constant) and k.value == key:
                return v
    if isinstance(d, ast.Call):
        for k in d.keywords:
            if k.arg == key:
                return k.value
    return None


def record_stores(f, g):
    """[(assignment, cfg node, key expr, [dict displays])]: stores of a fresh
    record into self._pilots[<key>]"""
    smap = I.stmt_node_map(g)
    out = []
    for n in walk(f.node):
        if not isinstance(n, ast.Assign) or id(n) not in smap:
            continue
        node = smap[id(n)]
        for t in n.targets:
            if not isinstance(t, ast.Subscript) or \
                    isinstance(t.slice, ast.Slice):
                continue
            if not is_self_attr(resolve_local(g, t.value, node.id), '_pilots'):
                continue
            ds = fresh_dict(g, n.value, node.id)
            if ds:
                out.append((n, node, t.slice, ds))
    return out


def placeholder_writers(prog):
    """[(FuncInfo, stmt)]: stores of an entry {.. 'pilot': None ..} into
    self._pilots which the same function does not complete with a pilot
    object on every normal path (entries of pilots that were never added)"""
    out = []
    seen = set()
    for rel, cname in (BASE, RR, BF):
        K = prog.cls(rel, cname)
        for mname, f in sorted(K.methods.items()):
            if id(f.node) in seen:
                continue
            seen.add(id(f.node))
            g = cfg_of(f)
            ws = []
            for n, node, key, ds in record_stores(f, g):
                for d in ds:
                    v = dict_field(d, 'pilot')
                    if isinstance(v, ast.Constant) and v.value is None and \
                            n not in ws:
                        ws.append(n)
            if not ws:
                continue
            smap = I.stmt_node_map(g)
            fills = [smap[id(st)].id for kind, t, st in I.stores(f.node)
                     if kind == 'assign' and id(st) in smap and pilot_entry(
                         resolve_local(g, t, smap[id(st)].id), 'pilot')
                     is not None and not (isinstance(st.value, ast.Constant)
                                          and st.value.value is None)]
            for w in ws:
                wn = smap[id(w)]
                ends = {g.exit.id}
                if wn.loops:
                    ends.add(wn.loops[-1])
                if ends & reach_noeffect(g, nsucc(g, wn.id), fills):
                    out.append((f, w))
    return out


def _key_read(v, key):
    """X.get(key) / X[key] for a local X  ->  the name X"""
    if isinstance(v, ast.Call) and isinstance(v.func, ast.Attribute) and \
            v.func.attr == 'get' and v.args and \
            isinstance(v.args[0], ast.Constant) and \
            v.args[0].value == key and isinstance(v.func.value, ast.Name):
        return v.func.value.id
    if isinstance(v, ast.Subscript) and isinstance(v.slice, ast.Constant) and \
            v.slice.value == key and isinstance(v.value, ast.Name):
        return v.value.id
    return None


def _only_unbound_callers(prog, f, g, node):
    """the site lies on a branch `<task's pilot>` is truthy, in a method whose
    callers (in the scheduler classes) pass only tasks collected on the
    branch where the task names no pilot: the site is unreachable"""
    params = [p for p in f.params if p != 'self']
    if not params:
        return False
    bound = False
    for a, pol, tid in guard_facts(g, node.id):
        if isinstance(a, ast.Name) and pol:
            kf = _field_of(g, a, tid)
            if kf is not None and kf[0] == 'ok' and kf[3] == 'pilot':
                tv = kf[1]
                h = enclosing_for(g, node, tv)
                if h is not None and isinstance(h.iter, ast.Name) and \
                        h.iter.id == params[0]:
                    bound = True
    if not bound:
        return False
    callers = 0
    seen = set()
    for rel, cname in (BASE, RR, BF):
        for mname, m in prog.cls(rel, cname).methods.items():
            if id(m.node) in seen:
                continue
            seen.add(id(m.node))
            for c in calls_in(m.node):
                if call_name(c) != 'self.' + f.name:
                    continue
                callers += 1
                if not (c.args and isinstance(c.args[0], ast.Name)):
                    return False
                L = c.args[0].id
                mg = cfg_of(m)
                for dn in [n for n in mg.nodes if L in stores_of(n)]:
                    if not (dn.kind == 'stmt' and
                            isinstance(dn.ast, ast.Assign) and
                            is_empty_ctor(dn.ast.value)):
                        return False
                apps = 0
                for n in mg.nodes:
                    if n.kind != 'stmt' or n.ast is None:
                        continue
                    for cc in calls_in(n.ast):
                        if isinstance(cc.func, ast.Attribute) and \
                                cc.func.attr == 'append' and \
                                isinstance(cc.func.value, ast.Name) and \
                                cc.func.value.id == L and cc.args and \
                                isinstance(cc.args[0], ast.Name):
                            apps += 1
                            okay = False
                            for a, pol, tid in guard_facts(mg, n.id):
                                if isinstance(a, ast.Name) and not pol:
                                    kf = _field_of(mg, a, tid)
                                    if kf is not None and kf[0] == 'ok' and \
                                            kf[3] == 'pilot' and \
                                            kf[1] == cc.args[0].id:
                                        okay = True
                            if not okay:
                                return False
                if not apps:
                    return False
    return callers > 0


def r12_8(prog, rep, rid='R12.8'):
    rep.rule(rid, 'a pilot object read from self._pilots[..][\'pilot\'] and '
             'handed to _assign_pilot is guarded by its own truth value, by '
             'role == ADDED of that entry, or its key comes from self._pids; '
             'membership in self._pilots suffices only if no placeholder '
             'entries are written', minimum=3)
    added, removed = role_consts(prog)
    holders = placeholder_writers(prog)
    htxt = ', '.join('%s (%s)' % (hf.qual, hf.loc(st)) for hf, st in holders)
    seen = set()
    for rel, cname in (BASE, RR, BF):
        K = prog.cls(rel, cname)
        for mname, f in sorted(K.methods.items()):
            if id(f.node) in seen:
                continue
            seen.add(id(f.node))
            calls = assign_calls(f)
            if not calls:
                continue
            g = cfg_of(f)
            smap = I.stmt_node_map(g)
            for c in calls:
                node = smap.get(id(c))
                p = assign_pilot_arg(c)
                if node is None or p is None:
                    continue
                keys = []           # (key expr, at)
                pdefs = None
                if isinstance(p, ast.Name):
                    defs, undef = defs_reaching(g, p.id, node.id)
                    pdefs = {d.id for d in defs}
                    for dn in defs:
                        v = assigned_value(dn.ast, p.id) \
                            if dn.kind == 'stmt' else None
                        if v is not None:
                            k = pilot_entry(resolve_local(g, v, dn.id), 'pilot')
                            if k is not None:
                                keys.append((k, dn.id))
                else:
                    k = pilot_entry(resolve_local(g, p, node.id), 'pilot')
                    if k is not None:
                        keys.append((k, node.id))
                if not keys:
                    continue        # not read from the table (the command)
                rep.saw(f)
                how = None
                if all(derive(g, k, at) == 'pids' for k, at in keys):
                    how = 'its key is drawn from self._pids'
                for a, pol, tid in guard_facts(g, node.id):
                    if how:
                        break
                    # truth value of the pilot object itself
                    if isinstance(p, ast.Name):
                        same = {d.id for d in defs_reaching(g, p.id, tid)[0]} \
                            == pdefs
                        if isinstance(a, ast.Name) and a.id == p.id and pol \
                                and same:
                            how = 'it is tested for truth'
                        if isinstance(a, ast.Compare) and len(a.ops) == 1 and \
                                isinstance(a.left, ast.Name) and \
                                a.left.id == p.id and same and \
                                isinstance(a.comparators[0], ast.Constant) and \
                                a.comparators[0].value is None:
                            isnot = isinstance(a.ops[0], (ast.IsNot, ast.NotEq))
                            if isnot == pol:
                                how = 'it is tested against None'
                    # role of the same entry
                    if classify_role_atom(prog, f, g, a, pol, tid, added) \
                            == 'ok':
                        how = 'the role of the entry is ADDED'
                    # membership, if no placeholders exist
                    if not holders and isinstance(a, ast.Compare) and \
                            len(a.ops) == 1 and \
                            is_self_attr(a.comparators[0], '_pilots') and \
                            isinstance(a.ops[0], (ast.In, ast.NotIn)) and \
                            isinstance(a.ops[0], ast.In) == pol and \
                            any(unparse(k) in (
                                unparse(a.left),
                                unparse(resolve_local(g, a.left, tid)))
                                for k, _ in keys):
                        how = 'its key is a member of self._pilots, which ' \
                              'holds added pilots only'
                if not how and _only_unbound_callers(prog, f, g, node):
                    how = 'the branch is unreachable: every caller passes ' \
                          'only tasks that name no pilot'
                    rep.info(rid, f, '%s.%s: `%s` lies on a dead branch (%s)'
                             % (cname, mname, short(c, 50), how), f.loc(c))
                rep.check(bool(how), rid, f, '%s.%s: the pilot of `%s` is a '
                          'real pilot object: %s' % (cname, mname,
                                                     short(c, 50), how),
                          construct='%s [pilot object from the table]'
                          % unparse(c),
                          message='%s.%s: `%s` receives self._pilots[%s]'
                          '[\'pilot\'] without a test of that object (or of '
                          'role == ADDED); the entry may be a placeholder with '
                          'pilot None, written by %s for a pilot that is only '
                          'known from a state notification: _assign_pilot(task, '
                          'None) raises and the whole batch is lost instead of '
                          'the task waiting for its pilot'
                          % (cname, mname, short(c, 50),
                             unparse(keys[0][0]), htxt or '<none>'),
                          loc=f.loc(c),
                          history='state notification for pilot p1 arrives '
                          'before add_pilots(p1); work([t]) with t[\'pilot\'] '
                          '== p1: TypeError in _assign_pilot, t and the rest '
                          'of the batch are neither forwarded nor kept in '
                          'self._early')


# ------------------------------------------------------------------------------
# R12.9  the record of a pilot is created once
#
def _unknown_key(g, atom, pol, tid, key):
    """the test establishes that `key` has no record in self._pilots"""
    kt = unparse(resolve_local(g, key, tid))

    def same(e):
        return unparse(resolve_local(g, e, tid)) == kt or \
            unparse(e) == unparse(key)
    if isinstance(atom, ast.Compare) and len(atom.ops) == 1:
        op, l, r = atom.ops[0], atom.left, atom.comparators[0]
        if isinstance(op, (ast.In, ast.NotIn)) and same(l):
            r = resolve_local(g, r, tid)
            if isinstance(r, ast.Call) and isinstance(r.func, ast.Attribute) \
                    and r.func.attr == 'keys' and not r.args:
                r = r.func.value
            if is_self_attr(r, '_pilots'):
                return isinstance(op, ast.NotIn) == pol
        if isinstance(op, (ast.Is, ast.IsNot, ast.Eq, ast.NotEq)) and \
                isinstance(r, ast.Constant) and r.value is None and \
                _record_lookup(g, l, tid, same):
            return isinstance(op, (ast.Is, ast.Eq)) == pol
        return False
    return not pol and _record_lookup(g, atom, tid, same)   # `if not rec:`


def _record_lookup(g, e, tid, same):
    """e is self._pilots.get(<key>) (no default / None), directly or through
    a local whose only definition reaching the test is that"""
    if isinstance(e, ast.Name):
        defs, undef = defs_reaching(g, e.id, tid)
        if undef or len(defs) != 1 or defs[0].kind != 'stmt':
            return False
        e = assigned_value(defs[0].ast, e.id)
    return isinstance(e, ast.Call) and isinstance(e.func, ast.Attribute) and \
        e.func.attr == 'get' and not e.keywords and \
        is_self_attr(resolve_local(g, e.func.value, tid), '_pilots') and \
        (len(e.args) == 1 or len(e.args) == 2 and
         isinstance(e.args[1], ast.Constant) and e.args[1].value is None) \
        and same(e.args[0])


def r12_9(prog, rep, rid='R12.9'):
    rep.rule(rid, 'the record of a pilot in self._pilots is created only for a '
             'pilot that has none: what the scheduler learned about the pilot '
             '(state, usage) is never reset by a command or notification',
             minimum=1)
    seen = set()
    for rel, cname in (BASE, RR, BF):
        K = prog.cls(rel, cname)
        for mname, f in sorted(K.methods.items()):
            if id(f.node) in seen or mname in STARTUP:
                continue
            seen.add(id(f.node))
            g = cfg_of(f)
            # setdefault creates for unknown keys only
            for c in calls_in(f.node):
                if isinstance(c.func, ast.Attribute) and \
                        c.func.attr == 'setdefault' and len(c.args) == 2 and \
                        id(c) in I.stmt_node_map(g) and is_self_attr(
                            resolve_local(g, c.func.value,
                                          I.stmt_node_map(g)[id(c)].id),
                            '_pilots'):
                    rep.saw(f)
                    rep.ok(rid, f, '%s.%s: `%s` creates the record for an '
                           'unknown pilot only' % (cname, mname, short(c, 50)),
                           f.loc(c))
            for n, node, key, ds in record_stores(f, g):
                rep.saw(f)
                okay = any(_unknown_key(g, a, pol, tid, key)
                           for a, pol, tid in guard_facts(g, node.id))
                if not okay and _in_handler(g, node):
                    raise AnalysisError(
                        'UNRECOGNISED-IDIOM %s: `%s` in an exception handler: '
                        'cannot tell whether the pilot is unknown there'
                        % (f.where, short(n, 50)))
                rep.check(okay, rid, f, '%s.%s: `%s` is control dependent on '
                          'the pilot having no record yet'
                          % (cname, mname, short(n, 50)),
                          construct='self._pilots[%s] = <new record>'
                          % unparse(key),
                          message='%s.%s: `%s` stores a new record for the '
                          'pilot without a test that it has none (`%s not in '
                          'self._pilots`): the state (and usage figure) the '
                          'scheduler has learned for that pilot is thrown '
                          'away, and the next state taken from a command or '
                          'notification is accepted without the forward-only '
                          'check - Backfilling then evaluates its eligibility '
                          'window against a state the pilot has already left'
                          % (cname, mname, short(n, 60), unparse(key)),
                          loc=f.loc(n),
                          history='state notifications p1 -> PMGR_ACTIVE, p1 '
                          '-> FAILED arrive; then add_pilots(p1) with a pilot '
                          'document captured while p1 was PMGR_ACTIVE (control '
                          'and state channel are not ordered; same for remove '
                          '/ pilot ends / re-add): the record is rebuilt, its '
                          'state becomes PMGR_ACTIVE again and Backfilling '
                          'binds the waiting tasks to the dead pilot')


def _in_handler(g, node):
    """the node lies in the body of an except clause"""
    for h in g.nodes:
        if h.kind == 'handler' and h.ast is not None and \
                any(x is node.ast for s in h.ast.body for x in ast.walk(s)):
            return True
    return False


# ------------------------------------------------------------------------------
# R12.2  one outcome per task
#
def outcomes_in(node, tvar):
    """outcome effects of a cfg node for the task variable: [(kind, container
    text, ast)] - hand-on of the task, retention of the task in a container"""
    out = []
    a = node.ast
    if a is None or node.kind not in ('stmt',):
        return out
    for c in calls_in(a):
        if I.is_handon(c):
            th = I.handon_thing(c)
            if isinstance(th, ast.Name) and th.id == tvar:
                out.append(('handon', unparse(c.func), c))
        elif isinstance(c.func, ast.Attribute) and \
                c.func.attr in ('append', 'add') and len(c.args) == 1 and \
                isinstance(c.args[0], ast.Name) and c.args[0].id == tvar:
            recv = c.func.value
            # d.setdefault(k, list()).append(t) == d[k].append(t)
            if isinstance(recv, ast.Call) and \
                    isinstance(recv.func, ast.Attribute) and \
                    recv.func.attr == 'setdefault' and len(recv.args) == 2 \
                    and I.is_path(recv.func.value):
                recv = ast.Subscript(value=recv.func.value, slice=recv.args[0],
                                     ctx=ast.Load())
            if I.is_path(recv):
                out.append(('retain', unparse(recv), c))
    if isinstance(a, ast.Assign) and isinstance(a.value, ast.Name) and \
            a.value.id == tvar:
        for t in a.targets:
            if isinstance(t, ast.Subscript) and I.is_path(t.value):
                out.append(('retain', unparse(t.value), a))
    # d[k] = d.get(k, []) + [t]  /  d[k] = d[k] + [t]
    if isinstance(a, ast.Assign) and isinstance(a.value, ast.BinOp) and \
            isinstance(a.value.op, ast.Add) and \
            isinstance(a.value.right, (ast.List, ast.Tuple)) and \
            len(a.value.right.elts) == 1 and \
            isinstance(a.value.right.elts[0], ast.Name) and \
            a.value.right.elts[0].id == tvar:
        for t in a.targets:
            if isinstance(t, ast.Subscript) and I.is_path(t.value):
                out.append(('retain', unparse(t), a))
    return out


def bool_flags(f):
    """local names which are only ever assigned True / False"""
    vals = {}
    for n in walk(f.node):
        if isinstance(n, (ast.Assign, ast.AugAssign, ast.AnnAssign, ast.For,
                          ast.comprehension, ast.NamedExpr, ast.withitem)):
            if isinstance(n, ast.Assign):
                tg, v = n.targets, n.value
            elif isinstance(n, ast.withitem):
                tg, v = ([n.optional_vars] if n.optional_vars else []), None
            elif isinstance(n, (ast.For, ast.comprehension)):
                tg, v = [n.target], None
            else:
                tg, v = [n.target], None
            for t in tg:
                for name in stores_in_target(t):
                    good = isinstance(t, ast.Name) and \
                        isinstance(v, ast.Constant) and \
                        isinstance(v.value, bool)
                    vals[name] = vals.get(name, True) and good
    return {k for k, v in vals.items() if v} - set(f.params)


def _iterates_tasks(f, it):
    """the iterable is a parameter of the function (the incoming tasks) or is
    rooted at one of the persistent pools"""
    e = it
    while True:
        if isinstance(e, ast.Call):
            if isinstance(e.func, ast.Attribute) and \
                    e.func.attr in ('items', 'values', 'copy'):
                e = e.func.value
            elif dotted(e.func) in ('list', 'sorted', 'reversed', 'enumerate') \
                    and e.args:
                e = e.args[0]
            else:
                return False
        elif isinstance(e, ast.Subscript):
            e = e.value
        else:
            break
    if isinstance(e, ast.Name):
        return e.id in f.params
    return isinstance(e, ast.Attribute) and is_self_attr(e) and e.attr in POOLS


def task_loops(f, g):
    """[(loop view, task variable)]: outermost loops whose body has an
    outcome for a name bound by the loop"""
    out = []
    for h, hn in sorted(loop_views(g).items()):
        if not _iterates_tasks(f, hn.iter):
            continue
        for name in hn.names:
            if any(outcomes_in(g.nodes[i], name) for i in g.loop_body[h]):
                if not any(o.id in hn.loops and v == name for o, v in out):
                    out.append((hn, name))
    return out


def r12_2(prog, rep, rid='R12.2'):
    rep.rule(rid, 'every iteration of the task loops of work, RoundRobin._work/'
             '_schedule_tasks, Backfilling._work/_schedule_tasks has exactly '
             'one outcome for the task (handed on xor kept in one pool), and '
             'every local outcome list is handed on after the loop', minimum=12)
    anchors = [(BASE, 'work'), (RR, '_work'), (RR, '_schedule_tasks'),
               (BF, '_work'), (BF, '_schedule_tasks')]
    nloops = 0
    for (rel, cname), mname in anchors:
        f = prog.method(rel, cname, mname)
        rep.saw(f)
        g = cfg_of(f)
        flags = bool_flags(f)
        loops = task_loops(f, g)
        if not loops:
            raise AnalysisError('UNRECOGNISED-IDIOM %s: no loop over tasks '
                                'with an outcome per task' % f.where)
        for hn, tvar in loops:
            nloops += 1
            _one_outcome(rep, rid, f, g, hn, tvar, flags, cname)
            _consumed(rep, rid, f, g, hn, tvar, cname)
        _whole_list(rep, rid, f, g, loops, cname)
    rep.stat('task_loops', nloops)


def _one_outcome(rep, rid, f, g, hn, tvar, flags, cname):
    start, stop, stop_edge = loop_slice(g, hn.id)

    def transfer(node, edge, st):
        cnt, fl = st
        a = node.ast
        if node.kind == 'test' and edge.label in 'TF' and \
                isinstance(a, ast.Constant):
            if bool(a.value) != (edge.label == 'T'):
                return None
        if node.kind == 'test' and edge.label in 'TF' and \
                isinstance(a, ast.Name) and a.id in flags:
            known = dict(fl).get(a.id)
            if known is not None and known != (edge.label == 'T'):
                return None
        if edge.label == 'exc':
            return st
        if node.kind == 'stmt':
            if isinstance(a, ast.Assign) and len(a.targets) == 1 and \
                    isinstance(a.targets[0], ast.Name) and \
                    a.targets[0].id in flags:
                dfl = dict(fl)
                dfl[a.targets[0].id] = a.value.value
                fl = tuple(sorted(dfl.items()))
            k = len(outcomes_in(node, tvar))
            if k:
                cnt = min(2, cnt + k)
        return (cnt, fl)

    ex = Exploration(g, start, (0, ()), transfer, stop=stop,
                     stop_edge=stop_edge)
    rep.stat('paths', ex.states)
    lost, twice = [], []
    for t in ex.terminals:
        if t.node == g.raise_.id:
            continue
        if t.state[0] == 0:
            lost.append(t)
        elif t.state[0] >= 2:
            twice.append(t)
    hdr = hn.header
    what = '%s.%s: every path through one iteration of `%s` has exactly one ' \
           'outcome for %r' % (cname, f.name, hdr, tvar)
    if lost:
        rep.bad(rid, f, '%s [task lost]' % hdr,
                '%s.%s: an iteration of `%s` can end without %r being handed '
                'on or kept in any pool: the task disappears in the scheduler'
                % (cname, f.name, hdr, tvar), f.loc(hn.ast),
                history='a task taking the branch [%s] is never bound and '
                'never reported' % ' ; '.join(ex.literals(lost[0])),
                path=ex.literals(lost[0]))
    if twice:
        rep.bad(rid, f, '%s [two outcomes]' % hdr,
                '%s.%s: an iteration of `%s` gives %r two outcomes (handed on '
                'and/or kept twice): the task is bound or forwarded twice'
                % (cname, f.name, hdr, tvar), f.loc(hn.ast),
                history='a task taking the branch [%s] is forwarded twice'
                % ' ; '.join(ex.literals(twice[0])),
                path=ex.literals(twice[0]))
    if not lost and not twice:
        rep.ok(rid, f, what, f.loc(hn.ast))


def _local_containers(f, g, hn, tvar):
    """{name: [outcome nodes]} for outcome containers that are local names"""
    out = {}
    for i in g.loop_body[hn.id]:
        for kind, cont, a in outcomes_in(g.nodes[i], tvar):
            if kind == 'retain' and cont.isidentifier():
                out.setdefault(cont, []).append(g.nodes[i])
    return out


def consumer_nodes(g, name):
    """cfg nodes that hand the local collection `name` on: hand-on call,
    self-call with it as argument, store into a self attribute"""
    out = []
    for n in g.nodes:
        if n.kind != 'stmt' or n.ast is None:
            continue
        a = n.ast
        hit = False
        for c in calls_in(a):
            args = list(c.args) + [k.value for k in c.keywords]
            if any(isinstance(x, ast.Name) and x.id == name for x in args):
                if I.is_handon(c) or call_name(c).startswith('self.'):
                    hit = True
                elif isinstance(c.func, ast.Attribute) and \
                        c.func.attr in ('extend', 'update') and \
                        root_name(c.func.value) == 'self':
                    hit = True
        if isinstance(a, (ast.Assign, ast.AugAssign)) and \
                isinstance(a.value, ast.Name) and a.value.id == name:
            tg = a.targets if isinstance(a, ast.Assign) else [a.target]
            if any(root_name(t) == 'self' for t in tg):
                hit = True
        if hit:
            out.append(n)
    return out


def _truth_tests(g, name):
    out = []
    for n in g.nodes:
        if n.kind != 'test':
            continue
        a = n.ast
        if isinstance(a, ast.Name) and a.id == name:
            out.append(n.id)
            continue
        if isinstance(a, ast.Name):
            # `k = len(name); if k:`
            ds, ud = defs_reaching(g, a.id, n.id)
            vs = [assigned_value(d.ast, a.id) if d.kind == 'stmt' else None
                  for d in ds]
            if not ud and len(vs) == 1 and vs[0] is not None and \
                    not _touched(g, between(g, ds[0].id, n.id), name):
                a = vs[0]
        if isinstance(a, ast.Call) and dotted(a.func) == 'len' and \
                len(a.args) == 1 and isinstance(a.args[0], ast.Name) and \
                a.args[0].id == name:
            out.append(n.id)
    return out


def _consumed(rep, rid, f, g, hn, tvar, cname):
    conts = _local_containers(f, g, hn, tvar)
    after = hn.after
    for name in sorted(conts):
        cons = [n.id for n in consumer_nodes(g, name)]
        skip = [(t, 'F') for t in _truth_tests(g, name)]
        r = set()
        for s in after:
            if s in cons:
                continue
            r |= g.reachable(s, skip_nodes=cons, skip_edges=skip,
                             labels={'next', 'T', 'F', 'iter', 'done'})
        okay = bool(cons) and g.exit.id not in r
        rep.check(okay, rid, f, '%s.%s: the tasks collected in %r are handed '
                  'on (or the list is empty) on every path after the loop'
                  % (cname, f.name, name),
                  construct='%s [collected tasks handed on]' % name,
                  message='%s.%s: tasks are collected in %r, but a normal path '
                  'from the end of the loop to the return neither hands %r on '
                  'nor tests it empty: those tasks are dropped'
                  % (cname, f.name, name, name), loc=f.loc(conts[name][0].ast),
                  history='tasks that took the %r branch are never bound and '
                  'never reported' % name)


def _whole_list(rep, rid, f, g, loops, cname):
    """a list parameter which is both iterated and (elsewhere) kept wholesale:
    exactly one of the two on every normal path"""
    params = [p for p in f.params if p != 'self']
    for p in params:
        keep = []
        for n in g.nodes:
            if n.kind != 'stmt':
                continue
            a = n.ast
            if isinstance(a, ast.AugAssign) and isinstance(a.op, ast.Add) and \
                    isinstance(a.value, ast.Name) and a.value.id == p and \
                    root_name(a.target) == 'self':
                keep.append(n.id)
            for c in calls_in(a):
                if isinstance(c.func, ast.Attribute) and \
                        c.func.attr == 'extend' and c.args and \
                        isinstance(c.args[0], ast.Name) and \
                        c.args[0].id == p and root_name(c.func.value) == 'self':
                    keep.append(n.id)
        heads = [hn.id for hn, tv in loops
                 if isinstance(strip_copy(hn.iter), ast.Name)
                 and strip_copy(hn.iter).id == p]
        if not keep or not heads:
            continue

        def transfer(node, edge, st):
            if edge.label == 'exc':
                return st
            kept, looped = st
            if node.id in keep:
                kept = True
            if node.id in heads:
                looped = True
            return (kept, looped)
        ex = Exploration(g, g.entry.id, (False, False), transfer)
        both = [t for t in ex.terminals if t.node == g.exit.id and
                t.state == (True, True)]
        none = [t for t in ex.terminals if t.node == g.exit.id and
                t.state == (False, False)]
        bad = both or none
        rep.check(not bad, rid, f, '%s.%s: %r is either kept as a whole in the '
                  'wait pool or scheduled task by task, never both, never '
                  'neither' % (cname, f.name, p),
                  construct='%s [kept xor scheduled]' % p,
                  message='%s.%s: a normal path %s' % (
                      cname, f.name, 'keeps %r in the wait pool and schedules '
                      'it as well: every task is forwarded now and again when '
                      'the pool is drained' % p if both else 'neither keeps %r '
                      'nor schedules it: the tasks are dropped' % p),
                  loc=f.loc(), path=ex.literals(bad[0]) if bad else None,
                  history='no pilot is added yet and tasks arrive: [%s]'
                  % (' ; '.join(ex.literals(bad[0])) if bad else ''))


# ------------------------------------------------------------------------------
# R12.3  a pool whose content is handed on is drained on that path
#
def _pool_of(expr):
    """(pool attr, keyed, drains at source) if expr reads content of a
    persistent pool: self._wait_pool[:], list(self._wait_pool),
    self._early.get(k), self._early[k], self._early.pop(k, ..)"""
    e = expr
    keyed = False
    popped = False
    if isinstance(e, ast.Call):
        if dotted(e.func) in ('list', 'dict', 'sorted') and len(e.args) == 1:
            e = e.args[0]
        elif isinstance(e.func, ast.Attribute) and \
                e.func.attr in ('get', 'pop', 'copy', 'values', 'items'):
            keyed = e.func.attr in ('get', 'pop') and bool(e.args)
            popped = e.func.attr == 'pop' and bool(e.args)
            e = e.func.value
        else:
            return None
    if isinstance(e, ast.Subscript):
        if not isinstance(e.slice, ast.Slice):
            keyed = True
        e = e.value
    if is_self_attr(e) and e.attr in POOLS:
        return (e.attr, keyed, popped)
    return None


def _drains(g, pool, alias):
    """(drain nodes of the whole pool / of one key, drain nodes through the
    alias)"""
    hard, soft = [], []
    for n in g.nodes:
        if n.kind != 'stmt' or n.ast is None:
            continue
        a = n.ast
        if isinstance(a, ast.Assign):
            for t in a.targets:
                if is_self_attr(t, pool) and (is_empty_ctor(a.value) or
                                              isinstance(a.value, ast.Name)
                                              and a.value.id != alias):
                    hard.append(n.id)
                if isinstance(t, ast.Subscript) and \
                        is_self_attr(t.value, pool) and is_empty_ctor(a.value):
                    hard.append(n.id)
        if isinstance(a, ast.Delete):
            for t in a.targets:
                if isinstance(t, ast.Subscript) and is_self_attr(t.value, pool):
                    hard.append(n.id)
                if isinstance(t, ast.Subscript) and \
                        isinstance(t.value, ast.Name) and t.value.id == alias:
                    soft.append(n.id)
        for c in calls_in(a):
            if isinstance(c.func, ast.Attribute) and \
                    c.func.attr in ('clear', 'pop', 'popitem'):
                if is_self_attr(c.func.value, pool):
                    hard.append(n.id)
                elif isinstance(c.func.value, ast.Name) and \
                        c.func.value.id == alias and c.func.attr == 'clear':
                    soft.append(n.id)
    return hard, soft


def r12_3(prog, rep, rid='R12.3'):
    rep.rule(rid, 'a pool (self._wait_pool, self._early[pid]) whose content is '
             'handed on is cleared on that path', minimum=3)
    base = prog.cls(*BASE)
    seen = set()
    for rel, cname in (BASE, RR, BF):
        K = prog.cls(rel, cname)
        for mname, f in sorted(K.methods.items()):
            if id(f.node) in seen:
                continue
            seen.add(id(f.node))
            g = None
            # (a) content copied / aliased into a local which is forwarded
            for n in walk(f.node):
                if not (isinstance(n, ast.Assign) and len(n.targets) == 1 and
                        isinstance(n.targets[0], ast.Name)):
                    continue
                po = _pool_of(n.value)
                if po is None:
                    continue
                pool, keyed, popped = po
                alias = n.targets[0].id
                g = g or cfg_of(f)
                smap = I.stmt_node_map(g)
                dnode = smap[id(n)]
                fwd = []
                for c in calls_in(f.node):
                    args = list(c.args) + [k.value for k in c.keywords]
                    if not any(isinstance(x, ast.Name) and x.id == alias
                               for x in args):
                        continue
                    if I.is_handon(c) or (call_name(c).startswith('self.')
                                          and call_name(c) != 'self._assign_pilot'
                                          and not call_name(c).startswith(
                                              'self._log')):
                        fn = smap.get(id(c))
                        if fn is not None and fn.id in g.reachable(dnode.id):
                            fwd.append((c, fn))
                if not fwd:
                    continue
                rep.saw(f)
                is_alias = not isinstance(n.value, ast.Call) and not (
                    isinstance(n.value, ast.Subscript) and
                    isinstance(n.value.slice, ast.Slice))
                hard, soft = _drains(g, pool, alias)
                for c, fn in fwd:
                    if popped:
                        okay = True
                    else:
                        before = bool(hard) and fn.id not in reach_noeffect(
                            g, nsucc(g, dnode.id), hard)
                        ends = {g.exit.id}
                        if fn.loops:
                            ends.add(fn.loops[-1])
                        via = list(hard)
                        callee = prog.resolve_call(f, c, K)
                        refill = callee is not None and any(
                            is_self_attr(t if not isinstance(t, ast.Subscript)
                                         else t.value, pool)
                            for _, t, _ in I.stores(callee.node))
                        if I.is_handon(c) or not refill:
                            via += soft if (keyed and is_alias) else []
                            r = reach_noeffect(g, nsucc(g, fn.id), via)
                            after = bool(via) and not (ends & r)
                        else:
                            after = False
                        okay = before or after
                    what = 'self.%s%s' % (pool, '[<key>]' if keyed else '')
                    rep.check(okay, rid, f, '%s.%s: %s is cleared on the path '
                              'that forwards its content by `%s`'
                              % (cname, mname, what, short(c, 50)),
                              construct=c,
                              message='%s.%s: the tasks read from %s (`%s`) are '
                              'forwarded by `%s`, but the pool entry is not '
                              'cleared on that path: the same tasks are '
                              'forwarded again the next time this code runs '
                              'for the same key' % (cname, mname, what,
                                                    short(n, 50), short(c, 60)),
                              loc=f.loc(c),
                              history='tasks t1, t2 name pilot p1 before p1 is '
                              'known (kept in self._early[p1]); add_pilots(p1) '
                              'forwards them; remove_pilots(p1); add_pilots(p1) '
                              'again: t1, t2 are assigned and advanced to '
                              'TMGR_STAGING_INPUT_PENDING a second time'
                              if pool == '_early' else
                              'tasks wait in the pool; a pilot is added twice '
                              'in a row (or another event drains the pool '
                              'again): the waiting tasks are scheduled twice')
            # (b) a loop iterates the pool itself and forwards some items
            g = g or cfg_of(f)
            for hn, tvar in task_loops(f, g):
                root = hn.iter
                if not any(is_self_attr(x) and x.attr in POOLS
                           for x in walk(root)):
                    continue
                pool = [x.attr for x in walk(root)
                        if is_self_attr(x) and x.attr in POOLS][0]
                conts = _local_containers(f, g, hn, tvar)
                forwarded = [c for c in conts if any(
                    I.is_handon(cc) for n in consumer_nodes(g, c)
                    for cc in calls_in(n.ast))]
                direct = any(k == 'handon' for i in g.loop_body[hn.id]
                             for k, _, _ in outcomes_in(g.nodes[i], tvar))
                if not forwarded and not direct:
                    continue
                rep.saw(f)
                kept = [c for c in conts if c not in forwarded]
                repl = []
                for n in g.nodes:
                    if n.kind == 'stmt' and isinstance(n.ast, ast.Assign) and \
                            any(is_self_attr(t, pool) for t in n.ast.targets) \
                            and isinstance(n.ast.value, ast.Name) and \
                            n.ast.value.id in kept:
                        repl.append(n.id)
                r = reach_noeffect(g, hn.after, repl)
                okay = bool(repl) and g.exit.id not in r
                rep.check(okay, rid, f, '%s.%s: after the loop over self.%s '
                          'the pool is replaced by the tasks that were not '
                          'scheduled' % (cname, mname, pool),
                          construct='self.%s = <unscheduled>' % pool,
                          message='%s.%s: the loop over self.%s forwards some '
                          'of its tasks (%s), but a normal path to the return '
                          'does not replace the pool by the remaining tasks: '
                          'scheduled tasks stay in the wait pool and are '
                          'scheduled again' % (cname, mname, pool,
                                               ', '.join(forwarded) or
                                               'direct hand-on'),
                          loc=f.loc(hn.ast),
                          history='one task waits, a pilot becomes active: the '
                          'task is bound and advanced; the next task state '
                          'update triggers _schedule_tasks again: the same '
                          'task is bound and advanced a second time')


# ------------------------------------------------------------------------------
# R12.4  _assign_pilot dominates every hand-on to TMGR_STAGING_INPUT_PENDING
#
def r12_4(prog, rep, rid='R12.4', classes=None):
    if rid == 'R12.4':
        rep.rule(rid, 'every task handed on to TMGR_STAGING_INPUT_PENDING went '
                 'through _assign_pilot (binding + sandboxes) on every path',
                 minimum=5)
    target = prog.const('states.py', 'TMGR_STAGING_INPUT_PENDING')
    seen = set()
    n_sites = 0
    for K in classes or [prog.cls(*x) for x in (BASE, RR, BF)]:
        for mname, f in sorted(K.methods.items()):
            if id(f.node) in seen:
                continue
            seen.add(id(f.node))
            for c in calls_in(f.node):
                if not I.is_handon(c) or \
                        I.handon_state(prog, f, c, K) != target:
                    continue
                n_sites += 1
                rep.saw(f)
                _assigned_before(prog, rep, rid, K, f, c)
    return n_sites


def _assigned_before(prog, rep, rid, K, f, c):
    g = cfg_of(f)
    smap = I.stmt_node_map(g)
    hnode = smap[id(c)]
    thing = I.handon_thing(c)
    if not isinstance(thing, ast.Name):
        raise AnalysisError('UNRECOGNISED-IDIOM %s: `%s` hands on something '
                            'that is not a plain name' % (f.where, short(c, 60)))
    T = thing.id
    acalls = assign_calls(f)

    def anodes(name):
        return [smap[id(a)].id for a in acalls
                if isinstance(assign_task_arg(a), ast.Name) and
                assign_task_arg(a).id == name and id(a) in smap]

    def start_for(node, name):
        h = enclosing_for(g, node, name)
        return iter_start(g, h.id) if h is not None else g.entry.id

    okay, how = None, ''
    appends = []
    for n in g.nodes:
        if n.kind != 'stmt' or n.ast is None:
            continue
        for cc in calls_in(n.ast):
            if isinstance(cc.func, ast.Attribute) and \
                    cc.func.attr in ('append', 'add') and \
                    isinstance(cc.func.value, ast.Name) and \
                    cc.func.value.id == T and len(cc.args) == 1:
                appends.append((n, cc.args[0]))
    loops = [hn for h, hn in sorted(loop_views(g).items())
             if isinstance(strip_copy(hn.iter), ast.Name) and
             strip_copy(hn.iter).id == T and
             isinstance(hn.target, ast.Name) and anodes(hn.target.id)]
    if appends:
        # (b1) a local list: each element was assigned before it was appended
        defs = [n for n in g.nodes if T in stores_of(n)]
        for dn in defs:
            if not (dn.kind == 'stmt' and isinstance(dn.ast, ast.Assign) and
                    is_empty_ctor(dn.ast.value)):
                raise AnalysisError('UNRECOGNISED-IDIOM %s: list %r handed on '
                                    'by `%s` is also defined by `%s`'
                                    % (f.where, T, short(c, 50),
                                       short(dn.ast, 50)))
        okay = True
        for n, x in appends:
            if not isinstance(x, ast.Name):
                okay = False
                continue
            via = anodes(x.id)
            if not via or n.id in reach_noeffect(g, [start_for(n, x.id)], via):
                okay = False
        how = 'each task appended to %r was assigned first' % T
    elif loops:
        # (b2) a loop over the list assigns every element, before the hand-on
        okay = False
        for hn in loops:
            via = anodes(hn.target.id)
            each = hn.id not in reach_noeffect(g, [iter_start(g, hn.id)], via)
            before = hnode.id not in g.reachable(g.entry.id,
                                                 skip_nodes={hn.id})
            okay = okay or (each and before)
        how = 'a loop over %r assigns every task before the hand-on' % T
    else:
        via = anodes(T)
        okay = bool(via) and hnode.id not in reach_noeffect(
            g, [start_for(hnode, T)], via)
        how = '_assign_pilot(%s, ..) precedes the hand-on' % T
    rep.check(okay, rid, f, '%s.%s: `%s`: %s' % (K.name, f.name, short(c, 50),
                                                how),
              construct=c,
              message='%s.%s: `%s` can be reached with a task that did not '
              'pass self._assign_pilot(): the task goes to input staging '
              'without a pilot binding and without sandboxes'
              % (K.name, f.name, short(c, 60)), loc=f.loc(c),
              history='the task arrives at the tmgr input stager with '
              "task['pilot'] unset (or naming a pilot whose sandboxes were "
              'never derived): staging and the agent hand-over fail')


# ------------------------------------------------------------------------------
# R12.5  backfilling eligibility
#
def _flip(op):
    return {ast.Lt: ast.Gt, ast.Gt: ast.Lt, ast.LtE: ast.GtE,
            ast.GtE: ast.LtE, ast.Eq: ast.Eq, ast.NotEq: ast.NotEq}.get(type(op))


def _holds_when(op, pol):
    """relation that holds on the edge: (type of op) if pol else its negation"""
    neg = {ast.Lt: ast.GtE, ast.GtE: ast.Lt, ast.Gt: ast.LtE, ast.LtE: ast.Gt,
           ast.Eq: ast.NotEq, ast.NotEq: ast.Eq}
    t = type(op)
    return t if pol else neg.get(t)


def _state_value_of_pilot(g, e, at):
    """e == <..>_pilot_state_value(self._pilots[K]['state'])"""
    e = resolve_local(g, e, at)
    if isinstance(e, ast.Call) and \
            dotted(e.func).split('.')[-1] == '_pilot_state_value' and e.args:
        return pilot_entry(resolve_local(g, e.args[0], at), 'state') is not None
    return False


def _unchain(atom, pol):
    """a <= b <= c holding  ->  [a <= b, b <= c]"""
    if isinstance(atom, ast.Compare) and len(atom.ops) > 1 and pol:
        out = []
        left = atom.left
        for op, right in zip(atom.ops, atom.comparators):
            out.append(ast.Compare(left=left, ops=[op], comparators=[right]))
            left = right
        return out
    return [atom]


def classify_bf_guard(prog, f, g, atom, pol, at, added):
    """(kind, relation that holds on the edge as 'value REL bound' / verdict)
    kind in role / start / stop / hwm / None"""
    r = classify_role_atom(prog, f, g, atom, pol, at, added)
    if r:
        return ('role', r)
    names = {n.id for n in walk(atom) if isinstance(n, ast.Name)}
    if isinstance(atom, ast.Compare) and len(atom.ops) == 1:
        op = atom.ops[0]
        l, rr = atom.left, atom.comparators[0]
        for kind, bound in (('start', '_BF_START_VAL'),
                            ('stop', '_BF_STOP_VAL')):
            for a, b, o in ((l, rr, type(op)), (rr, l, _flip(op))):
                if isinstance(b, ast.Name) and b.id == bound and \
                        _state_value_of_pilot(g, a, at) and o is not None:
                    rel = _holds_when(o(), pol)       # value REL bound
                    good = {'start': ast.GtE, 'stop': ast.LtE}[kind]
                    return (kind, 'ok' if rel is good else 'wrong')
        # used / hwm
        for a, b, o in ((l, rr, type(op)), (rr, l, _flip(op))):
            ra, rb = resolve_local(g, a, at), resolve_local(g, b, at)
            if info_field(ra, 'used') and info_field(rb, 'hwm') and \
                    o is not None:
                rel = _holds_when(o(), pol)           # used REL hwm
                return ('hwm', rel)
    for kind, bound in (('start', '_BF_START_VAL'), ('stop', '_BF_STOP_VAL')):
        if bound in names:
            return (kind, 'unknown')
    src = unparse(resolve_local(g, atom, at))
    if "['hwm']" in src or "['used']" in src:
        return ('hwm', 'unknown')
    if "['role']" in src:
        return ('role', 'unknown')
    return (None, None)


def _flag_from_before(g, target, cr):
    """[(name, definition node, credit node)]: the node is guarded by a local
    flag that holds a comparison of the usage figure evaluated BEFORE the
    credit `cr` (the credit lies between the flag's only definition and the
    test of the flag): the flag says nothing about the usage after it"""
    out = []
    for tid, lab in guards(g, target, start=nsucc(g, cr.id)[0]):
        ta = g.nodes[tid].ast
        while isinstance(ta, ast.UnaryOp) and isinstance(ta.op, ast.Not):
            ta = ta.operand
        if not isinstance(ta, ast.Name):
            continue
        defs, undef = defs_reaching(g, ta.id, tid)
        if undef or len(defs) != 1 or defs[0].kind != 'stmt':
            continue
        v = assigned_value(defs[0].ast, ta.id)
        if v is None or not _testlike(v) or \
                cr.id not in between(g, defs[0].id, tid):
            continue
        if any(info_field(resolve_local(g, y, defs[0].id), 'used')
               for y in walk(v) if isinstance(y, (ast.Subscript, ast.Name))):
            out.append((ta.id, defs[0], cr))
    return out


def r12_5(prog, rep, rid='R12.5'):
    rep.rule(rid, 'Backfilling: a pilot becomes a candidate only with role '
             'ADDED, state within [START, STOP] and used < hwm; a pilot that '
             'reaches its mark is no candidate for the next task', minimum=5)
    added, removed = role_consts(prog)
    m = prog.module(BF[0])
    for nm in ('_BF_START_VAL', '_BF_STOP_VAL'):
        if nm not in m.assigns:
            raise AnalysisError('anchor constant %s::%s not found' % (BF[0], nm))
    f = prog.method(BF[0], BF[1], '_schedule_tasks')
    rep.saw(f)
    g = cfg_of(f)
    smap = I.stmt_node_map(g)
    # candidate list: local list filled from a loop over self._pids
    cands = []
    for n in g.nodes:
        if n.kind != 'stmt' or n.ast is None:
            continue
        for c in calls_in(n.ast):
            if isinstance(c.func, ast.Attribute) and c.func.attr == 'append' \
                    and isinstance(c.func.value, ast.Name) and c.args and \
                    isinstance(c.args[0], ast.Name):
                h = enclosing_for(g, n, c.args[0].id)
                if h is not None and derive(g, h.iter, h.id) in (
                        'pids', 'pilots'):
                    cands.append((n, c, h))
    if not cands:
        raise AnalysisError('UNRECOGNISED-IDIOM %s: no candidate list filled '
                            'from self._pids' % f.where)
    for n, c, h in cands:
        cname = c.func.value.id
        found = {}
        for a, pol, tid in guard_facts(g, n.id, start=iter_start(g, h.id)):
            for atom in _unchain(a, pol):
                kind, v = classify_bf_guard(prog, f, g, atom, pol, tid, added)
                if kind:
                    found.setdefault(kind, []).append((v, atom,
                                                       'T' if pol else 'F'))
        spec = [
            ('role', 'role == ADDED', 'a pilot that was removed (role REMOVED) '
             'or only seen in a state update (role None) is a candidate',
             'remove_pilots(p1) sets the role, a concurrent scheduling pass '
             'still finds p1 in self._pids: a task is bound to the removed p1'),
            ('start', 'state value >= _BF_START_VAL', 'a pilot that is not yet '
             'in the start state (or exactly in it, for a wrong operator) is '
             'treated wrongly', 'pilot p1 is PMGR_ACTIVE (== start state) but '
             'is skipped, or p1 is still PMGR_LAUNCHING and gets tasks'),
            ('stop', 'state value <= _BF_STOP_VAL', 'a pilot beyond the stop '
             'state (final) is a candidate, or an active one is skipped',
             'pilot p1 is FAILED: tasks are still bound to it'),
            ('hwm', 'used < hwm', 'a pilot that has reached its high-water '
             'mark is a candidate', 'pilot with 10 cores, hwm 20, used 20: '
             'another task is assigned to it'),
        ]
        for kind, text, effect, hist in spec:
            hits = found.get(kind, [])
            verd = []
            for v, atom, lab in hits:
                if kind == 'hwm' and v not in ('unknown',):
                    v = 'ok' if v is ast.Lt else 'wrong'
                verd.append((v, atom, lab))
            if any(v == 'unknown' for v, _, _ in verd) and \
                    not any(v == 'wrong' for v, _, _ in verd):
                a = [x for x in verd if x[0] == 'unknown'][0]
                raise AnalysisError('UNRECOGNISED-IDIOM %s: `%s` is guarded by '
                                    '`%s`, a %s test the recogniser does not '
                                    'know' % (f.where, short(c, 40),
                                              short(a[1], 60), kind))
            wrong = [x for x in verd if x[0] == 'wrong']
            good  = [x for x in verd if x[0] == 'ok']
            if wrong:
                v, atom, lab = wrong[0]
                rep.bad(rid, f, '%s [%s: %s taken when %s]'
                        % (short(c, 40), kind, unparse(atom), lab == 'T'),
                        'Backfilling._schedule_tasks: the candidate filter '
                        '`%s` (taken when %s) does not establish `%s`: %s'
                        % (short(atom, 60), lab == 'T', text, effect),
                        f.loc(atom), history=hist)
            elif good:
                rep.ok(rid, f, 'Backfilling: `%s` is control dependent on %s '
                       '(`%s`)' % (short(c, 40), text, short(good[0][1], 50)),
                       f.loc(c))
            else:
                rep.bad(rid, f, '%s [no test: %s]' % (short(c, 40), kind),
                        'Backfilling._schedule_tasks: `%s` is not control '
                        'dependent on `%s`: %s' % (short(c, 40), text, effect),
                        f.loc(c), history=hist)
        # a pilot reaching its mark is removed (or the assignment itself is
        # guarded by the strict test)
        credits = [x for x in g.nodes if x.kind == 'stmt' and
                   isinstance(x.ast, ast.AugAssign) and
                   isinstance(x.ast.op, ast.Add) and
                   info_field(resolve_local(g, x.ast.target, x.id), 'used')]
        if not credits:
            raise AnalysisError('UNRECOGNISED-IDIOM %s: no `info[\'used\'] += '
                                '..`' % f.where)
        for cr in credits:
            inner = None
            for hh in reversed(cr.loops):
                lv = loop_views(g).get(hh)
                if lv is not None and \
                        derive(g, lv.iter, hh) in ('pids', 'pilots'):
                    inner = lv
                    break
            if inner is None:
                raise AnalysisError('UNRECOGNISED-IDIOM %s: the credit `%s` is '
                                    'not inside a loop over candidate pilots'
                                    % (f.where, short(cr.ast, 40)))
            strict = False
            for a, pol, tid in guard_facts(g, cr.id,
                                           start=iter_start(g, inner.id)):
                kind, v = classify_bf_guard(prog, f, g, a, pol, tid, added)
                if kind == 'hwm' and v is ast.Lt:
                    strict = True
            removed_ok = False
            stale, unread = [], []
            pv = inner.target.id if isinstance(inner.target, ast.Name) \
                else None
            for x in g.nodes:
                if x.kind != 'stmt' or x.ast is None:
                    continue
                for cc in calls_in(x.ast):
                    if isinstance(cc.func, ast.Attribute) and \
                            cc.func.attr in ('remove', 'discard') and \
                            isinstance(cc.func.value, ast.Name) and \
                            cc.func.value.id == cname and cc.args and \
                            isinstance(cc.args[0], ast.Name) and \
                            cc.args[0].id == pv:
                        early = _flag_from_before(g, x.id, cr)
                        if early:
                            stale += early
                            continue
                        gs = guard_facts(g, x.id, start=nsucc(g, cr.id)[0])
                        for a, pol, t in gs:
                            stale += stale_names(g, a, t)
                            if classify_bf_guard(prog, f, g, a, pol, t,
                                                 added) == ('hwm', 'unknown'):
                                unread.append(a)
                        kinds = [classify_bf_guard(prog, f, g, a, pol, t,
                                                   added)
                                 for a, pol, t in gs]
                        if x.id in g.reachable(nsucc(g, cr.id)) and \
                                all(k == 'hwm' and v is ast.GtE
                                    for k, v in kinds) and kinds:
                            removed_ok = True
            if not (strict or removed_ok) and unread and not stale:
                raise AnalysisError(
                    'UNRECOGNISED-IDIOM %s: the removal of a full pilot after '
                    '`%s` is guarded by `%s`, a usage test the recogniser does '
                    'not know' % (f.where, short(cr.ast, 40),
                                  short(unread[0], 60)))
            rep.check(strict or removed_ok, rid, f,
                      'Backfilling: after `%s` a pilot with used >= hwm leaves '
                      'the candidates (or the assignment is guarded by used < '
                      'hwm)' % short(cr.ast, 40),
                      construct='%s [full pilot leaves the candidates]'
                      % short(cr.ast, 40),
                      message='Backfilling._schedule_tasks: after the credit '
                      '`%s` the pilot is neither removed from %r when '
                      'used >= hwm nor is the assignment guarded by the strict '
                      'test used < hwm: a pilot exactly at its high-water mark '
                      'receives a further task' % (short(cr.ast, 40), cname)
                      + ''.join(' [the test of the removal reads the local %r, '
                                'bound by `%s` BEFORE `%s` changes that value: '
                                'it compares the usage before the assignment]'
                                % (nm, short(dn.ast, 40), short(wn.ast, 40))
                                for nm, dn, wn in stale[:1]),
                      loc=f.loc(cr.ast),
                      history='pilot with hwm 20 and used 10; two waiting '
                      'tasks of 10 cores and one more: the first brings used '
                      'to 20 == hwm, the second is still assigned to it')


# ------------------------------------------------------------------------------
# R12.6  usage symmetry
#
def _canon(e, tvars):
    if isinstance(e, ast.BinOp) and isinstance(e.op, (ast.Mult, ast.Add)):
        sym = '*' if isinstance(e.op, ast.Mult) else '+'
        parts = []

        def flat(x):
            if isinstance(x, ast.BinOp) and type(x.op) is type(e.op):
                flat(x.left)
                flat(x.right)
            else:
                parts.append(_canon(x, tvars))
        flat(e)
        return '(' + sym.join(sorted(parts)) + ')'
    if isinstance(e, ast.Name) and e.id in tvars:
        return '$task'
    if isinstance(e, ast.Subscript):
        return '%s[%s]' % (_canon(e.value, tvars), unparse(e.slice))
    if isinstance(e, ast.Attribute):
        return '%s.%s' % (_canon(e.value, tvars), e.attr)
    return unparse(e)


def _usage_updates(prog, f, op):
    g = cfg_of(f)
    out = []
    for x in g.nodes:
        if x.kind == 'stmt' and isinstance(x.ast, ast.AugAssign) and \
                isinstance(x.ast.op, op) and \
                info_field(resolve_local(g, x.ast.target, x.id), 'used'):
            val = resolve_local(g, x.ast.value, x.id)
            tv = {n.id for n in walk(val) if isinstance(n, ast.Name)
                  and isinstance(n.ctx, ast.Load)}
            loopvars = set()
            for h in x.loops:
                if h in loop_views(g):
                    loopvars |= set(loop_views(g)[h].names)
            out.append((x, _canon(val, tv & loopvars), g))
    return out


def r12_6(prog, rep, rid='R12.6'):
    rep.rule(rid, "Backfilling: info['used'] is credited and debited by the "
             'same expression; the debit happens once per task (done test '
             'before, done.append on the same path)', minimum=2)
    fs = prog.method(BF[0], BF[1], '_schedule_tasks')
    fu = prog.method(BF[0], BF[1], 'update_tasks')
    rep.saw(fs)
    rep.saw(fu)
    cr = _usage_updates(prog, fs, ast.Add)
    db = _usage_updates(prog, fu, ast.Sub)
    if not cr or not db:
        raise AnalysisError("UNRECOGNISED-IDIOM %s: credit/debit of "
                            "info['used'] not found (%d/%d)"
                            % (BF[0], len(cr), len(db)))
    for d, dexpr, g in db:
        same = any(dexpr == cexpr for _, cexpr, _ in cr)
        rep.check(same, rid, fu, "Backfilling: the debit `%s` subtracts what "
                  "_schedule_tasks added (%s)" % (short(d.ast, 50), dexpr),
                  construct='%s [same expression as the credit]'
                  % short(d.ast, 70),
                  message="Backfilling.update_tasks debits info['used'] by %s "
                  "but _schedule_tasks credits %s: the usage figure of a pilot "
                  "does not return to zero when all its tasks have finished "
                  "(or runs negative and raises)"
                  % (dexpr, ' / '.join(c for _, c, _ in cr)), loc=fu.loc(d.ast),
                  history='one task with ranks=2, cores_per_rank=4 runs and '
                  "finishes on a pilot: info['used'] != 0 afterwards")
        # once per uid
        h = None
        for hh in reversed(d.loops):
            if hh in loop_views(g):
                h = loop_views(g)[hh]
                break
        if h is None:
            raise AnalysisError('UNRECOGNISED-IDIOM %s: debit outside of a '
                                'loop over tasks' % fu.where)
        start = iter_start(g, h.id)
        tested = None
        for a, pol, tid in guard_facts(g, d.id, start=start):
            if isinstance(a, ast.Compare) and len(a.ops) == 1 and \
                    isinstance(a.ops[0], (ast.In, ast.NotIn)) and \
                    info_field(resolve_local(g, a.comparators[0], tid), 'done'):
                fresh = isinstance(a.ops[0], ast.NotIn) == pol
                tested = (a, fresh)
        apps = []
        for x in g.nodes:
            if x.kind != 'stmt' or x.ast is None:
                continue
            for cc in calls_in(x.ast):
                if isinstance(cc.func, ast.Attribute) and \
                        cc.func.attr in ('append', 'add') and cc.args and \
                        info_field(resolve_local(g, cc.func.value, x.id),
                                   'done') and tested and \
                        unparse(cc.args[0]) == unparse(tested[0].left):
                    apps.append(x.id)
        # the append is on every path through the debit (before or after it)
        before = bool(apps) and d.id not in reach_noeffect(g, [start], apps)
        r = reach_noeffect(g, nsucc(g, d.id), apps)
        after = bool(apps) and h.id not in r and g.exit.id not in r
        okay = bool(tested) and tested[1] and (before or after)
        rep.check(okay, rid, fu, "Backfilling: the debit is guarded by `uid not "
                  "in info['done']` and the uid is appended to info['done'] on "
                  "the same path", construct='%s [once per task]'
                  % short(d.ast, 70),
                  message="Backfilling.update_tasks: the debit `%s` is %s: "
                  "every further state notification of the same task debits "
                  "again" % (short(d.ast, 50),
                             "not guarded by a (correctly oriented) test of the "
                             "uid against info['done']" if not (tested and
                                                                tested[1])
                             else "not accompanied by info['done'].append(uid) "
                             "on every path"), loc=fu.loc(d.ast),
                  history='a task passes AGENT_STAGING_OUTPUT_PENDING and then '
                  'DONE: both notifications are beyond AGENT_EXECUTING, used is '
                  'debited twice, goes negative and update_tasks raises')


# ------------------------------------------------------------------------------
# R12.7  round robin index
#
def _is_idx(e):
    return is_self_attr(e, '_idx')


def _is_len_pids(e):
    return isinstance(e, ast.Call) and dotted(e.func) == 'len' and \
        len(e.args) == 1 and is_self_attr(e.args[0], '_pids')


def _may_touch_pids(name, seen=None):
    """a method of the scheduler classes with this name stores through
    self._pids, directly or in a self-method it calls (by name; methods the
    classes inherit from the component framework do not know the list)"""
    seen = set() if seen is None else seen
    if name in seen:
        return False
    seen.add(name)
    for f, concretes in _CTX['funcs'].values():
        if f.name != name:
            continue
        if _pids_writes(f):
            return True
        for c in calls_in(f.node, nested=True):
            if isinstance(c.func, ast.Attribute) and (
                    isinstance(c.func.value, ast.Name) and
                    c.func.value.id == 'self' or
                    isinstance(c.func.value, ast.Call) and
                    dotted(c.func.value.func) == 'super') and \
                    _may_touch_pids(c.func.attr, seen):
                return True
    return False


def _calm(g, d, at):
    """nothing on a path between node d and node `at` can change self._pids:
    no store through it, no self-method that (transitively) stores through
    it, no call that is handed the list or the scheduler itself"""
    def is_pids(e, nid):
        e = resolve_local(g, e, nid)
        return is_self_attr(e, '_pids') or \
            isinstance(e, ast.Name) and e.id == 'self'
    for m in between(g, d, at):
        n = g.nodes[m]
        if m in attr_writes(g, '_pids'):
            return False
        for c in I.stmt_calls(n):
            if is_quiet_call(c) or dotted(c.func) in PURE:
                continue
            fn = c.func
            if isinstance(fn, ast.Attribute) and \
                    isinstance(fn.value, ast.Name) and fn.value.id == 'self':
                if _may_touch_pids(fn.attr):
                    return False
            elif isinstance(fn, ast.Attribute) and (
                    root_name(fn.value) == 'self' or is_pids(fn.value, m)):
                return False        # self._pids.remove(..), self._x.call()
            if any(is_pids(a, m) for a in list(c.args) +
                   [k.value for k in c.keywords]):
                return False
        if n.kind == 'stmt' and isinstance(n.ast, ast.AugAssign) and \
                is_pids(n.ast.target, m):
            return False
    return True


def r12_7(prog, rep, rid='R12.7'):
    rep.rule(rid, 'RoundRobin: the index into self._pids is wrapped before it '
             'is used and advanced exactly once per assignment', minimum=2)
    f = prog.method(RR[0], RR[1], '_schedule_tasks')
    rep.saw(f)
    g = cfg_of(f)
    smap = I.stmt_node_map(g)

    def hoisted(v, d, at):
        # a length / remainder kept in a local is as good as the expression
        # itself while nothing can change self._pids
        return isinstance(v, ast.Call) and dotted(v.func) == 'len' and \
            len(v.args) == 1 and _calm(g, d, at)

    def cn(e, at):
        return resolve_local(g, e, at, allow=hoisted)

    def is_len_pids(e):
        return isinstance(e, ast.Call) and dotted(e.func) == 'len' and \
            len(e.args) == 1 and is_self_attr(e.args[0], '_pids')

    def is_mod_len(e):
        return isinstance(e, ast.BinOp) and isinstance(e.op, ast.Mod) and \
            is_len_pids(e.right)

    uses = []
    for n in walk(f.node):
        if isinstance(n, ast.Subscript) and isinstance(n.ctx, ast.Load) and \
                id(n) in smap and not isinstance(n.slice, ast.Slice):
            at = smap[id(n)].id
            if is_self_attr(cn(n.value, at), '_pids'):
                sl = cn(n.slice, at)
                if any(_is_idx(x) for x in walk(sl)):
                    uses.append((n, sl))
    if not uses:
        raise AnalysisError('UNRECOGNISED-IDIOM %s: no self._pids[self._idx]'
                            % f.where)
    writes = [smap[id(st)] for k, t, st in I.stores(f.node)
              if _is_idx(t) and id(st) in smap]
    # what a store does to the index: reset (0), norm (.. % len(self._pids)),
    # inc (+ 1)
    resets, norms, incs = set(), set(), set()
    for x in writes:
        a = x.ast
        if isinstance(a, ast.AugAssign):
            v = cn(a.value, x.id)
            if isinstance(a.op, ast.Add) and isinstance(v, ast.Constant) and \
                    v.value == 1:
                incs.add(x.id)
            elif isinstance(a.op, ast.Mod) and is_len_pids(v):
                norms.add(x.id)
            else:
                raise AnalysisError('UNRECOGNISED-IDIOM %s: `%s`'
                                    % (f.where, short(a, 40)))
        elif isinstance(a, ast.Assign):
            v = cn(a.value, x.id)
            if isinstance(v, ast.Constant) and v.value == 0:
                resets.add(x.id)
            if is_mod_len(v):
                norms.add(x.id)
            for b in walk(v):
                if isinstance(b, ast.BinOp) and isinstance(b.op, ast.Add):
                    for one, e in ((b.right, b.left), (b.left, b.right)):
                        if isinstance(one, ast.Constant) and one.value == 1 \
                                and (_is_idx(e) or is_mod_len(e) and
                                     _is_idx(e.left)):
                            incs.add(x.id)
    # wrap tests: self._idx >= len(self._pids)
    wraps, odd, foreign = [], [], []

    def len_of_other(e):
        # len(self.<another container of the scheduler>): a bound that says
        # nothing about the size of self._pids
        if isinstance(e, ast.Call) and dotted(e.func) == 'len' and \
                len(e.args) == 1 and not e.keywords and \
                is_self_attr(e.args[0]) and e.args[0].attr != '_pids' and \
                is_container_attr(e.args[0].attr):
            return e.args[0].attr
        return None
    for t in g.nodes:
        if t.kind != 'test':
            continue
        ta = cn(test_expr(g, t), t.id)
        if not any(_is_idx(x) for x in walk(ta)):
            continue
        if isinstance(ta, ast.Compare) and len(ta.ops) == 1:
            l, r, op = ta.left, ta.comparators[0], type(ta.ops[0])
            if (is_len_pids(l) or len_of_other(l)) and _is_idx(r):
                l, r, op = r, l, _flip(ta.ops[0])
            if _is_idx(l) and is_len_pids(r):
                if op is ast.GtE:
                    wraps.append(t)
                continue                # a wrong test of the index: no wrap
            if _is_idx(l) and len_of_other(r):
                # the index is compared with the size of another container:
                # not a wrap of an index into self._pids
                foreign.append((t, len_of_other(r)))
                continue
        odd.append(t)
    for u, s in uses:
        un = smap[id(u)]
        okay, why = False, ''
        start = iter_start(g, un.loops[-1]) if un.loops else g.entry.id
        if is_mod_len(s):
            okay = True
            if not isinstance(u.slice, ast.BinOp):
                # the remainder was put into a local: self._pids must not
                # change between the two
                d = [x for x in defs_reaching(g, u.slice.id, un.id)[0]] \
                    if isinstance(u.slice, ast.Name) else []
                if len(d) != 1 or not _calm(g, d[0].id, un.id):
                    raise AnalysisError(
                        'UNRECOGNISED-IDIOM %s: `%s`: the index is computed '
                        'ahead of its use and self._pids may change in '
                        'between' % (f.where, short(u, 40)))
        elif _is_idx(s):
            # stores after which the index may be out of range
            others = [x for x in writes if x.id not in resets | norms]
            for w in wraps:
                tsucc = [e.dst for e in g.succ[w.id] if e.label == 'T']
                fix = resets | norms
                c1 = un.id not in g.reachable(start, skip_nodes={w.id})
                # on the true arm the use is reached only through a reset
                # (or through the test again)
                c2 = bool(fix) and bool(tsucc) and un.id not in \
                    reach_noeffect(g, tsucc, fix, stop={w.id})
                c3 = all(un.id not in g.reachable(nsucc(g, x.id),
                                                  skip_nodes={w.id})
                         for x in others)
                if c1 and c2 and c3:
                    okay = True
            for m in norms:
                c1 = un.id not in reach_noeffect(g, [start], [m])
                c3 = all(un.id not in reach_noeffect(g, nsucc(g, x.id), [m])
                         for x in others)
                if c1 and c3:
                    okay = True
            why = 'no test `self._idx >= len(self._pids)` with a reset to 0 ' \
                  '(and no `% len(self._pids)`) lies on every path to the ' \
                  'use (after the last change of the index)'
            if not okay and foreign:
                why += ' - the test `%s` compares the index with the size ' \
                       'of self.%s, which also counts removed pilots and ' \
                       'pilots only known from state notifications, so the ' \
                       'index is not reset when it runs past self._pids' \
                       % (short(test_expr(g, foreign[0][0]), 50),
                          foreign[0][1])
            if not okay and odd:
                raise AnalysisError(
                    'UNRECOGNISED-IDIOM %s: `%s` is not preceded by a wrap '
                    'the recogniser knows, but the index is tested by `%s`'
                    % (f.where, short(u, 40), short(odd[0].ast, 50)))
        else:
            raise AnalysisError('UNRECOGNISED-IDIOM %s: index expression `%s`'
                                % (f.where, short(s, 40)))
        rep.check(okay, rid, f, 'RoundRobin: `%s` is preceded by the wrap of '
                  'self._idx on every path' % short(u, 40),
                  construct='self._pids[self._idx]' if _is_idx(s) else u,
                  message='RoundRobin._schedule_tasks: `%s` is used although %s'
                  % (short(u, 40), why), loc=f.loc(u),
                  history='three pilots, self._idx == 3 after a batch; two '
                  'pilots are removed; the next task indexes self._pids[3]: '
                  'IndexError, the task is reported FAILED although a pilot '
                  'is available')
        # advanced exactly once per completed assignment
        if not un.loops:
            raise AnalysisError('UNRECOGNISED-IDIOM %s: index use outside of '
                                'the task loop' % f.where)
        head = un.loops[-1]
        start, stop, stop_edge = loop_slice(g, head)
        asg = {smap[id(c)].id for c in assign_calls(f) if id(c) in smap}

        def transfer(node, edge, st):
            n, done, exc = st
            if edge.label == 'exc':
                return (n, done, True)
            if node.id in incs:
                n = min(2, n + 1)
            if node.id in asg:
                done = True
            return (n, done, exc)
        ex = Exploration(g, start, (0, False, False), transfer, stop=stop,
                         stop_edge=stop_edge)
        # iterations which raised after the assignment report the task FAILED
        bad = [t for t in ex.terminals if t.state[1] and not t.state[2]
               and t.state[0] != 1]
        rep.check(not bad, rid, f, 'RoundRobin: every iteration that assigns a '
                  'task advances self._idx exactly once',
                  construct='self._idx advanced once per assignment',
                  message='RoundRobin._schedule_tasks: an iteration that '
                  'assigns a task advances self._idx %s: the batch is not '
                  'spread evenly over the pilots' % (
                      'not at all' if bad and bad[0].state[0] == 0 else
                      'more than once'), loc=f.loc(u),
                  history='two pilots and a batch of four tasks: all four go '
                  'to the same pilot')


# ------------------------------------------------------------------------------
# R12.14  tasks wait while there is no pilot: an element is drawn from
#         self._pids by index only where THAT list is known to be non-empty
#
def _nonempty_fact(g, atom, pol, tid, cn):
    """True: the outcome `pol` of the test establishes that self._pids is not
    empty; False: it is a test of self._pids that does not; None: the test
    does not look at self._pids at all"""
    a = cn(atom, tid)
    while isinstance(a, ast.Call) and dotted(a.func) == 'bool' and \
            len(a.args) == 1 and not a.keywords:
        a = a.args[0]
    if is_self_attr(a, '_pids') or _is_len_pids(a):
        return pol
    if isinstance(a, ast.Compare) and len(a.ops) == 1:
        l, r, op = a.left, a.comparators[0], a.ops[0]
        for x, y, o in ((l, r, type(op)), (r, l, _flip(op))):
            if o is None:
                continue
            if _is_len_pids(x) and isinstance(y, ast.Constant) and \
                    isinstance(y.value, int) and \
                    not isinstance(y.value, bool) and o in _CMP:
                # the relation, evaluated for an empty list
                return _CMP[o](0, y.value) != pol
            if is_self_attr(x, '_pids') and o in (ast.Eq, ast.NotEq) and (
                    is_empty_ctor(y) or isinstance(y, (ast.List, ast.Tuple))
                    and not y.elts):
                return (o is ast.NotEq) == pol
            if _is_idx(x) and _is_len_pids(y) and o in (ast.Lt, ast.GtE):
                # 0 <= self._idx < len(self._pids)
                return (o is ast.Lt) == pol
    if any(is_self_attr(x, '_pids') for x in walk(a)):
        return False if isinstance(a, ast.Compare) and any(
            isinstance(o, (ast.In, ast.NotIn)) for o in a.ops) else 'unknown'
    return None


def r12_14(prog, rep, rid='R12.14'):
    rep.rule(rid, 'a pilot id is drawn from self._pids by index only where '
             'self._pids itself (not another container) was tested non-empty: '
             'with no added pilot the tasks wait instead of failing',
             minimum=1)
    seen = set()
    n_uses = 0
    for rel, cname in (RR, BF):
        K = prog.cls(rel, cname)
        for mname, f in sorted(K.methods.items()):
            if id(f.node) in seen or mname in STARTUP:
                continue
            seen.add(id(f.node))
            if not any(is_self_attr(x, '_pids') for x in walk(f.node)):
                continue
            g = cfg_of(f)
            smap = I.stmt_node_map(g)

            def hoisted(v, d, at, g=g):
                return isinstance(v, ast.Call) and dotted(v.func) == 'len' \
                    and len(v.args) == 1 and _calm(g, d, at)

            def cn(e, at, g=g, hoisted=hoisted):
                return resolve_local(g, e, at, allow=hoisted)
            for u in walk(f.node):
                if not (isinstance(u, ast.Subscript) and
                        isinstance(u.ctx, ast.Load) and id(u) in smap and
                        not isinstance(u.slice, ast.Slice)):
                    continue
                un = smap[id(u)]
                if not is_self_attr(cn(u.value, un.id), '_pids'):
                    continue
                n_uses += 1
                rep.saw(f)
                how, odd, weak = None, None, None
                for h in un.loops:
                    lv = loop_views(g).get(h)
                    if lv is not None and lv.form in ('for', 'range') and \
                            derive(g, strip_copy(lv.iter), h) == 'pids':
                        how = 'it lies in a loop over self._pids'
                for a, pol, tid in guard_facts(g, un.id):
                    v = _nonempty_fact(g, a, pol, tid, cn)
                    if v is True:
                        if not _calm(g, tid, un.id):
                            raise AnalysisError(
                                'UNRECOGNISED-IDIOM %s: self._pids may change '
                                'between the test `%s` and `%s`'
                                % (f.where, short(a, 40), short(u, 40)))
                        how = how or 'guarded by `%s` (%s)' % (
                            short(a, 40), 'holds' if pol else 'fails')
                    elif v == 'unknown':
                        odd = a
                    elif v is False:
                        weak = (a, pol)
                if not how and odd is not None:
                    raise AnalysisError(
                        'UNRECOGNISED-IDIOM %s: `%s` is guarded by `%s`, a test '
                        'of self._pids the recogniser does not know'
                        % (f.where, short(u, 40), short(odd, 60)))
                if not how:
                    # emptiness handled as an exception of its own
                    for t in walk(f.node):
                        if isinstance(t, ast.Try) and any(
                                x is u for b in t.body for x in walk(b)) and \
                                any(nm in unparse(h.type) for h in t.handlers
                                    if h.type is not None
                                    for nm in ('IndexError', 'LookupError',
                                               'ZeroDivisionError')):
                            raise AnalysisError(
                                'UNRECOGNISED-IDIOM %s: `%s` is not guarded '
                                'by an emptiness test but lies in a try '
                                'statement which handles the index error '
                                'itself' % (f.where, short(u, 40)))
                # what is tested instead (for the message)
                other = None
                for a, pol, tid in guard_facts(g, un.id):
                    ra = cn(a, tid)
                    for x in walk(ra):
                        if is_self_attr(x) and x.attr != '_pids' and \
                                is_container_attr(x.attr) and (
                                    ra is x or isinstance(ra, ast.Call) and
                                    dotted(ra.func) == 'len'):
                            other = (x.attr, a, pol)
                rep.check(bool(how), rid, f, '%s.%s: `%s` is reached only with '
                          'a non-empty self._pids: %s'
                          % (cname, mname, short(u, 40), how),
                          construct='%s [self._pids non-empty]' % short(u, 40),
                          message='%s.%s: `%s` draws a pilot id by index, but '
                          'no test on the way establishes that self._pids is '
                          'non-empty%s%s: with no added pilot the index raises '
                          '(IndexError / ZeroDivisionError), the per-task '
                          'handler reports the tasks FAILED instead of leaving '
                          'them in the wait pool until a pilot is added'
                          % (cname, mname, short(u, 40),
                             ' (the emptiness test `%s` looks at self.%s, '
                             'which also holds removed pilots and pilots only '
                             'known from state notifications)'
                             % (short(other[1], 40), other[0]) if other else '',
                             ' (`%s` %s here: wrong polarity)'
                             % (short(weak[0], 40),
                                'holds' if weak[1] else 'fails')
                             if weak and not other else ''),
                          loc=f.loc(u),
                          history='add_pilots(p1), remove_pilots(p1) (or only a '
                          'state notification for some pilot), then unbound '
                          'tasks are submitted: self._pilots is non-empty, '
                          'self._pids is empty - all tasks of the bulk end '
                          'FAILED instead of waiting for the next add_pilots')
    if not n_uses:
        raise AnalysisError('UNRECOGNISED-IDIOM %s: no element of self._pids '
                            'is selected by index' % RR[0])


# ------------------------------------------------------------------------------
# R12.10  a task that names a pilot goes to that pilot: key agreement between
#         the early pool, the pilot table and the pilot object handed on
#
def _binding_defs(g, name, at):
    """the definitions of the local `name` in force at node `at` (-1 stands
    for the value the function was entered with: a parameter)"""
    defs, undef = defs_reaching(g, name, at)
    return frozenset([d.id for d in defs] + ([-1] if undef else []))


def _takes_effect(g, n):
    """successors on which the definition made by node n is in force (a for
    head binds its target on the `iter` edge only)"""
    if n.kind == 'for':
        return [e.dst for e in g.succ[n.id] if e.label == 'iter']
    return nsucc(g, n.id)


def _defn_text(n):
    if n.kind == 'for':
        return 'for %s in %s' % (unparse(n.ast.target), short(n.ast.iter, 30))
    return short(n.ast, 40)


def _rebound_before(g, name, frm, to, stop=()):
    """a definition of the local `name` can take effect on a path from (after)
    node `frm` to node `to` which enters no node of `stop`: the node"""
    stop = set(stop) - {to}
    live = g.reachable(nsucc(g, frm), skip_nodes=stop)
    for n in g.nodes:
        if name in stores_of(n) and n.id in live and \
                to in g.reachable(_takes_effect(g, n), skip_nodes=stop):
            return n
    return None


def _any_key_read(v):
    """X[c] / X.get(c) for a local X and a constant string c  ->  (X, c)"""
    k = None
    if isinstance(v, ast.Subscript):
        k = v.slice
    elif isinstance(v, ast.Call) and isinstance(v.func, ast.Attribute) and \
            v.func.attr == 'get' and v.args:
        k = v.args[0]
    if isinstance(k, ast.Constant) and isinstance(k.value, str):
        x = _key_read(v, k.value)
        if x is not None:
            return (x, k.value)
    return None


def _field_of(g, expr, at, depth=3):
    """What the expression denotes at node `at`:
    ('ok', X, defs, c)     the field c of the dict bound to the local X by the
                           definitions `defs` - read on the spot, or through
                           locals `k = X[c]` after which X is not bound again
    ('stale', X, n, c, k)  a local k that was read from X[c] before node n
                           bound X to another object: a field of an earlier X
    None                   something else"""
    if depth <= 0:
        return None
    x = _any_key_read(expr)
    if x is not None:
        return ('ok', x[0], _binding_defs(g, x[0], at), x[1])
    if isinstance(expr, ast.Call):
        e = _getter_expr(g, expr)
        return _field_of(g, e, at, depth - 1) if e is not None else None
    if not isinstance(expr, ast.Name):
        return None
    defs, undef = defs_reaching(g, expr.id, at)
    if not defs:
        return None
    # (a path on which the local is not bound at all ends in a NameError or
    # is infeasible: the paths on which it is bound decide)
    kdefs = {n.id for n in g.nodes if expr.id in stores_of(n)}
    res = set()
    for d in defs:
        v = assigned_value(d.ast, expr.id) if d.kind == 'stmt' else None
        if isinstance(v, ast.Constant) and v.value is None and len(defs) > 1:
            continue                # `k = None`: no id at all on that path
        r = _field_of(g, v, d.id, depth - 1) if v is not None else None
        if r is None or r[0] == 'stale':
            return r
        n = _rebound_before(g, r[1], d.id, at, stop=kdefs)
        if n is not None:
            return ('stale', r[1], n, r[3], expr.id)
        res.add(r[1:])
    if len({(x, c) for x, _, c in res}) != 1:
        return None
    x, _, c = list(res)[0]
    return ('ok', x, frozenset().union(*[ds for _, ds, _ in res]), c)


def _early_key(g, e, at):
    """(key expr, popped) if e reads the entry of one key of self._early:
    self._early[K], .get(K[, d]), .pop(K[, d]), a copy of it, `<that> or []`"""
    e = strip_copy(e)
    if isinstance(e, ast.BoolOp) and isinstance(e.op, ast.Or):
        e = strip_copy(e.values[0])

    def early(x):
        return is_self_attr(resolve_local(g, x, at), '_early')
    if isinstance(e, ast.Subscript) and not isinstance(e.slice, ast.Slice) \
            and early(e.value):
        return (e.slice, False)
    if isinstance(e, ast.Call) and isinstance(e.func, ast.Attribute) and \
            e.func.attr in ('get', 'pop') and e.args and early(e.func.value):
        return (e.args[0], e.func.attr == 'pop')
    return None


def _early_reads(g, lv):
    """[(key expr, node id of the read, popped)] if the loop view iterates the
    entry of one key of self._early (directly or through a local bound to
    it); [] if it iterates something else; None if only on some paths"""
    r = _early_key(g, lv.iter, lv.id)
    if r is not None:
        return [(r[0], lv.id, r[1])]
    it = strip_copy(lv.iter)
    if not isinstance(it, ast.Name):
        return []
    defs, undef = defs_reaching(g, it.id, lv.id)
    out = []
    for d in defs:
        v = assigned_value(d.ast, it.id) if d.kind == 'stmt' else None
        r = _early_key(g, v, d.id) if v is not None else None
        if r is not None:
            out.append((r[0], d.id, r[1]))
    if out and (undef or len(out) != len(defs)):
        return None
    return out


def _early_drains(g):
    """[(node, key expr)]: statements which remove the entry of one key from
    self._early"""
    out = []
    for n in g.nodes:
        if n.kind != 'stmt' or n.ast is None:
            continue
        a = n.ast

        def early(x):
            return is_self_attr(resolve_local(g, x, n.id), '_early')
        if isinstance(a, ast.Delete):
            for t in a.targets:
                if isinstance(t, ast.Subscript) and early(t.value):
                    out.append((n, t.slice))
        if isinstance(a, ast.Assign) and is_empty_ctor(a.value):
            for t in a.targets:
                if isinstance(t, ast.Subscript) and early(t.value) and \
                        not isinstance(t.slice, ast.Slice):
                    out.append((n, t.slice))
        for c in calls_in(a):
            if isinstance(c.func, ast.Attribute) and c.func.attr == 'pop' and \
                    c.args and early(c.func.value):
                out.append((n, c.args[0]))
    return out


def _early_puts(g):
    """[(node, key expr, task expr)]: statements which put a task into the
    entry of one key of self._early"""
    out = []
    for n in g.nodes:
        if n.kind != 'stmt' or n.ast is None:
            continue
        a = n.ast

        def entry(x):
            r = _early_key(g, x, n.id)
            if r is not None:
                return r[0]
            if isinstance(x, ast.Call) and isinstance(x.func, ast.Attribute) \
                    and x.func.attr == 'setdefault' and x.args and \
                    is_self_attr(resolve_local(g, x.func.value, n.id),
                                 '_early'):
                return x.args[0]
            return None

        def listed(v):
            """tasks in the list displays of a value (`old + [task]`)"""
            return [x.elts[0] for x in walk(v) if isinstance(x, ast.List) and
                    len(x.elts) == 1]
        for c in calls_in(a):
            if isinstance(c.func, ast.Attribute) and \
                    c.func.attr in ('append', 'add') and len(c.args) == 1:
                k = entry(c.func.value)
                if k is not None:
                    out.append((n, k, c.args[0]))
        if isinstance(a, ast.AugAssign) and isinstance(a.op, ast.Add):
            k = entry(a.target)
            for t in listed(a.value) if k is not None else []:
                out.append((n, k, t))
        if isinstance(a, ast.Assign):
            for t in a.targets:
                k = entry(t) if isinstance(t, ast.Subscript) else None
                for x in listed(a.value) if k is not None else []:
                    out.append((n, k, x))
    return out


def r12_10(prog, rep, rid='R12.10'):
    rep.rule(rid, 'early binding agrees on the pilot: the tasks read from '
             'self._early[K] are assigned to the pilot whose uid is K (and '
             'that entry is the one removed); a task is parked under, and '
             'looked up in self._pilots by, its own task[\'pilot\']',
             minimum=3)
    seen = set()
    for rel, cname in (BASE, RR, BF):
        K = prog.cls(rel, cname)
        for mname, f in sorted(K.methods.items()):
            if id(f.node) in seen:
                continue
            seen.add(id(f.node))
            if not any(isinstance(x, ast.Attribute) and
                       x.attr in ('_early', '_assign_pilot')
                       for x in ast.walk(f.node)):
                continue
            g = cfg_of(f)
            smap = I.stmt_node_map(g)
            _early_sites(rep, rid, cname, f, g, smap)
            _own_pilot_sites(rep, rid, cname, f, g, smap)


def _same_key(g, a, at_a, b, at_b, fa=None):
    """the key expressions a (at node at_a) and b (at node at_b) denote the
    same pilot id: True / False / None (cannot tell)"""
    if isinstance(a, ast.Name) and isinstance(b, ast.Name) and a.id == b.id \
            and _binding_defs(g, a.id, at_a) == _binding_defs(g, b.id, at_b) \
            and _rebound_before(g, a.id, at_a, at_b, stop={at_a}) is None:
        return True                 # one local, not bound again in between
    fa = fa or _field_of(g, a, at_a)
    fb = _field_of(g, b, at_b)
    if fa is not None and fb is not None:
        if fa[0] != 'ok' or fb[0] != 'ok':
            return False
        return fa[1:] == fb[1:] and \
            _rebound_before(g, fa[1], at_a, at_b, stop={at_a}) is None
    if isinstance(a, ast.Name) and isinstance(b, ast.Name) and a.id == b.id:
        return False
    return None


def _table_key(g, v, at):
    """K if v is self._pilots[K]['pilot'] - K as written, if the expression
    has that form itself, else as it is after resolving locals and getters"""
    k = pilot_entry(v, 'pilot')
    if k is None:
        k = pilot_entry(resolve_local(g, v, at), 'pilot')
    return k


def _early_sites(rep, rid, cname, f, g, smap):
    hist = ('tasks t1 (names pilot p1) and t2 (names p2) are submitted before '
            'any pilot is known; one add_pilots command carries [p1, p2]: '
            't2 is forwarded with the id and the sandboxes of p1, t1 is never '
            'forwarded')
    drains = _early_drains(g)
    for c in assign_calls(f):
        node = smap.get(id(c))
        T, P = assign_task_arg(c), assign_pilot_arg(c)
        if node is None or not isinstance(T, ast.Name) or P is None:
            continue
        lv = enclosing_for(g, node, T.id)
        if lv is None:
            continue
        reads = _early_reads(g, lv)
        if reads is None:
            raise AnalysisError('UNRECOGNISED-IDIOM %s: `%s` iterates an '
                                'entry of self._early on some paths only'
                                % (f.where, lv.header))
        for key, rid_node, popped in reads:
            rep.saw(f)
            kf = _field_of(g, key, rid_node)
            if kf is not None and kf[3] != 'uid':
                kf = None           # not the id of a pilot document
            where = '%s.%s' % (cname, f.name)
            verdict, why = None, ''
            if kf is not None and kf[0] == 'stale':
                verdict = False
                why = ('%r was read from %s[\'uid\'] before `%s` bound %r to '
                       'another pilot: it is the uid of an earlier pilot '
                       '(the last one of the preceding loop)'
                       % (kf[4], kf[1], _defn_text(kf[2]), kf[1]))
            elif kf is not None and isinstance(P, ast.Name):
                it = strip_copy(lv.iter)
                astop = {rid_node} | ({n.id for n in g.nodes
                                       if it.id in stores_of(n)}
                                      if isinstance(it, ast.Name) else set())
                same = kf[1] == P.id and \
                    kf[2] == _binding_defs(g, P.id, node.id) and \
                    _rebound_before(g, P.id, rid_node, node.id,
                                    stop=astop) is None
                verdict = same
                why = 'the key is the uid of %r, the pilot handed on is %r%s' \
                    % (kf[1], P.id, '' if kf[1] != P.id else
                       ' as bound by another statement')
            else:
                # the pilot object is looked up in the table by the same key
                ks = []
                if isinstance(P, ast.Name):
                    pd, undef = defs_reaching(g, P.id, node.id)
                    for dn in pd:
                        v = assigned_value(dn.ast, P.id) \
                            if dn.kind == 'stmt' else None
                        k = _table_key(g, v, dn.id) if v is not None else None
                        ks.append((k, dn.id))
                    if undef:
                        ks.append((None, node.id))
                else:
                    ks.append((_table_key(g, P, node.id), node.id))
                if ks and all(k is not None for k, _ in ks):
                    vs = [_same_key(g, key, rid_node, k, at, kf)
                          for k, at in ks]
                    if None not in vs:
                        verdict = all(vs)
                        why = 'the pilot object is self._pilots[%s][\'pilot\']' \
                            % unparse(ks[0][0])
            if verdict is None:
                raise AnalysisError(
                    'UNRECOGNISED-IDIOM %s: cannot relate the key `%s` of the '
                    'early pool to the pilot `%s` of `%s`'
                    % (f.where, unparse(key), unparse(P), short(c, 50)))
            rep.check(verdict, rid, f, '%s: the tasks of self._early[%s] are '
                      'assigned to the pilot with that uid (`%s`)'
                      % (where, unparse(key), short(c, 40)),
                      construct='%s [key of the early pool is the uid of the '
                      'pilot]' % short(c, 60),
                      message='%s: the tasks waiting in self._early[%s] are '
                      'handed to `%s`, but %s is not the uid of that pilot '
                      'object: %s.  Tasks which name one pilot are bound to '
                      '(and get the sandboxes of) another one, and the tasks '
                      'which name this pilot stay in the pool'
                      % (where, unparse(key), short(c, 50), unparse(key), why),
                      loc=f.loc(c), history=hist)
            if popped:
                rep.ok(rid, f, '%s: the entry self._early[%s] is removed by '
                       'the read itself (pop)' % (where, unparse(key)),
                       f.loc(g.nodes[rid_node].ast))
                continue
            # the entry removed on the way on is the one that was read
            for dn, dk in drains:
                if dn.id not in g.reachable(nsucc(g, rid_node),
                                            skip_nodes={rid_node}):
                    continue
                same = _same_key(g, key, rid_node, dk, dn.id, kf)
                if same is None:
                    raise AnalysisError(
                        'UNRECOGNISED-IDIOM %s: cannot relate the key of `%s` '
                        'to the key `%s` the tasks were read with'
                        % (f.where, short(dn.ast, 50), unparse(key)))
                rep.check(same, rid, f, '%s: `%s` removes the entry whose '
                          'tasks were forwarded' % (where, short(dn.ast, 40)),
                          construct='%s [entry removed is the entry read]'
                          % short(dn.ast, 60),
                          message='%s: the tasks forwarded were read from '
                          'self._early[%s], but `%s` removes the entry of '
                          'another key: the forwarded tasks stay in the pool '
                          '(forwarded again when the pilot is re-added) and '
                          'the waiting tasks of the other pilot are lost'
                          % (where, unparse(key), short(dn.ast, 50)),
                          loc=f.loc(dn.ast),
                          history='early tasks for p1 and p2; add_pilots([p1, '
                          'p2]); remove and re-add p1: its tasks are forwarded '
                          'a second time, those of p2 never')


def _own_pilot_sites(rep, rid, cname, f, g, smap):
    where = '%s.%s' % (cname, f.name)
    # tasks parked until their pilot is added
    for n, key, t in _early_puts(g):
        rep.saw(f)
        kf = _field_of(g, key, n.id)
        if kf is None or not isinstance(t, ast.Name):
            raise AnalysisError('UNRECOGNISED-IDIOM %s: `%s` parks `%s` under '
                                'a key the recogniser cannot trace to a task'
                                % (f.where, short(n.ast, 50), unparse(t)))
        okay = kf[0] == 'ok' and kf[1] == t.id and kf[3] == 'pilot' and \
            kf[2] == _binding_defs(g, t.id, n.id)
        rep.check(okay, rid, f, '%s: `%s` parks the task under its own '
                  'task[\'pilot\']' % (where, short(n.ast, 40)),
                  construct='%s [parked under the task\'s own pilot id]'
                  % short(n.ast, 60),
                  message='%s: `%s` keeps %r in self._early under `%s`, which '
                  'is not the \'pilot\' entry of that task (%s): when the '
                  'named pilot is added the task is not found (it waits '
                  'forever) or it is forwarded to the pilot another task named'
                  % (where, short(n.ast, 50), t.id, unparse(key),
                     'it is %s[%r]' % (kf[1], kf[3]) if kf[0] == 'ok' else
                     'read before `%s` moved on to the next task'
                     % _defn_text(kf[2])),
                  loc=f.loc(n.ast),
                  history='work([t1 naming p1, t2 naming p2]) before any pilot '
                  'is added, then add_pilots([p1]): t1 is not forwarded to p1 '
                  '(or t2 is)')
    # the pilot object of a task that names its pilot
    for c in assign_calls(f):
        node = smap.get(id(c))
        T, P = assign_task_arg(c), assign_pilot_arg(c)
        if node is None or not isinstance(T, ast.Name) or P is None:
            continue
        ks = []
        pstop = set()
        if isinstance(P, ast.Name):
            # (the lookup at dn is in force at the call on paths which bind
            # the pilot local no more)
            pstop = {n.id for n in g.nodes if P.id in stores_of(n)}
            for dn in defs_reaching(g, P.id, node.id)[0]:
                v = assigned_value(dn.ast, P.id) if dn.kind == 'stmt' else None
                k = pilot_entry(resolve_local(g, v, dn.id), 'pilot') \
                    if v is not None else None
                if k is not None:
                    ks.append((k, v, dn.id))
        else:
            k = pilot_entry(resolve_local(g, P, node.id), 'pilot')
            if k is not None:
                ks.append((k, P, node.id))
        for k, v, at in ks:
            # the key as written at the lookup (a local) or as resolved
            kf = None
            for cand in [x for x in walk(v) if isinstance(x, ast.Name)] + [k]:
                kf = kf or _field_of(g, cand, at)
            if kf is None or kf[1] != T.id:
                continue            # a scheduling decision (R12.1, R12.8)
            rep.saw(f)
            okay = kf[0] == 'ok' and kf[3] == 'pilot' and \
                kf[2] == _binding_defs(g, T.id, node.id) and \
                _rebound_before(g, T.id, at, node.id, stop=pstop | {at}) \
                is None
            rep.check(okay, rid, f, '%s: the pilot object of `%s` is looked '
                      'up by the task\'s own task[\'pilot\']'
                      % (where, short(c, 40)),
                      construct='%s [pilot looked up by the task\'s own '
                      'pilot id]' % short(c, 60),
                      message='%s: `%s` binds %r to self._pilots[%s]'
                      '[\'pilot\'], and %s is not the \'pilot\' entry of that '
                      'task: a task that names a pilot is bound to a '
                      'different one' % (where, short(c, 50), T.id, unparse(k),
                                         unparse(k)),
                      loc=f.loc(c),
                      history='work([t1 naming p1, t2 naming p2]) with both '
                      'pilots added: t2 goes to p1')


# ------------------------------------------------------------------------------
# R12.11  Backfilling releases the cores of a task when it has left
#         AGENT_EXECUTING, not before, and for every final state
#
STATES = 'states.py'


def _reads_task_state(g, e, at, tvars):
    """the (resolved) expression contains a read of the loop task's 'state'"""
    return any(_key_read(x, 'state') in tvars for x in walk(e)
               if isinstance(x, (ast.Subscript, ast.Call)))


def _state_operand(prog, f, g, e, at, tvars, s, values, depth=0):
    """python value of the operand when the task of the loop is in state s:
    the state name itself, a state value, a folded constant - or UNKNOWN"""
    if depth > 6:
        return UNKNOWN
    d = depth + 1
    if _key_read(e, 'state') in tvars:
        return s
    if isinstance(e, ast.Call) and len(e.args) == 1 and not e.keywords and \
            dotted(e.func).split('.')[-1] == '_task_state_value':
        callee = prog.resolve(f.module, e.func)
        if not callee or callee[0] != 'func':
            return UNKNOWN
        v = _state_operand(prog, f, g, e.args[0], at, tvars, s, values, d)
        try:
            return values.get(v, UNKNOWN) if v is not UNKNOWN else UNKNOWN
        except TypeError:
            return UNKNOWN
    if isinstance(e, ast.Subscript) and \
            dotted(e.value).split('.')[-1] == '_task_state_values' and \
            prog.fold(f.module, e.value, f.cls) == values:
        v = _state_operand(prog, f, g, e.slice, at, tvars, s, values, d)
        try:
            return values.get(v, UNKNOWN) if v is not UNKNOWN else UNKNOWN
        except TypeError:
            return UNKNOWN
    if isinstance(e, ast.BinOp) and isinstance(e.op, (ast.Add, ast.Sub)):
        l = _state_operand(prog, f, g, e.left, at, tvars, s, values, d)
        r = _state_operand(prog, f, g, e.right, at, tvars, s, values, d)
        if isinstance(l, int) and isinstance(r, int):
            return l + r if isinstance(e.op, ast.Add) else l - r
        return UNKNOWN
    if _reads_task_state(g, e, at, tvars):
        return UNKNOWN
    v = prog.fold(f.module, e, f.cls)
    if v is UNKNOWN and isinstance(e, ast.Name) and \
            e.id in f.module.assigns and len(f.module.assigns[e.id]) == 1 and \
            not [n for n in g.nodes if e.id in stores_of(n)]:
        # a module level constant computed from the state table
        return _state_operand(prog, f, g, f.module.assigns[e.id][0], at,
                              tvars, s, values, d)
    return v


_CMP = {ast.Lt: lambda a, b: a < b, ast.LtE: lambda a, b: a <= b,
        ast.Gt: lambda a, b: a > b, ast.GtE: lambda a, b: a >= b,
        ast.Eq: lambda a, b: a == b, ast.NotEq: lambda a, b: a != b,
        ast.In: lambda a, b: a in b, ast.NotIn: lambda a, b: a not in b,
        ast.Is: lambda a, b: a is b or a == b,
        ast.IsNot: lambda a, b: not (a is b or a == b)}


def _state_atom(prog, f, g, atom, at, tvars, s, values):
    """truth of the guard atom for a task in state s: True / False; None if
    the atom does not read the task's state; UNKNOWN if it does in a way the
    recogniser cannot evaluate"""
    ra = resolve_local(g, atom, at)
    if not _reads_task_state(g, ra, at, tvars):
        return None
    if not isinstance(ra, ast.Compare):
        return UNKNOWN
    vals = [_state_operand(prog, f, g, x, at, tvars, s, values)
            for x in [ra.left] + list(ra.comparators)]
    if any(v is UNKNOWN for v in vals):
        return UNKNOWN
    try:
        return all(_CMP[type(op)](a, b)
                   for op, a, b in zip(ra.ops, vals, vals[1:]))
    except (TypeError, KeyError):
        return UNKNOWN


class _Opaque(Exception):
    pass


def _state_test(prog, f, g, e, at, tvars, s, values, depth=0):
    """truth of a whole test expression for a task in state s (three valued:
    None = depends on something else); not / and / or are evaluated, so a
    state test inside a disjunction counts; raises _Opaque for a test of the
    task state the recogniser cannot evaluate"""
    if isinstance(e, ast.UnaryOp) and isinstance(e.op, ast.Not):
        v = _state_test(prog, f, g, e.operand, at, tvars, s, values, depth)
        return None if v is None else not v
    if isinstance(e, ast.BoolOp):
        vs = [_state_test(prog, f, g, x, at, tvars, s, values, depth)
              for x in e.values]
        dom = isinstance(e.op, ast.Or)      # the value that decides
        if any(v is dom for v in vs):
            return dom
        return None if any(v is None for v in vs) else (not dom)
    if isinstance(e, ast.Name) and depth < 4:
        v = hoisted_test(g, e.id, at)
        if v is not None:
            return _state_test(prog, f, g, v, at, tvars, s, values, depth + 1)
    v = _state_atom(prog, f, g, e, at, tvars, s, values)
    if v is UNKNOWN:
        raise _Opaque(short(e, 60))
    return v


def r12_11(prog, rep, rid='R12.11'):
    rep.rule(rid, "Backfilling.update_tasks debits info['used'] for a task "
             'state notification only if the task has left AGENT_EXECUTING '
             '(its cores are free), and for every final state', minimum=2)
    fu = prog.method(BF[0], BF[1], 'update_tasks')
    rep.saw(fu)
    values = prog.const(STATES, '_task_state_values')
    busy   = prog.const(STATES, 'AGENT_EXECUTING')
    final  = prog.const(STATES, 'FINAL')
    if not isinstance(values, dict) or busy not in values or \
            not isinstance(final, list) or any(s not in values for s in final):
        raise AnalysisError('anchor %s::_task_state_values / AGENT_EXECUTING / '
                            'FINAL cannot be folded' % STATES)
    db = _usage_updates(prog, fu, ast.Sub)
    if not db:
        raise AnalysisError("UNRECOGNISED-IDIOM %s: debit of info['used'] not "
                            'found' % fu.where)
    for d, dexpr, g in db:
        h = None
        for hh in reversed(d.loops):
            if hh in loop_views(g):
                h = loop_views(g)[hh]
                break
        if h is None:
            raise AnalysisError('UNRECOGNISED-IDIOM %s: debit outside of a '
                                'loop over tasks' % fu.where)
        tvars = set(h.names)
        # the states for which the debit is reachable within one iteration:
        # a test whose outcome the state decides leaves by that edge only
        # (short-circuit operators are separate test nodes of the graph, so
        # disjunctions are followed path by path)
        start = iter_start(g, h.id)
        tnodes = [n for n in g.nodes if n.kind == 'test' and n.ast is not None
                  and n.id in g.loop_body[h.id] and
                  d.id in g.reachable(n.id, skip_nodes={h.id})]
        admitted = []
        for s in values:
            skip = []
            for t in tnodes:
                try:
                    v = _state_test(prog, fu, g, t.ast, t.id, tvars, s, values)
                except _Opaque as e:
                    raise AnalysisError(
                        'UNRECOGNISED-IDIOM %s: the debit `%s` is guarded by '
                        '`%s`, a test of the task state the recogniser cannot '
                        'evaluate' % (fu.where, short(d.ast, 40), e))
                if v is not None:
                    skip.append((t.id, 'F' if v else 'T'))
            if d.id in g.reachable(start, skip_nodes={h.id}, skip_edges=skip):
                admitted.append(s)
        early = sorted((s for s in admitted if values[s] <= values[busy]),
                       key=lambda s: values[s])
        rep.check(not early, rid, fu, "Backfilling: `%s` is reached only for "
                  'task states beyond %s' % (short(d.ast, 40), busy),
                  construct='%s [only after %s]' % (short(d.ast, 70), busy),
                  message="Backfilling.update_tasks: the debit `%s` is reached "
                  'for a notification with task state %s, in which the task '
                  'has not yet released its cores (it occupies them up to and '
                  "including %s): info['used'] drops while the cores are "
                  'busy, the uid lands in info[\'done\'] (the real completion '
                  'is then ignored), and the reschedule that follows '
                  'backfills waiting tasks onto a pilot which is really at '
                  'its high-water mark'
                  % (short(d.ast, 50), ' / '.join(str(s) for s in early[-3:]),
                     busy), loc=fu.loc(d.ast),
                  history='pilot with 2 cores (hwm 4), three tasks of 2 cores '
                  '(the third waits); notification %s for the first task: '
                  'used drops to 2 and the third task is assigned although '
                  'both running tasks still hold their cores'
                  % (early[-1] if early else busy))
        missing = [s for s in final if s not in admitted]
        rep.check(not missing, rid, fu, "Backfilling: `%s` is reached for "
                  'every final task state' % short(d.ast, 40),
                  construct='%s [every final state]' % short(d.ast, 70),
                  message="Backfilling.update_tasks: the debit `%s` is not "
                  'reached for a task that ends in %s: the cores of such a '
                  "task are never given back, info['used'] does not return to "
                  'zero when all tasks have finished and the pilot stays at '
                  'its high-water mark' % (short(d.ast, 50),
                                           ' / '.join(missing)),
                  loc=fu.loc(d.ast),
                  history='a task is assigned to a pilot and ends in %s: '
                  "info['used'] keeps its cores for ever"
                  % (missing[0] if missing else 'FAILED'))


# ------------------------------------------------------------------------------
# R12.16  tasks wait only while no eligible pilot exists: the flag which is
#         set in a loop over notifications and triggers self._schedule_tasks()
#         after the loop accumulates over the iterations, and every debit of
#         info['used'] sets it
#
def _flag_of_test(a):
    """(name, polarity) for `if name` / `if not name` (else None)"""
    pol = True
    while isinstance(a, ast.UnaryOp) and isinstance(a.op, ast.Not):
        a, pol = a.operand, not pol
    if isinstance(a, ast.Name):
        return a.id, pol
    return None


def _keeps_flag(v, flag, pol):
    """the value expression cannot clear a flag that is set (set == pol):
    `flag or X`, `X or flag`, `flag | X`, `True if X else flag`"""
    if isinstance(v, ast.Name):
        return v.id == flag
    if isinstance(v, ast.Constant):
        return v.value is pol
    if isinstance(v, ast.BoolOp):
        if isinstance(v.op, ast.Or) == pol:
            return any(_keeps_flag(x, flag, pol) for x in v.values)
        return all(_keeps_flag(x, flag, pol) for x in v.values)
    if isinstance(v, ast.BinOp) and isinstance(v.op, (ast.BitOr, ast.BitAnd)):
        arms = (v.left, v.right)
        if isinstance(v.op, ast.BitOr) == pol:
            return any(_keeps_flag(x, flag, pol) for x in arms)
        return all(_keeps_flag(x, flag, pol) for x in arms)
    if isinstance(v, ast.IfExp):
        return _keeps_flag(v.body, flag, pol) and \
            _keeps_flag(v.orelse, flag, pol)
    return False


def _iteration_value(v):
    """the value is a test / a field computed from the data of the current
    iteration alone (nothing a method call could hide)"""
    for x in walk(v):
        if isinstance(x, ast.Call) and not (
                dotted(x.func) in ('bool', 'len', 'any', 'all', 'int') or
                isinstance(x.func, ast.Attribute) and
                x.func.attr in ('get', '_pilot_state_value',
                                '_task_state_value')):
            return False
    return isinstance(v, (ast.Compare, ast.BoolOp, ast.UnaryOp, ast.Subscript,
                          ast.Attribute, ast.Constant, ast.Call, ast.Name))


def _trigger_flags(f, g, smap):
    """{(flag, polarity): test node id} for the local flags whose test
    controls a call of self._schedule_tasks()"""
    out = {}
    for c in calls_in(f.node):
        if dotted(c.func) != 'self._schedule_tasks' or id(c) not in smap:
            continue
        for tid, lab in guards(g, smap[id(c)].id):
            fp = _flag_of_test(g.nodes[tid].ast)
            if fp is None or fp[0] in f.params:
                continue
            out[(fp[0], fp[1] == (lab == 'T'))] = tid
    return out


def r12_16(prog, rep, rid='R12.16'):
    rep.rule(rid, 'the local flag that is set in a loop over notifications '
             'and triggers self._schedule_tasks() after the loop accumulates '
             "(no iteration clears what an earlier one set), and a debit of "
             "info['used'] is followed by the reschedule on every path",
             minimum=1)
    seen = set()
    for rel, cname in (BASE, RR, BF):
        K = prog.cls(rel, cname)
        for mname, f in sorted(K.methods.items()):
            if id(f.node) in seen or mname in STARTUP:
                continue
            seen.add(id(f.node))
            if not any(dotted(c.func) == 'self._schedule_tasks'
                       for c in calls_in(f.node)):
                continue
            g = cfg_of(f)
            smap = I.stmt_node_map(g)
            flags = _trigger_flags(f, g, smap)
            for (flag, pol), tid in sorted(flags.items()):
                for x in g.nodes:
                    if x.kind != 'stmt' or flag not in stores_of(x):
                        continue
                    # the loops the store lies in and the test does not
                    outer = [h for h in x.loops
                             if tid not in g.loop_body.get(h, ())]
                    if not outer:
                        continue
                    rep.saw(f)
                    h = outer[0]
                    hdr = loop_views(g)[h].header if h in loop_views(g) \
                        else short(g.nodes[h].ast, 40)
                    a = x.ast
                    if isinstance(a, ast.AugAssign):
                        v = ast.BinOp(left=ast.Name(id=flag, ctx=ast.Load()),
                                      op=a.op, right=a.value)
                    else:
                        v = assigned_value(a, flag)
                    if v is None:
                        raise AnalysisError(
                            'UNRECOGNISED-IDIOM %s: `%s` binds the flag %r '
                            'which triggers the reschedule'
                            % (f.where, short(a, 40), flag))
                    # a store which runs only while the flag is not set
                    only_unset = any(
                        _flag_of_test(g.nodes[t].ast) == (flag, pol) and
                        lab == 'F' or
                        _flag_of_test(g.nodes[t].ast) == (flag, not pol) and
                        lab == 'T' for t, lab in guards(g, x.id))
                    okay = only_unset or _keeps_flag(v, flag, pol)
                    if not okay:
                        tested_inside = any(
                            n.kind == 'test' and n.id in g.loop_body[h] and
                            _flag_of_test(n.ast) is not None and
                            _flag_of_test(n.ast)[0] == flag for n in g.nodes)
                        if tested_inside or not _iteration_value(v):
                            raise AnalysisError(
                                'UNRECOGNISED-IDIOM %s: `%s` in the loop `%s` '
                                'binds the flag %r which triggers the '
                                'reschedule after the loop to a value the '
                                'recogniser cannot decide'
                                % (f.where, short(a, 50), hdr, flag))
                    rep.check(okay, rid, f, '%s.%s: `%s` in the loop `%s` '
                              'cannot clear the flag which triggers '
                              'self._schedule_tasks() after the loop'
                              % (cname, mname, short(a, 40), hdr),
                              construct='%s accumulates over `%s`'
                              % (flag, hdr),
                              message='%s.%s: the flag %r decides after the '
                              'loop `%s` whether self._schedule_tasks() is '
                              'called, but `%s` overwrites it in every '
                              'iteration instead of accumulating (`%s = %s '
                              '%s ...`): the last element of the bulk decides '
                              'alone; a notification earlier in the bulk '
                              'which freed room on a pilot (or named an '
                              'eligible pilot) is forgotten, no reschedule '
                              'happens and the tasks in the wait pool stay '
                              'unbound although an added, active pilot is '
                              'below its high-water mark'
                              % (cname, mname, flag, hdr, short(a, 60), flag,
                                 flag, 'or' if pol else 'and'),
                              loc=f.loc(a),
                              history='backfilling, pilot A full (4/4), pilot '
                              'B above its mark (8/6), one task waits; one '
                              'notification bulk [task of A DONE, task of B '
                              'DONE]: A has room (3/4) but the flag holds the '
                              'answer for B (7/6): no reschedule, the task '
                              'keeps waiting')
    # every debit reaches the reschedule
    fu = prog.method(BF[0], BF[1], 'update_tasks')
    rep.saw(fu)
    g = cfg_of(fu)
    smap = I.stmt_node_map(g)
    debits = {d.id: d for d, _, _ in _usage_updates(prog, fu, ast.Sub)}
    if not debits:
        raise AnalysisError("UNRECOGNISED-IDIOM %s: debit of info['used'] not "
                            'found' % fu.where)
    sched = {smap[id(c)].id for c in calls_in(fu.node)
             if dotted(c.func) == 'self._schedule_tasks' and id(c) in smap}
    fnames = {k[0] for k in _trigger_flags(fu, g, smap)}

    # nodes from which the return is reachable without the reschedule
    escape = set()
    todo = [g.exit.id]
    while todo:
        m = todo.pop()
        if m in escape or m in sched:
            continue
        escape.add(m)
        todo += [e.src for e in g.pred[m] if e.label != 'exc']
    alive = set()                       # ... is reachable at all
    todo = [g.exit.id]
    while todo:
        m = todo.pop()
        if m not in alive:
            alive.add(m)
            todo += [e.src for e in g.pred[m] if e.label != 'exc']

    def transfer(node, edge, st):
        deb, fl, taint = st
        a = node.ast
        if node.kind == 'test' and edge.label in 'TF':
            fp = _flag_of_test(a)
            if fp is not None and fp[0] in fnames:
                known = dict(fl).get(fp[0], 'U')
                if known == 'U':
                    taint = max(taint, 1)
                elif (known == fp[1]) != (edge.label == 'T'):
                    return None
            elif deb is not None and len(
                    {e.dst in escape for e in g.succ[node.id]
                     if e.label in 'TF' and e.dst in alive}) == 2:
                # a test other than a flag decides whether the reschedule
                # is reached
                taint = 2
        if edge.label == 'exc':
            return (deb, fl, taint)
        if node.kind == 'stmt':
            hit = set(stores_of(node)) & fnames
            if hit:
                dfl = dict(fl)
                for name in hit:
                    v = assigned_value(a, name)
                    dfl[name] = v.value if isinstance(v, ast.Constant) and \
                        isinstance(v.value, bool) else 'U'
                fl = tuple(sorted(dfl.items()))
            if node.id in debits:
                deb = node.id
            if node.id in sched:
                deb = None
        return (deb, fl, taint)

    ex = Exploration(g, g.entry.id, (None, (), 0), transfer)
    for did, d in sorted(debits.items()):
        lost = [t for t in ex.terminals if t.node == g.exit.id and
                t.state[0] == did and not t.state[2]]
        odd = [t for t in ex.terminals if t.node == g.exit.id and
               t.state[0] == did and t.state[2] == 2]
        if odd and not lost:
            raise AnalysisError(
                'UNRECOGNISED-IDIOM %s: whether self._schedule_tasks() is '
                'called after the debit `%s` is decided by a test which is '
                'not a boolean flag (%s)'
                % (fu.where, short(d.ast, 40),
                   ' ; '.join(ex.literals(odd[0])[-2:])))
        rep.check(not lost, rid, fu, 'Backfilling.update_tasks: every path '
                  'from the debit `%s` to the return calls '
                  'self._schedule_tasks()' % short(d.ast, 40),
                  construct='%s [followed by the reschedule]'
                  % short(d.ast, 70),
                  message="Backfilling.update_tasks: after the debit `%s` "
                  'the function can return without a call of '
                  'self._schedule_tasks() (path: %s): the pilot has room '
                  'again, but the tasks in the wait pool are not looked at - '
                  'they stay unbound although an eligible pilot exists'
                  % (short(d.ast, 50),
                     ' ; '.join(ex.literals(lost[0])[-4:]) if lost else ''),
                  loc=fu.loc(d.ast),
                  history='backfilling, one pilot at its high-water mark, one '
                  'task waits; a task of the pilot ends DONE: used drops '
                  'below the mark but the waiting task is not scheduled')


# ------------------------------------------------------------------------------
# R12.17  the pilots TaskManager.add_pilots / remove_pilots names in the
#         command are exactly those it put into / took out of its own table
#
def _table_updates(g, body, attr, kind):
    """{cfg node id: key expr}: `del self.<attr>[K]` / `self.<attr>.pop(K)`
    (kind 'del') or `self.<attr>[K] = ..` (kind 'put') among the nodes"""
    out = {}
    for m in body:
        n = g.nodes[m]
        if n.kind != 'stmt' or n.ast is None:
            continue
        for k, t, st in I.stores(n.ast):
            if kind == 'del' and k == 'del' and isinstance(t, ast.Subscript) \
                    and is_self_attr(t.value, attr):
                out[m] = t.slice
            elif kind == 'del' and k == 'mutate' and is_self_attr(t, attr) and \
                    isinstance(st.func, ast.Attribute) and \
                    st.func.attr == 'pop' and st.args:
                out[m] = st.args[0]
            elif kind == 'put' and k == 'assign' and \
                    isinstance(t, ast.Subscript) and \
                    is_self_attr(t.value, attr):
                out[m] = t.slice
    return out


def _strict_consumer(prog, api):
    """control_cb raises on some path of the branch which handles the
    command: one element it does not accept and the whole command (also the
    elements after it) is dropped"""
    f = prog.method(BASE[0], BASE[1], 'control_cb')
    g = cfg_of(f)
    cmdv = _msg_vars(f, 'cmd')
    for n in g.nodes:
        if n.kind == 'stmt' and isinstance(n.ast, ast.Raise):
            vals = _cmd_values(prog, f, g, n, cmdv)
            if vals is not None and api in vals:
                return True
    return False


def r12_17(prog, rep, rid='R12.17'):
    rep.rule(rid, 'TaskManager.add_pilots / remove_pilots: the list of pilots '
             'published with the command holds exactly the pilots the method '
             'stored in / deleted from self._pilots (every iteration that '
             'does not raise does both or neither)', minimum=2)
    tm = prog.cls(*TMGR)
    pubs = _cmd_messages(prog, tm)
    for api, kind in (('add_pilots', 'put'), ('remove_pilots', 'del')):
        pf = prog.find_method(tm, api)
        if pf is None:
            raise AnalysisError('anchor TaskManager.%s not found' % api)
        rep.saw(pf)
        g = cfg_of(pf)
        smap = I.stmt_node_map(g)
        mine = [d for (xf, d, cmd, akeys) in pubs if xf is pf and cmd == api]
        if not mine:
            continue                    # another command: R12.15
        if not _strict_consumer(prog, api):
            rep.ok(rid, pf, 'control_cb never raises for the command %r: an '
                   'element it does not know is skipped' % api, pf.loc(pf.node))
            continue
        for d in mine:
            if id(d) not in smap:
                raise AnalysisError('UNRECOGNISED-IDIOM %s: message built '
                                    'outside of a statement' % pf.where)
            pn = smap[id(d)]
            arg = dict_field(d, 'arg')
            if isinstance(arg, ast.Name):
                fd = fresh_dict(g, arg, pn.id)
                arg = fd[0] if fd and len(fd) == 1 else None
            if not isinstance(arg, ast.Dict):
                raise AnalysisError("UNRECOGNISED-IDIOM %s: the 'arg' of the "
                                    'command is not a dict display' % pf.where)
            lists = []
            for k, v in zip(arg.keys, arg.values):
                v = strip_copy(v)
                if isinstance(v, ast.Name) and v.id != 'self':
                    lists.append((k.value if isinstance(k, ast.Constant)
                                  else unparse(k), v))
            if not lists:
                raise AnalysisError('UNRECOGNISED-IDIOM %s: the command names '
                                    'no local list of pilots' % pf.where)
            views = loop_views(g)
            for key, P in lists:
                pdefs = {x.id for x in defs_reaching(g, P.id, pn.id)[0]}
                # (a) the published list is the one the loop walks
                walked = [lv for h, lv in sorted(views.items())
                          if lv.form in ('for', 'range') and
                          isinstance(strip_copy(lv.iter), ast.Name) and
                          strip_copy(lv.iter).id == P.id and
                          pn.id not in g.loop_body[h]]
                # (b) the published list is filled in the loop
                filled = {}
                for c in calls_in(pf.node):
                    if isinstance(c.func, ast.Attribute) and \
                            c.func.attr == 'append' and \
                            isinstance(c.func.value, ast.Name) and \
                            c.func.value.id == P.id and id(c) in smap and \
                            smap[id(c)].loops:
                        filled.setdefault(smap[id(c)].loops[0],
                                          set()).add(smap[id(c)].id)
                if filled:
                    vals = [assigned_value(g.nodes[x].ast, P.id)
                            for x in pdefs]
                    if len(filled) != 1 or not all(
                            v is not None and is_empty_ctor(v) for v in vals):
                        raise AnalysisError(
                            'UNRECOGNISED-IDIOM %s: the published list %r is '
                            'not an empty list filled in one loop'
                            % (pf.where, P.id))
                    h = list(filled)[0]
                    apps = filled[h]
                    if h not in views:
                        raise AnalysisError('UNRECOGNISED-IDIOM %s: loop form'
                                            % pf.where)
                    lv = views[h]
                elif len(walked) == 1:
                    lv, h, apps = walked[0], walked[0].id, None
                    ldefs = {x.id for x in defs_reaching(g, P.id, h)[0]}
                    if ldefs != pdefs:
                        raise AnalysisError(
                            'UNRECOGNISED-IDIOM %s: the list %r is rebound '
                            'between the loop and the message'
                            % (pf.where, P.id))
                else:
                    raise AnalysisError(
                        'UNRECOGNISED-IDIOM %s: the published list %r is '
                        'neither walked by one loop of the method nor filled '
                        'in one' % (pf.where, P.id))
                ups = _table_updates(g, g.loop_body[h], '_pilots', kind)
                if not ups:
                    raise AnalysisError(
                        'UNRECOGNISED-IDIOM %s: the loop `%s` does not update '
                        'self._pilots' % (pf.where, lv.header))
                if apps is None:
                    for m, K in sorted(ups.items()):
                        kk = resolve_local(g, K, m)
                        if not (isinstance(kk, ast.Name) and
                                kk.id in lv.names):
                            raise AnalysisError(
                                'UNRECOGNISED-IDIOM %s: `%s` is not keyed by '
                                'the element of `%s`'
                                % (pf.where, short(g.nodes[m].ast, 40),
                                   lv.header))
                start, stop, stop_edge = loop_slice(g, h)

                def transfer(node, edge, st, ups=ups, apps=apps):
                    u, a = st
                    if edge.label == 'exc':
                        return st
                    if node.id in ups:
                        u = True
                    if apps is not None and node.id in apps:
                        a = True
                    return (u, a)
                ex = Exploration(g, start, (False, apps is None), transfer,
                                 stop=stop, stop_edge=stop_edge)
                told = [t for t in ex.terminals if t.node != g.raise_.id
                        and t.state[1] and not t.state[0]]
                kept = [t for t in ex.terminals if t.node != g.raise_.id
                        and t.state[0] and not t.state[1]]
                done = 'removed from' if kind == 'del' else 'stored in'
                w = told[0] if told else kept[0] if kept else None
                rep.check(not told and not kept, rid, pf,
                          'TaskManager.%s: every iteration of `%s` that does '
                          'not raise has the pilot %s self._pilots%s; the '
                          "command carries that list as arg['%s']"
                          % (api, lv.header, done, '' if apps is None else
                             ' and appended to %s' % P.id, key),
                          construct="TaskManager.%s: arg['%s'] == pilots %s "
                          'self._pilots' % (api, key, done),
                          message="TaskManager.%s publishes the command %r "
                          "with arg['%s'] = %s, but an iteration of `%s` can "
                          'end normally (path: %s) %s: the task manager and '
                          'the scheduler disagree on the pilot set - '
                          'control_cb of the scheduler raises on the pilot it '
                          'does not expect and drops the whole command, so %s'
                          % (api, api, key, P.id, lv.header,
                             ' ; '.join(ex.literals(w)[-3:]) if w else '',
                             ('with the pilot named in the command but not '
                              '%s self._pilots' % done) if told else
                             ('with the pilot %s self._pilots but not named '
                              'in the command' % done),
                             'the pilots which the task manager did remove '
                             'keep role ADDED, stay in self._pids and still '
                             'receive tasks' if kind == 'del' else
                             'the pilots which the task manager did add are '
                             'never used: tasks wait although an added pilot '
                             'exists'),
                          loc=pf.loc(lv.ast),
                          history="add_pilots([p0, p1]); remove_pilots(['pX', "
                          "'p1']) with pX unknown to the task manager: p1 is "
                          'dropped by the task manager, the scheduler raises '
                          'on pX before it marks p1 REMOVED; of the next four '
                          'tasks two are bound to p1' if kind == 'del' else
                          'add_pilots([p0, p1]) where p0 is skipped locally '
                          'but published: control_cb raises, p1 is never used')


# ------------------------------------------------------------------------------
# R12.18  a value the Session caches for _assign_pilot and which is computed
#         from the identity of the pilot (pilot['uid']) is cached under a key
#         computed from that identity
#
IDENTITY = ('uid',)


def _field_path(e, roots):
    """(root parameter, (key, ..)) for root['a'].get('b') .. (else None)"""
    if isinstance(e, ast.Name):
        return (roots[e.id], ()) if e.id in roots else None
    if isinstance(e, ast.Subscript) and isinstance(e.slice, ast.Constant):
        p = _field_path(e.value, roots)
        return None if p is None else (p[0], p[1] + (e.slice.value,))
    if isinstance(e, ast.Call) and isinstance(e.func, ast.Attribute) and \
            e.func.attr == 'get' and e.args and \
            isinstance(e.args[0], ast.Constant):
        p = _field_path(e.func.value, roots)
        return None if p is None else (p[0], p[1] + (e.args[0].value,))
    return None


def _binding_stmts(f):
    """[(bound root names, [value expressions])] of the statements of f"""
    out = []
    for n in walk(f.node):
        if isinstance(n, ast.Assign):
            names = set()
            extra = []
            for t in n.targets:
                for e in I._flat(t):
                    names.add(root_name(e))
                    if isinstance(e, ast.Subscript):
                        extra.append(e.slice)
            out.append((names, [n.value] + extra))
        elif isinstance(n, (ast.AugAssign, ast.AnnAssign)) and \
                n.value is not None:
            out.append(({root_name(n.target)}, [n.value]))
        elif isinstance(n, ast.For):
            out.append((set(stores_in_target(n.target)), [n.iter]))
        elif isinstance(n, ast.Expr) and isinstance(n.value, ast.Call) and \
                isinstance(n.value.func, ast.Attribute) and \
                n.value.func.attr in MUTATORS:
            out.append(({root_name(n.value.func.value)},
                        list(n.value.args)))
    return out


def _param_reads(prog, cls, f, exprs, depth=0, seen=None):
    """(field paths of the parameters of f which the expressions are computed
    from - through the locals of f, flow-insensitively, and through the
    methods of the class which are handed a parameter whole -, calls outside
    of the class which are handed a parameter whole)"""
    seen = set() if seen is None else seen
    params = [p for p in f.params if p != 'self']
    roots = {p: p for p in params}
    binds = _binding_stmts(f)
    for _ in range(3):                  # plain aliases of a parameter
        for names, vals in binds:
            if len(vals) == 1 and isinstance(vals[0], ast.Name) and \
                    vals[0].id in roots and len(names) == 1:
                roots.setdefault(list(names)[0], roots[vals[0].id])
    todo = list(exprs)
    names, reads, foreign = set(), set(), []
    while todo:
        e = todo.pop()
        for x in walk(e):
            p = _field_path(x, roots)
            if p is not None and p[1]:
                reads.add(p)
            if isinstance(x, ast.Name) and x.id not in names and \
                    x.id != 'self':
                names.add(x.id)
                for bound, vals in binds:
                    if x.id in bound:
                        todo += vals
            if isinstance(x, ast.Call):
                whole = [(i, a) for i, a in enumerate(x.args)
                         if isinstance(a, ast.Name) and a.id in roots]
                if not whole:
                    continue
                m = None
                if isinstance(x.func, ast.Attribute) and \
                        isinstance(x.func.value, ast.Name) and \
                        x.func.value.id == 'self':
                    m = prog.find_method(cls, x.func.attr)
                if m is None:
                    if dotted(x.func) not in PURE:
                        foreign.append(x)
                    continue
                if id(m.node) in seen or depth > 4:
                    continue
                seen.add(id(m.node))
                mp = [p for p in m.params if p != 'self']
                body = [s for s in m.node.body]
                sub, fo = _param_reads(prog, cls, m, body, depth + 1, seen)
                foreign += fo
                for i, a in whole:
                    if i < len(mp):
                        reads |= {(roots[a.id], path) for r, path in sub
                                  if r == mp[i]}
    return reads, foreign


def _cache_fills(f):
    """[(assignment / call, section constant, key expr, value expr)]: stores
    self._cache[<section>][K] = V (also through a local bound to the
    section, and .setdefault(K, V))"""
    single = {}
    for n in walk(f.node):
        if isinstance(n, ast.Assign) and len(n.targets) == 1 and \
                isinstance(n.targets[0], ast.Name):
            single.setdefault(n.targets[0].id, []).append(n.value)

    def section(b):
        if isinstance(b, ast.Name) and len(single.get(b.id, ())) == 1:
            b = single[b.id][0]
        if isinstance(b, ast.Subscript) and is_self_attr(b.value, '_cache') \
                and isinstance(b.slice, ast.Constant):
            return b.slice.value
        return None
    out = []
    for n in walk(f.node):
        if isinstance(n, ast.Assign):
            for t in n.targets:
                if isinstance(t, ast.Subscript) and \
                        section(t.value) is not None:
                    out.append((n, section(t.value), t.slice, n.value))
        elif isinstance(n, ast.Call) and isinstance(n.func, ast.Attribute) \
                and n.func.attr == 'setdefault' and len(n.args) == 2 and \
                section(n.func.value) is not None:
            out.append((n, section(n.func.value), n.args[0], n.args[1]))
    return out


def r12_18(prog, rep, rid='R12.18'):
    from . import c11
    rep.rule(rid, 'a value the Session caches for _assign_pilot which is '
             "computed from the identity of the pilot (pilot['uid']) is "
             'cached under a key computed from that identity', minimum=3)
    f = prog.method(BASE[0], BASE[1], '_assign_pilot')
    S = prog.cls(*c11.SESSION)
    getters = c11.cached_getters(prog, S)
    todo = sorted({c.func.attr for c in calls_in(f.node)
                   if isinstance(c.func, ast.Attribute) and
                   c.func.attr in getters})
    # the getters those call in turn
    done = []
    while todo:
        name = todo.pop(0)
        if name in done:
            continue
        done.append(name)
        for c in calls_in(getters[name].node):
            if isinstance(c.func, ast.Attribute) and c.func.attr in getters \
                    and c.func.attr not in done:
                todo.append(c.func.attr)
    n = 0
    for name in sorted(done):
        m = getters[name]
        for st, sec, K, V in _cache_fills(m):
            n += 1
            rep.saw(m)
            vreads, _ = _param_reads(prog, S, m, [V])
            kreads, kforeign = _param_reads(prog, S, m, [K])
            per_pilot = sorted(r for r, path in vreads if path == IDENTITY)
            if not per_pilot:
                rep.ok(rid, m, 'Session.%s: the value cached in %r is not '
                       'computed from the identity of a pilot' % (name, sec),
                       m.loc(st))
                continue
            if kforeign:
                raise AnalysisError(
                    'UNRECOGNISED-IDIOM %s: the cache key `%s` is computed by '
                    '`%s`, a call the recogniser cannot look into'
                    % (m.where, short(K, 40), short(kforeign[0], 40)))
            okay = all((r, IDENTITY) in kreads for r in per_pilot)
            kdesc = ', '.join(sorted("%s[%s]" % (r, ']['.join(
                repr(k) for k in path)) for r, path in kreads)) or 'constant'
            rep.check(okay, rid, m, "Session.%s: the entry of %r is computed "
                      "from %s['uid'] and keyed by it" % (name, sec,
                                                          per_pilot[0]),
                      construct="self._cache[%r] keyed by the pilot identity"
                      % sec,
                      message="Session.%s caches under self._cache[%r][%s] a "
                      "value which is computed from %s['uid'], but the key is "
                      'computed from %s only: the second pilot with the same '
                      'key gets the entry of the first. _assign_pilot takes '
                      'the sandboxes of a task from this getter (Pilot.'
                      '__init__ takes its own from it and hands it on in '
                      "as_dict()), so a task bound to one pilot (task['pilot']"
                      ') carries the pilot / task sandboxes of another pilot'
                      % (name, sec, short(K, 30), per_pilot[0], kdesc),
                      loc=m.loc(st),
                      history='two pilots p0, p1 on the same resource, '
                      'RoundRobin, four tasks: tasks 1 and 3 are bound to p1 '
                      'but their pilot_sandbox / task_sandbox lie under '
                      '.../p0/')
    if not n:
        raise AnalysisError('UNRECOGNISED-IDIOM %s: no getter used by '
                            '_assign_pilot fills self._cache' % c11.SESSION[1])


# ------------------------------------------------------------------------------
# R12.12  sandbox derivation of _assign_pilot: the URLs a Session keeps in its
#         cache are copied before they are extended (R11.6b re-evaluated)
#
def r12_12(prog, rep, rid='R12.12'):
    from . import c11
    f = prog.method(BASE[0], BASE[1], '_assign_pilot')
    getters = c11.cached_getters(prog, prog.cls(*c11.SESSION))
    used = {c.func.attr for c in calls_in(f.node)
            if isinstance(c.func, ast.Attribute) and c.func.attr in getters}
    if not used:
        raise AnalysisError('UNRECOGNISED-IDIOM %s: _assign_pilot derives no '
                            'sandbox from a cached getter of Session (%s)'
                            % (f.where, sorted(used)))
    n0 = len(rep.findings)
    c11.r11_6b(prog, rep, rid=rid)
    for fd in rep.findings[n0:]:
        if fd.rule == rid:
            fd.message += (' [C12: _assign_pilot takes the sandboxes of a task '
                           'from these getters (%s): the second pilot on the '
                           'same resource gets a sandbox nested in that of '
                           'the first, and tasks bound to one pilot carry the '
                           'sandboxes of another]' % ', '.join(sorted(used)))
            fd.history = ('two pilots p1, p2 on one resource (pilot_sandbox '
                          'not yet resolved), RoundRobin, four tasks: the '
                          'tasks of p2 get .../p1/p2/<task> and the session '
                          'sandbox of all later tasks is .../p1/')


# ------------------------------------------------------------------------------
# R12.19  only the add_pilots path stores a pilot object in a record
#
def _in_add_path(prog, f, g, node, depth=0):
    """True / False / None (cannot tell): the site runs only for the
    'add_pilots' command: it lies in add_pilots / _add_pilots, on the branch
    cmd == 'add_pilots' of control_cb, or in a helper all of whose call sites
    do"""
    if f.name in ('add_pilots', '_add_pilots'):
        return True
    cmds = False
    for a, pol, tid in guard_facts(g, node.id):
        cc = const_compare(prog, f.module, a, f.cls)
        if cc and cc[2] and all(isinstance(x, str) and x.endswith(
                ('_pilots', '_tasks')) for x in cc[2]):
            cmds = True
            if cc[2] == frozenset(['add_pilots']) and (cc[1] == 'in') == pol:
                return True
    if cmds:
        return False
    if f.name == 'control_cb':
        return None         # dispatched in a way the guards do not show
    if depth >= 2:
        return False
    verdicts = []
    seen = set()
    for rel, cname in (BASE, RR, BF):
        for mname, m in prog.cls(rel, cname).methods.items():
            if id(m.node) in seen or m.node is f.node:
                continue
            seen.add(id(m.node))
            cs = [c for c in calls_in(m.node)
                  if call_name(c) == 'self.' + f.name]
            if not cs:
                continue
            mg = cfg_of(m)
            msmap = I.stmt_node_map(mg)
            for c in cs:
                if id(c) not in msmap:
                    verdicts.append(False)
                    continue
                verdicts.append(_in_add_path(prog, m, mg, msmap[id(c)],
                                             depth + 1))
    if not verdicts or any(v is False for v in verdicts):
        return False
    if any(v is None for v in verdicts):
        return None
    return True


def _is_none_value(g, v, at):
    """v is the constant None (directly, or a local all of whose reaching
    definitions assign the constant None)"""
    if isinstance(v, ast.Constant):
        return v.value is None
    if isinstance(v, ast.Name):
        defs, undef = defs_reaching(g, v.id, at)
        vals = [assigned_value(d.ast, v.id) if d.kind == 'stmt' else None
                for d in defs]
        return bool(defs) and not undef and all(
            isinstance(x, ast.Constant) and x.value is None for x in vals)
    return False


def r12_19(prog, rep, rid='R12.19'):
    rep.rule(rid, "the 'pilot' field of a record in self._pilots - whose truth "
             'value work() and the schedulers read as "this pilot was added" - '
             "receives a value other than None only on the 'add_pilots' path "
             '(control_cb for that command, add_pilots); every other writer of '
             'a record (the placeholder for a pilot first seen in a state '
             'notification) stores None', minimum=1)
    seen = set()
    for rel, cname in (BASE, RR, BF):
        K = prog.cls(rel, cname)
        for mname, f in sorted(K.methods.items()):
            if id(f.node) in seen or mname in STARTUP:
                continue
            seen.add(id(f.node))
            g = cfg_of(f)
            smap = I.stmt_node_map(g)
            sites = []      # (stmt, cfg node, key text, value)
            for n, node, key, ds in record_stores(f, g):
                for d in ds:
                    v = dict_field(d, 'pilot')
                    if v is not None:
                        sites.append((n, node, unparse(key), v))
            for kind, t, st in I.stores(f.node):
                if kind != 'assign' or id(st) not in smap:
                    continue
                sn = smap[id(st)]
                k = pilot_entry(resolve_local(g, t, sn.id), 'pilot')
                if k is not None:
                    sites.append((st, sn, unparse(k), st.value))
            for n, node, kt, v in sites:
                rep.saw(f)
                if _is_none_value(g, v, node.id):
                    rep.ok(rid, f, "%s.%s: `%s` stores None under 'pilot'"
                           % (cname, mname, short(n, 50)), f.loc(n))
                    continue
                where = _in_add_path(prog, f, g, node)
                if where is None:
                    rep.info(rid, f, "%s.%s: `%s` stores a pilot object; the "
                             'command it runs for is not visible in the guards'
                             % (cname, mname, short(n, 50)), f.loc(n))
                    continue
                rep.check(where, rid, f, "%s.%s: `%s` stores the pilot object "
                          "on the 'add_pilots' path" % (cname, mname,
                                                        short(n, 50)),
                          construct="self._pilots[%s]['pilot'] = %s"
                          % (kt, short(v, 40)),
                          message="%s.%s: `%s` stores `%s` under 'pilot' of the "
                          'record of a pilot outside the add_pilots path: the '
                          "truth value of self._pilots[pid]['pilot'] is what "
                          'work() (and R12.8\'s guards) read as "the pilot was '
                          'added", so a pilot which is only known from a state '
                          'notification counts as added: an early-bound task is '
                          'assigned and forwarded at once instead of waiting in '
                          'self._early for add_pilots'
                          % (cname, mname, short(n, 60), short(v, 40)),
                          loc=f.loc(n),
                          history='state notification for pilot p1 arrives '
                          "before add_pilots(p1); work([t]) with t['pilot'] == "
                          'p1: t is bound to p1 and advanced to '
                          'TMGR_STAGING_INPUT_PENDING although p1 was never '
                          'added to this task manager')


# ------------------------------------------------------------------------------
#
def run(prog, rep, tier):
    rep.decided = ('the pilot bound by both _schedule_tasks derives from '
        'self._pids, which grows only in add_pilots and shrinks in '
        'remove_pilots, called by control_cb for the respective command after '
        'the role was stored; every task loop of the three scheduler classes '
        'has exactly one outcome per task and every collected list is handed '
        'on; pools whose content is forwarded are cleared on that path; every '
        'hand-on to TMGR_STAGING_INPUT_PENDING is preceded by _assign_pilot; '
        'backfilling candidates are filtered by role, state window and '
        'high-water mark, full pilots leave the candidates; usage is credited '
        'and debited by the same expression, once per task; the round-robin '
        'index is wrapped before use and advanced once per assignment; a '
        'pilot record is created only for a pilot that has none (what the '
        'scheduler learned about a pilot is never reset); the tasks read from '
        'self._early[K] go to the pilot whose uid is K and that entry is the '
        'one removed, a task is parked under and looked up by its own '
        "task['pilot']; Backfilling debits info['used'] exactly for task "
        'states beyond AGENT_EXECUTING, including every final state '
        '(evaluated over the state table); the Session getters that '
        '_assign_pilot derives the sandboxes from never change a cached URL '
        'through an alias (R11.6b re-evaluated as R12.12); the flag which '
        'triggers the reschedule after a notification loop accumulates over '
        "the iterations and every debit of info['used'] reaches the "
        'reschedule (R12.16); the pilots TaskManager.add_pilots / '
        'remove_pilots names in the command are exactly those it stored in / '
        'deleted from its own table (R12.17); a cached Session value computed '
        "from pilot['uid'] is keyed by pilot['uid'] (R12.18).")
    rep.undecided = ('interleavings of control messages, state notifications '
        'and the work callback (the three callbacks take different locks); '
        'whether task state notifications of early-bound tasks are consistent '
        "with Backfilling's bookkeeping (observation, unarmed).")
    rep.assumptions = [
        'self.advance either hands all given tasks on or raises before any '
        'effect (DESIGN 2.8)',
        'reaching definitions are computed per local name on the CFG; a local '
        'list derives from self._pids if everything put into it does',
        'inner loops are explored with one iteration (k=1); boolean locals '
        'assigned only True/False are tracked exactly',
        'self._wait_pool and self._early are the only persistent pools of '
        'waiting tasks in the tmgr scheduler classes',
        'a local bound to a container attribute which only the start-up '
        'methods assign (self._pids, self._pilots) denotes that attribute; a '
        'method consisting of `return <expr>` is read as that expression; a '
        'test computed ahead into a local is read as the test if nothing it '
        'reads can change in between (else the analysis stops)',
        'a while loop that pops one element per iteration from a private '
        'copy, or walks an index from 0 to len(X) with exactly one increment '
        'per iteration, and `for i in range(len(X)): t = X[i]` are read as '
        '`for t in X`; any other while loop over tasks stops the analysis',
        'calls on self._log / self._prof / self._rep have no effect on the '
        'property',
        'a task occupies the cores of its pilot up to and including '
        'AGENT_EXECUTING (states.py); self._early is keyed by pilot uid, the '
        "'uid' entry of a pilot document and the 'pilot' entry of a task",
        'a local read from X[key] denotes that field of the X bound at the '
        'read; paths on which such a local is unbound (NameError) or None '
        'do not count',
    ]
    _setup(prog)

    def sites(prog, rep):
        n = r12_4(prog, rep)
        if n < 5:
            raise AnalysisError('R12.4: only %d hand-on sites to '
                                'TMGR_STAGING_INPUT_PENDING found (expected '
                                '>= 5)' % n)
    # a rule that does not know the shape of its anchors stops the analysis
    # (exit 2) unless another rule has a finding (main._try)
    for rule in (r12_1, r12_2, r12_3, sites, r12_5, r12_6, r12_7, r12_8,
                 r12_9, r12_10, r12_11, r12_12, r12_13, r12_14,
                 r12_15, r12_16, r12_17,
                 r12_18, r12_19):
        rep.attempt(rule, prog, rep)
    if tier == 'thorough':
        rep.rule('R12.4s', 'sweep of R12.4 over every class of the package that '
                 'hands on to TMGR_STAGING_INPUT_PENDING', minimum=0)
        anchors = {prog.cls(*x) for x in (BASE, RR, BF)}
        extra = [k for k in prog.all_classes() if k not in anchors]
        k = r12_4(prog, rep, rid='R12.4s', classes=extra)
        rep.stat('sweep_sites', k)
        rep.stat('sweep_classes', len(extra))


# ------------------------------------------------------------------------------
# self-test variants
#
_B = 'tmgr/scheduler/base.py'
_R = 'tmgr/scheduler/round_robin.py'
_F = 'tmgr/scheduler/backfilling.py'

# proposed fix (see /verif/proposed_fixes/F12.diff)
_ADV = ("                        self.advance(early_tasks, rps.TMGR_STAGING_INPUT_PENDING,\n"
        "                                     publish=True, push=True)\n")
FIX_F12 = (_B, _ADV + "\n            # let the scheduler know\n",
           _ADV + "\n"
           "                        # these tasks are on their way now: forget them, or\n"
           "                        # a pilot which gets removed and added again would\n"
           "                        # receive them a second time\n"
           "                        del self._early[pid]\n"
           "\n            # let the scheduler know\n")

_EARLY = ("                    pilot = self._pilots.get(pid, {}).get('pilot')\n"
          "                    if pilot:\n")

_START = ("                if  rps._pilot_state_value(state) < _BF_START_VAL:\n"
          "                    # not eligible, yet\n                    continue\n\n"
          "                if  rps._pilot_state_value(state) > _BF_STOP_VAL:\n"
          "                    # not ligible anymore")

MUTATIONS = [
    dict(name='R12.1 Backfilling draws candidates from all known pilots, no role test',
         rules=('R12.1',), edits=[
        (_F, "            for pid in self._pids:\n\n                info  = self._pilots[pid]['info']",
             "            for pid in self._pilots:\n\n                info  = self._pilots[pid]['info']"),
        (_F, "                if role != ADDED:\n                    continue\n\n", "")]),
    dict(name='R12.1 RoundRobin.add_pilots records the pids only when tasks wait',
         rules=('R12.1',), edits=[
        (_R, "            self._pids += pids\n\n            if self._wait_pool:\n",
             "            if self._wait_pool:\n                self._pids += pids\n")]),
    dict(name='R12.1 Backfilling.remove_pilots forgets to drop the pid',
         rules=('R12.1',), edits=[
        (_F, "                self._pids.remove(pid)\n                # FIXME: cancel tasks\n",
             "                # FIXME: cancel tasks\n")]),
    dict(name='R12.1 RoundRobin.update_pilots re-adds pilots it hears about',
         rules=('R12.1',), edits=[
        (_R, "        # FIXME: we don't react on pilot state changes right now\n        pass\n",
             "        # FIXME: we don't react on pilot state changes right now\n        self._pids += [pid for pid in pids if pid not in self._pids]\n")]),
    dict(name='R12.1 control_cb does not mark added pilots as ADDED',
         rules=('R12.1',), edits=[
        (_B, "                    self._pilots[pid]['role']  = ADDED\n", "")]),
    dict(name='R12.1 control_cb listens for a misspelled remove command',
         rules=('R12.1',), edits=[
        (_B, "        elif cmd == 'remove_pilots':\n", "        elif cmd == 'remove_pilot':\n")]),
    dict(name='R12.1 control_cb marks removed pilots after telling the scheduler',
         rules=('R12.1',), edits=[
        (_B, "                    self._pilots[pid]['role'] = REMOVED\n                    self._log.debug('removed pilot: %s', self._pilots[pid])\n\n            # let the scheduler know\n            self.remove_pilots(pids)\n",
             "                    self._log.debug('removed pilot: %s', self._pilots[pid])\n\n            # let the scheduler know\n            self.remove_pilots(pids)\n\n            for pid in pids:\n                self._pilots[pid]['role'] = REMOVED\n")]),
    dict(name='R12.2 work drops tasks without a pilot', rules=('R12.2',), edits=[
        (_B, "                else:\n                    to_schedule.append(task)\n", "")]),
    dict(name='R12.2 RoundRobin._work: unknown pilot falls through', rules=('R12.2',), edits=[
        (_R, "                        failed.append(task)\n                        continue\n",
             "                        failed.append(task)\n")],
         note='without the continue the next statement raises KeyError - still two outcomes on the modelled path'),
    dict(name='R12.2 RoundRobin._schedule_tasks: no return after parking the tasks',
         rules=('R12.2',), edits=[
        (_R, "                    self._wait_pool += tasks\n                    return\n",
             "                    self._wait_pool += tasks\n")]),
    dict(name='R12.2 Backfilling: success flag tested with the wrong polarity',
         rules=('R12.2',), edits=[
        (_F, "                if not success:\n", "                if success:\n")]),
    dict(name='R12.2 RoundRobin._work: unscheduled tasks dropped when no pilot is known',
         rules=('R12.2',), edits=[
        (_R, "        if unscheduled: self._schedule_tasks(unscheduled)",
             "        if unscheduled and self._pids: self._schedule_tasks(unscheduled)")]),
    dict(name='R12.2 RoundRobin._schedule_tasks: failed tasks not reported',
         rules=('R12.2',), edits=[
        (_R, "            self.advance(tasks_fail, rps.FAILED, publish=True, push=False)\n", "")]),
    dict(name='R12.3 RoundRobin.add_pilots does not empty the wait pool',
         rules=('R12.3',), edits=[
        (_R, "                self._wait_pool = list()\n", "")]),
    dict(name='R12.3 RoundRobin.add_pilots empties the pool after scheduling',
         rules=('R12.3',), edits=[
        (_R, "                self._wait_pool = list()\n                self._schedule_tasks(tasks)\n",
             "                self._schedule_tasks(tasks)\n                self._wait_pool = list()\n")],
         note='_schedule_tasks may park the tasks again; the late reset loses them'),
    dict(name='R12.3 Backfilling keeps scheduled tasks in the wait pool',
         rules=('R12.3',), edits=[
        (_F, "            self._wait_pool = unscheduled\n", "")]),
    dict(name='R12.4 work forwards early-bound tasks without _assign_pilot',
         rules=('R12.4',), edits=[
        (_B, "                        self._assign_pilot(task, pilot)\n                        self.advance(task, rps.TMGR_STAGING_INPUT_PENDING,",
             "                        self.advance(task, rps.TMGR_STAGING_INPUT_PENDING,")]),
    dict(name='R12.4 RoundRobin._work schedules without _assign_pilot',
         rules=('R12.4',), edits=[
        (_R, "                    self._assign_pilot(task, pilot)\n                    scheduled.append(task)\n",
             "                    scheduled.append(task)\n")]),
    dict(name='R12.4 control_cb assigns only early tasks without a pilot entry',
         rules=('R12.4',), edits=[
        (_B, "                        for task in early_tasks:\n                            self._assign_pilot(task, pilot)\n",
             "                        for task in early_tasks:\n                            if not task.get('pilot'):\n                                self._assign_pilot(task, pilot)\n")]),
    dict(name='R12.4 RoundRobin._schedule_tasks: task recorded as ok before it is assigned',
         rules=('R12.4',), edits=[
        (_R, "                    # we assign the task to the pilot.\n                    self._assign_pilot(task, pilot)\n\n                    tasks_ok.append(task)\n",
             "                    tasks_ok.append(task)\n\n                    # we assign the task to the pilot.\n                    self._assign_pilot(task, pilot)\n")],
         note='if _assign_pilot raises the task is in tasks_ok and in tasks_fail'),
    dict(name='R12.5 role test dropped', rules=('R12.5',), edits=[
        (_F, "                if role != ADDED:\n                    continue\n\n", "")]),
    dict(name='R12.5 role test inverted', rules=('R12.5',), edits=[
        (_F, "                if role != ADDED:\n", "                if role == ADDED:\n")]),
    dict(name='R12.5 start window excludes the start state itself', rules=('R12.5',), edits=[
        (_F, _START, _START.replace("< _BF_START_VAL", "<= _BF_START_VAL"))]),
    dict(name='R12.5 stop window admits nothing at the stop state', rules=('R12.5',), edits=[
        (_F, "                if  rps._pilot_state_value(state) > _BF_STOP_VAL:\n                    # not ligible anymore",
             "                if  rps._pilot_state_value(state) >= _BF_STOP_VAL:\n                    # not ligible anymore")]),
    dict(name='R12.5 stop window test dropped', rules=('R12.5',), edits=[
        (_F, "                if  rps._pilot_state_value(state) > _BF_STOP_VAL:\n                    # not ligible anymore\n                    continue\n\n", "")]),
    dict(name='R12.5 pilot exactly at its mark stays a candidate', rules=('R12.5',), edits=[
        (_F, "                if info['used'] >= info['hwm']:\n                    # pilot is full",
             "                if info['used'] > info['hwm']:\n                    # pilot is full")]),
    dict(name='R12.5 full pilot not removed from the candidates', rules=('R12.5',), edits=[
        (_F, "                        if info['used'] >= info['hwm']:\n                            pids.remove(pid)\n", "")]),
    dict(name='R12.6 debit ignores cores_per_rank', rules=('R12.6',), edits=[
        (_F, "                info['used'] -= task['description']['ranks'] \\\n                              * task['description']['cores_per_rank']\n",
             "                info['used'] -= task['description']['ranks']\n")]),
    dict(name='R12.6 done test dropped', rules=('R12.6',), edits=[
        (_F, "                if uid in info['done']:\n                    # we don't need further state udates\n                    self._log.debug('upd task %s in done', uid)\n                    continue\n\n", "")]),
    dict(name='R12.6 done list never filled', rules=('R12.6',), edits=[
        (_F, "                info['done'].append(uid)\n", "")]),
    dict(name='R12.7 index not wrapped', rules=('R12.7',), edits=[
        (_R, "                    if self._idx >= len(self._pids):\n                        self._idx = 0\n\n", "")]),
    dict(name='R12.7 wrap test off by one', rules=('R12.7',), edits=[
        (_R, "                    if self._idx >= len(self._pids):", "                    if self._idx > len(self._pids):")]),
    dict(name='R12.7 index never advanced', rules=('R12.7',), edits=[
        (_R, "                    self._idx += 1\n\n", "")]),
    dict(name='R12.7 index advanced twice per task', rules=('R12.7',), edits=[
        (_R, "                    tasks_ok.append(task)\n", "                    tasks_ok.append(task)\n                    self._idx += 1\n")]),
    dict(name='R12.8 work: early binding by membership in self._pilots (placeholder entries)',
         rules=('R12.8',), edits=[
        (_B, _EARLY, "                    if pid in self._pilots:\n                        pilot = self._pilots[pid]['pilot']\n")]),
    dict(name='R12.8 work: None test inverted', rules=('R12.8',), edits=[
        (_B, _EARLY, "                    pilot = self._pilots.get(pid, {}).get('pilot')\n                    if pilot is None:\n")]),
    dict(name='R12.8 work: tests the task\'s pilot id instead of the pilot object',
         rules=('R12.8',), edits=[
        (_B, _EARLY, "                    pilot = self._pilots.get(pid, {}).get('pilot')\n                    if pid:\n")]),
    dict(name='R12.8 work hands tasks of unknown pilots to the scheduler (RoundRobin._work branch becomes live)',
         rules=('R12.8',), edits=[
        (_B, "                        if pid not in self._early:\n                            self._early[pid] = list()\n                        self._early[pid].append(task)\n",
             "                        to_schedule.append(task)\n")]),
]

SILENT = [
    dict(name='work: pilot object tested against None', edits=[
        (_B, _EARLY, "                    pilot = self._pilots.get(pid, {}).get('pilot')\n                    if pilot is not None:\n")]),
    dict(name='work: early binding guarded by membership and role == ADDED', edits=[
        (_B, _EARLY, "                    if  pid in self._pilots \\\n                    and self._pilots[pid]['role'] == ADDED:\n                        pilot = self._pilots[pid]['pilot']\n")]),
    dict(name='work: entry fetched first, pilot object tested', edits=[
        (_B, _EARLY, "                    pilot = None\n                    if pid in self._pilots:\n                        pilot = self._pilots[pid]['pilot']\n                    if pilot:\n")]),
    dict(name='F12 repaired (del after the hand-on)', edits=[FIX_F12]),
    dict(name='F12 repaired by popping the entry at the source', edits=[
        (_B, "                    early_tasks = self._early.get(pid)\n",
             "                    early_tasks = self._early.pop(pid, None)\n")]),
    dict(name='RoundRobin.add_pilots uses extend', edits=[
        (_R, "            self._pids += pids\n", "            self._pids.extend(pids)\n")]),
    dict(name='Backfilling iterates copies of self._pids', edits=[
        (_F, "            for pid in self._pids:\n\n                info  = self._pilots[pid]['info']",
             "            for pid in list(self._pids):\n\n                info  = self._pilots[pid]['info']")]),
    dict(name='RoundRobin._work: if/else instead of early continue', edits=[
        (_R, "                        failed.append(task)\n                        continue\n\n                    pilot = self._pilots[pid]['pilot']\n\n                    self._assign_pilot(task, pilot)\n                    scheduled.append(task)\n",
             "                        failed.append(task)\n\n                    else:\n                        pilot = self._pilots[pid]['pilot']\n\n                        self._assign_pilot(task, pilot)\n                        scheduled.append(task)\n")]),
    dict(name='Backfilling: hwm filter as negated strict test', edits=[
        (_F, "                if info['used'] >= info['hwm']:\n                    # pilot is full",
             "                if not info['used'] < info['hwm']:\n                    # pilot is full")]),
    dict(name='Backfilling: inner assignment guard strict', edits=[
        (_F, "                    if info['used'] <= info['hwm']:\n", "                    if info['used'] < info['hwm']:\n")]),
    dict(name='Backfilling: role filter as positive nested test', edits=[
        (_F, "                if role != ADDED:\n                    continue\n\n                if  rps._pilot_state_value(state) < _BF_START_VAL:\n                    # not eligible, yet\n                    continue\n\n                if  rps._pilot_state_value(state) > _BF_STOP_VAL:\n                    # not ligible anymore\n                    continue\n\n                if info['used'] >= info['hwm']:\n                    # pilot is full\n                    continue\n\n                pids.append(pid)\n",
             "                if ADDED == role:\n                    value = rps._pilot_state_value(state)\n                    if  _BF_START_VAL <= value <= _BF_STOP_VAL \\\n                    and info['hwm'] > info['used']:\n                        pids.append(pid)\n")]),
    dict(name='Backfilling: credit factors swapped', edits=[
        (_F, "                cores   = task['description']['ranks'] \\\n                        * task['description']['cores_per_rank']\n",
             "                descr   = task['description']\n                cores   = descr['cores_per_rank'] * descr['ranks']\n")]),
    dict(name='Backfilling: for/else instead of the success flag', edits=[
        (_F, "                success = False\n", ""),
        (_F, "                        success = True\n", ""),
        (_F, "                if not success:\n                    # we did not find a useable pilot for this task -- keep it\n",
             "                else:\n                    # we did not find a useable pilot for this task -- keep it\n")]),
    dict(name='RoundRobin: index advanced after the assignment', edits=[
        (_R, "                    self._idx += 1\n\n", ""),
        (_R, "                    tasks_ok.append(task)\n", "                    tasks_ok.append(task)\n                    self._idx += 1\n")]),
    dict(name='RoundRobin: wrap by modulo at the use', edits=[
        (_R, "                    if self._idx >= len(self._pids):\n                        self._idx = 0\n\n", ""),
        (_R, "                    pid   = self._pids[self._idx]\n", "                    pid   = self._pids[self._idx % len(self._pids)]\n")]),
    dict(name='RoundRobin: wrap test with the length on the left', edits=[
        (_R, "                    if self._idx >= len(self._pids):", "                    if len(self._pids) <= self._idx:")]),
    dict(name='corpus r2: pools filled through setdefault(..).append', edits=[
        (_B, "                        if pid not in self._early:\n                            self._early[pid] = list()\n                        self._early[pid].append(task)\n",
             "                        self._early.setdefault(pid, list()).append(task)\n"),
        (_B, "            if pid not in self._tasks:\n                self._tasks[pid] = list()\n            self._tasks[pid].append(uid)\n",
             "            self._tasks.setdefault(pid, list()).append(uid)\n")]),
    dict(name='early pool entry rebuilt by concatenation', edits=[
        (_B, "                        if pid not in self._early:\n                            self._early[pid] = list()\n                        self._early[pid].append(task)\n",
             "                        self._early[pid] = self._early.get(pid, []) + [task]\n")]),
    dict(name='corpus r2: work() with inverted tests and early continues', edits=[
        (_B, "                if pid:\n                    # this task is bound already (it is early-bound), so we\n",
             "                if not pid:\n                    to_schedule.append(task)\n                    continue\n\n                if True:\n                    # this task is bound already (it is early-bound), so we\n"),
        (_B, "                else:\n                    to_schedule.append(task)\n", "")]),
]

# ------------------------------------------------------------------------------
# shapes of the two _schedule_tasks bodies (corpus refactoring r3 and kin):
# try/except/else, attributes cached in locals, while loops, modulo index,
# getter methods, logging noise - and the same mistakes made in those shapes
#
_R_GUARD = "            if not self._pids:\n\n                self._log.debug('no pilots')\n"
_R_LISTS = "            tasks_ok = list()\n            tasks_fail = list()\n"
_R_FOR   = "            for task in tasks:\n\n                try:\n"
_R_WRAP  = "                    if self._idx >= len(self._pids):\n                        self._idx = 0\n\n"
_R_LOOK  = "                    pid   = self._pids[self._idx]\n                    pilot = self._pilots[pid]['pilot']\n"
_R_INC   = "                    self._idx += 1\n\n"
_R_ASG   = "                    self._assign_pilot(task, pilot)\n\n                    tasks_ok.append(task)\n\n"
_R_EXC   = "                    tasks_fail.append(task)\n"
_R_ADV   = ("            self._log.debug('failed: %d, ok: %d', len(tasks_fail), len(tasks_ok))\n"
            "            self.advance(tasks_fail, rps.FAILED, publish=True, push=False)\n"
            "            self.advance(tasks_ok,   rps.TMGR_STAGING_INPUT_PENDING,\n")
_R_END   = "                         publish=True, push=True)\n\n\n# ------------------------------------------------------------------------------\n\n"
_R_UPD   = "        # FIXME: we don't react on pilot state changes right now\n        pass\n"
_R_METH  = "                         publish=True, push=True)\n\n\n    # --------------------------------------------------------------------------\n    #\n"
_R_TAIL  = "\n\n# ------------------------------------------------------------------------------\n\n"

_F_GUARD = "            # check if we have pilots to schedule over\n            if not self._pids:\n                return\n"
_F_FOR1  = "            for pid in self._pids:\n\n"
_F_READ  = ("                info  = self._pilots[pid]['info']\n"
            "                state = self._pilots[pid]['state']\n"
            "                role  = self._pilots[pid]['role']\n")
_F_FOR2  = "            for uid, task in self._wait_pool.items():\n"
_F_FOR3  = "                for pid in list(pids):\n\n"
_F_INFO  = "                    info = self._pilots[pid]['info']\n"
_F_PILOT = "                        pilot = self._pilots[pid]['pilot']\n"
_F_CALL  = "                        self._assign_pilot(task, pilot)\n"
_F_ROLE  = "                if role != ADDED:\n                    continue\n\n"
_F_FULL  = "                        if info['used'] >= info['hwm']:\n                            pids.remove(pid)\n"
_F_KEEP  = "                    self._log.debug(' =!= sch task  %s', uid)\n                    unscheduled[uid] = task\n                    continue\n"
_F_DEF   = "    def _schedule_tasks(self):\n"

_S_R3 = [
    (_R, _R_GUARD, "            rr_pids = self._pids\n            known   = self._pilots\n\n            if not rr_pids:\n\n                self._log.debug('no pilots')\n"),
    (_R, _R_LISTS, "            bound     = list()\n            not_bound = list()\n"),
    (_R, _R_WRAP, "                    if self._idx >= len(rr_pids):\n                        self._idx = 0\n\n"),
    (_R, _R_LOOK, "                    target = known[rr_pids[self._idx]]['pilot']\n"),
    (_R, _R_ASG, "                    self._assign_pilot(task, target)\n\n"),
    (_R, _R_EXC, "                    not_bound.append(task)\n\n                else:\n                    bound.append(task)\n"),
    (_R, _R_ADV, "            self._log.debug('failed: %d, ok: %d', len(not_bound), len(bound))\n"
                 "            self.advance(not_bound, rps.FAILED, publish=True, push=False)\n"
                 "            self.advance(bound,     rps.TMGR_STAGING_INPUT_PENDING,\n")]
_S_ELSE = [
    (_R, _R_ASG, "                    self._assign_pilot(task, pilot)\n\n"),
    (_R, _R_EXC, _R_EXC + "\n                else:\n                    tasks_ok.append(task)\n")]
_S_RPOP = [
    (_R, _R_FOR, "            todo = list(tasks)\n            while todo:\n\n                task = todo.pop(0)\n\n                try:\n")]
_S_RMODL = [
    (_R, _R_WRAP, ""),
    (_R, _R_LOOK, "                    idx   = self._idx % len(self._pids)\n                    pid   = self._pids[idx]\n                    pilot = self._pilots[pid]['pilot']\n"),
    (_R, _R_INC, "                    self._idx = idx + 1\n\n")]
_S_RGET = [
    (_R, _R_LOOK, "                    pid   = self._pids[self._idx]\n                    pilot = self._pilot_of(pid)\n"),
    (_R, _R_END, _R_METH + "    def _pilot_of(self, pid):\n        '''pilot object of a known pilot'''\n\n        return self._pilots[pid]['pilot']" + _R_TAIL)]
_S_FCACHE = [
    (_F, _F_GUARD, "            active = self._pids\n            known  = self._pilots\n\n            # check if we have pilots to schedule over\n            if not active:\n                return\n"),
    (_F, _F_FOR1, "            for pid in active:\n\n"),
    (_F, _F_READ, "                entry = known[pid]\n                info  = entry['info']\n                state = entry['state']\n                role  = entry['role']\n"),
    (_F, _F_INFO, "                    info = known[pid]['info']\n"),
    (_F, _F_PILOT, ""),
    (_F, _F_CALL, "                        self._assign_pilot(task, known[pid]['pilot'])\n")]
_S_FWHILE = [
    (_F, _F_FOR1, "            k = 0\n            while k < len(self._pids):\n\n                pid = self._pids[k]\n                k  += 1\n\n"),
    (_F, _F_FOR2, "            waiting = list(self._wait_pool.items())\n            while waiting:\n\n                uid, task = waiting.pop(0)\n"),
    (_F, _F_FOR3, "                cands = list(pids)\n                while cands:\n\n                    pid = cands.pop(0)\n\n")]
_S_FGET = [
    (_F, _F_READ, "                info  = self._entry(pid, 'info')\n                state = self._entry(pid, 'state')\n                role  = self._entry(pid, 'role')\n"),
    (_F, _F_INFO, "                    info = self._entry(pid, 'info')\n"),
    (_F, _F_PILOT, "                        pilot = self._entry(pid, 'pilot')\n"),
    (_F, _F_DEF, "    def _entry(self, pid, key):\n\n        return self._pilots[pid][key]\n\n\n    # --------------------------------------------------------------------------\n    #\n" + _F_DEF)]
_S_HOIST = [
    (_R, _R_FOR, "            n_pids = len(self._pids)\n" + _R_FOR),
    (_R, _R_WRAP, "                    if self._idx >= n_pids:\n                        self._idx = 0\n\n")]


def _swap(edits, old, new):
    """the variant with the edit of site `old` replaced"""
    assert any(o == old for _, o, _ in edits)
    return [(rel, o, new if o == old else n) for rel, o, n in edits]


SILENT += [
    dict(name='corpus r3: RoundRobin with cached attributes, folded lookup, try/else, renamed locals',
         edits=_S_R3),
    dict(name='RoundRobin: success bookkeeping in the else clause of the try', edits=_S_ELSE),
    dict(name='RoundRobin: self._pids / self._pilots cached by a tuple assignment', edits=[
        (_R, _R_GUARD, "            pids, pilots = self._pids, self._pilots\n\n            if not pids:\n\n                self._log.debug('no pilots')\n"),
        (_R, _R_WRAP, "                    if self._idx >= len(pids):\n                        self._idx = 0\n\n"),
        (_R, _R_LOOK, "                    pid   = pids[self._idx]\n                    pilot = pilots[pid]['pilot']\n")]),
    dict(name='RoundRobin: while loop popping from a copy of the batch', edits=_S_RPOP),
    dict(name='RoundRobin: index-driven while loop over the batch, try/else', edits=[
        (_R, _R_FOR, "            n = 0\n            while n < len(tasks):\n\n                task = tasks[n]\n                n   += 1\n\n                try:\n")] + _S_ELSE),
    dict(name='RoundRobin: for over range(len(tasks))', edits=[
        (_R, _R_FOR, "            for n in range(len(tasks)):\n\n                task = tasks[n]\n\n                try:\n")]),
    dict(name='RoundRobin: index wrapped by an in-place modulo before the use', edits=[
        (_R, _R_WRAP, "                    self._idx %= len(self._pids)\n\n")]),
    dict(name='RoundRobin: index taken modulo into a local, stored back incremented', edits=_S_RMODL),
    dict(name='RoundRobin: pilot object looked up through a getter method', edits=_S_RGET),
    dict(name='RoundRobin: next pid handed out by a helper method (wrap, use, advance)', edits=[
        (_R, _R_WRAP, ""),
        (_R, _R_INC, ""),
        (_R, _R_LOOK, "                    pid   = self._next_pid()\n                    pilot = self._pilots[pid]['pilot']\n"),
        (_R, _R_END, _R_METH + "    def _next_pid(self):\n\n        if self._idx >= len(self._pids):\n            self._idx = 0\n\n        pid = self._pids[self._idx]\n        self._idx += 1\n\n        return pid" + _R_TAIL)],
         note='decided on the normalised view (the engine inlines the new helper)'),
    dict(name='RoundRobin: length of self._pids hoisted next to the wrap test', edits=[
        (_R, _R_WRAP, "                    n_pids = len(self._pids)\n                    if self._idx >= n_pids:\n                        self._idx = 0\n\n")]),
    dict(name='RoundRobin: length of self._pids hoisted out of the task loop', edits=_S_HOIST,
         note='nothing called inside the loop stores through self._pids'),
    dict(name='RoundRobin: log / profile lines inside the wrap arm and between wrap and use', edits=[
        (_R, _R_WRAP, "                    if self._idx >= len(self._pids):\n                        self._log.debug('wrap around')\n                        self._idx = 0\n                        self._prof.prof('rr_wrap', uid=task['uid'])\n\n                    self._log.debug('slot %d of %d', self._idx, len(self._pids))\n\n")]),
    dict(name='RoundRobin.remove_pilots filters self._pids once per removed pid', edits=[
        (_R, "                self._pids.remove(pid)\n", "                self._pids = [p for p in self._pids if p != pid]\n")]),
    dict(name='RoundRobin.add_pilots extends the list through a local alias', edits=[
        (_R, "            self._pids += pids\n", "            known = self._pids\n            known += pids\n")]),
    dict(name='Backfilling: self._pids / self._pilots cached in locals, pilot lookup folded', edits=_S_FCACHE),
    dict(name='Backfilling: while loops instead of for (index over self._pids, pop from copies)', edits=_S_FWHILE),
    dict(name='Backfilling: pilot entry fields read through a getter method', edits=_S_FGET),
]

MUTATIONS += [
    dict(name='R12.7 r3 shape: index not wrapped', rules=('R12.7',), edits=_swap(_S_R3, _R_WRAP, "")),
    dict(name='R12.1 r3 shape: pilot drawn from the table of all known pilots', rules=('R12.1',),
         edits=_swap(_S_R3, _R_LOOK, "                    target = known[list(known)[self._idx]]['pilot']\n")),
    dict(name='R12.2 try/else shape: ok list appended after the try statement', rules=('R12.2',), edits=[
        (_R, _R_ASG, "                    self._assign_pilot(task, pilot)\n\n"),
        (_R, _R_EXC, _R_EXC + "\n                tasks_ok.append(task)\n")],
         note='a task whose assignment raised is reported FAILED and forwarded'),
    dict(name='R12.2 while/pop shape: failed tasks not reported', rules=('R12.2',),
         edits=_S_RPOP + [(_R, "            self.advance(tasks_fail, rps.FAILED, publish=True, push=False)\n", "")]),
    dict(name='R12.4 while/pop shape: task recorded as ok before it is assigned', rules=('R12.4',),
         edits=_S_RPOP + [(_R, "                    # we assign the task to the pilot.\n                    self._assign_pilot(task, pilot)\n\n                    tasks_ok.append(task)\n",
                           "                    tasks_ok.append(task)\n\n                    # we assign the task to the pilot.\n                    self._assign_pilot(task, pilot)\n")]),
    dict(name='R12.7 modulo-local shape: index not stored back', rules=('R12.7',), edits=_swap(_S_RMODL, _R_INC, "")),
    dict(name='R12.7 index reduced modulo the length only after the use', rules=('R12.7',), edits=[
        (_R, _R_WRAP, ""),
        (_R, _R_INC, "                    self._idx = (self._idx + 1) % len(self._pids)\n\n")],
         note='pilots removed between two batches: the first use of the next batch is out of range'),
    dict(name='R12.7 in-place modulo only after the use', rules=('R12.7',), edits=[
        (_R, _R_WRAP, ""),
        (_R, _R_INC, "                    self._idx += 1\n                    self._idx %= len(self._pids)\n\n")]),
    dict(name='R12.1 getter shape: pid drawn from the keys of all known pilots', rules=('R12.1',),
         edits=_swap(_S_RGET, _R_LOOK, "                    pid   = list(self._pilots)[self._idx]\n                    pilot = self._pilot_of(pid)\n")),
    dict(name='R12.5 getter shape: role test dropped', rules=('R12.5',), edits=_S_FGET + [(_F, _F_ROLE, "")]),
    dict(name='R12.1 cached shape: Backfilling loops over all known pilots, no role test', rules=('R12.1', 'R12.5'),
         edits=_swap(_S_FCACHE, _F_FOR1, "            for pid in known:\n\n") + [(_F, _F_ROLE, "")]),
    dict(name='R12.5 cached shape: full pilot not removed from the candidates', rules=('R12.5',),
         edits=_S_FCACHE + [(_F, _F_FULL, "")]),
    dict(name='R12.2 while shape: Backfilling breaks out instead of keeping the task', rules=('R12.2',),
         edits=_S_FWHILE + [(_F, _F_KEEP, "                    self._log.debug(' =!= sch task  %s', uid)\n                    break\n")]),
    dict(name='R12.5 while shape: full pilot not removed from the candidates', rules=('R12.5',),
         edits=_S_FWHILE + [(_F, _F_FULL, "")]),
    dict(name='R12.3 while shape: Backfilling keeps scheduled tasks in the wait pool', rules=('R12.3',),
         edits=_S_FWHILE + [(_F, "            self._wait_pool = unscheduled\n", "")]),
    dict(name='R12.1 RoundRobin.update_pilots re-adds pilots through an alias of self._pids', rules=('R12.1',), edits=[
        (_R, _R_UPD, "        known = self._pids\n        known += [pid for pid in pids if pid not in known]\n")]),
    dict(name='R12.1 RoundRobin.update_pilots appends to an alias of self._pids', rules=('R12.1',), edits=[
        (_R, _R_UPD, "        known = self._pids\n        for pid in pids:\n            if pid not in known:\n                known.append(pid)\n")]),
]


# ------------------------------------------------------------------------------
# R12.9: creation of pilot records (corpus d, e; refactoring r6)
#
_B_UPD = ("                if pid not in self._pilots:\n"
          "                    self._pilots[pid] = {'role'  : None,\n"
          "                                         'state' : None,\n"
          "                                         'pilot' : None,\n"
          "                                         'info'  : dict()  # scheduler private info\n"
          "                                         }\n")
_B_ADD = ("                    if pid in self._pilots:\n"
          "                        if self._pilots[pid]['role'] == ADDED:\n"
          "                            raise ValueError('pilot already added (%s)' % pid)\n"
          "                    else:\n"
          "                        self._pilots[pid] = {'role'  : None,\n"
          "                                             'state' : None,\n"
          "                                             'pilot' : None,\n"
          "                                             'info'  : dict()\n"
          "                                            }\n"
          "\n"
          "                    self._pilots[pid]['role']  = ADDED\n"
          "                    self._pilots[pid]['pilot'] = pilot\n")
_B_HELP = ("    # --------------------------------------------------------------------------\n"
           "    #\n"
           "    def _update_pilot_states(self, pilots):\n")
_B_REC = ("    # --------------------------------------------------------------------------\n"
          "    #\n"
          "    def _get_pilot_record(self, pid):\n\n"
          "        record = self._pilots.get(pid)\n"
          "        if record is None:\n"
          "            record = {'role'  : None,\n"
          "                      'state' : None,\n"
          "                      'pilot' : None,\n"
          "                      'info'  : dict()}\n"
          "            self._pilots[pid] = record\n\n"
          "        return record\n\n\n")
_B_R6ADD = ("                    record = self._get_pilot_record(pid)\n\n"
            "                    if record['role'] == ADDED:\n"
            "                        raise ValueError('pilot already added (%s)' % pid)\n\n")
_S_R6 = [
    (_B, _B_HELP, _B_REC + _B_HELP),
    (_B, _B_UPD, "                record = self._get_pilot_record(pid)\n"),
    (_B, "                current = self._pilots[pid]['state']\n", "                current = record['state']\n"),
    (_B, "                    self._pilots[pid]['state'] = target\n", "                    record['state'] = target\n"),
    (_B, _B_ADD, _B_R6ADD + "                    record['role']  = ADDED\n"
                            "                    record['pilot'] = pilot\n")]

SILENT += [
    dict(name='corpus r6: pilot records handed out by a get-or-create helper', edits=_S_R6),
    dict(name='control_cb: record created under `self._pilots.get(pid) is None`, early raise', edits=[
        (_B, _B_ADD, "                    known = self._pilots.get(pid)\n"
                     "                    if known is None:\n"
                     "                        known = dict(role=None, state=None, pilot=None, info=dict())\n"
                     "                        self._pilots[pid] = known\n"
                     "                    elif known['role'] == ADDED:\n"
                     "                        raise ValueError('pilot already added (%s)' % pid)\n\n"
                     "                    known['role']  = ADDED\n"
                     "                    known['pilot'] = pilot\n")]),
    dict(name='_update_pilot_states: record created by setdefault', edits=[
        (_B, _B_UPD, "                self._pilots.setdefault(pid, {'role': None, 'state': None,\n"
                     "                                              'pilot': None, 'info': dict()})\n")]),
    dict(name='_update_pilot_states: record looked up first, created if missing', edits=[
        (_B, _B_UPD, "                entry = self._pilots.get(pid)\n"
                     "                if not entry:\n"
                     "                    entry = {'role': None, 'state': None, 'pilot': None,\n"
                     "                             'info': dict()}\n"
                     "                    self._pilots[pid] = entry\n")]),
    dict(name='control_cb: unknown pilot gets its record with role and pilot already filled in', edits=[
        (_B, _B_ADD, "                    if pid not in self._pilots:\n"
                     "                        self._pilots[pid] = {'role'  : ADDED,\n"
                     "                                             'state' : None,\n"
                     "                                             'pilot' : pilot,\n"
                     "                                             'info'  : dict()}\n"
                     "                        continue\n\n"
                     "                    if self._pilots[pid]['role'] == ADDED:\n"
                     "                        raise ValueError('pilot already added (%s)' % pid)\n\n"
                     "                    self._pilots[pid]['role']  = ADDED\n"
                     "                    self._pilots[pid]['pilot'] = pilot\n")],
         note='the log line is skipped for new pilots: no effect on the property'),
]

MUTATIONS += [
    dict(name='R12.9 corpus e: add_pilots always rebuilds the record (state forgotten)', rules=('R12.9',), edits=[
        (_B, _B_ADD, "                    known = self._pilots.get(pid)\n"
                     "                    if known and known['role'] == ADDED:\n"
                     "                        raise ValueError('pilot already added (%s)' % pid)\n\n"
                     "                    self._pilots[pid] = {'role'  : ADDED,\n"
                     "                                         'state' : None,\n"
                     "                                         'pilot' : pilot,\n"
                     "                                         'info'  : dict()\n"
                     "                                        }\n")]),
    dict(name='R12.9 _update_pilot_states resets the record of every notified pilot', rules=('R12.9',), edits=[
        (_B, _B_UPD, _B_UPD.replace("                if pid not in self._pilots:\n", "                if True:\n"))],
         note='the sibling site: every state notification forgets role, pilot object and usage'),
    dict(name='R12.9 creation test with the wrong polarity', rules=('R12.9',), edits=[
        (_B, _B_UPD, _B_UPD.replace("if pid not in self._pilots:", "if pid in self._pilots:"))]),
    dict(name='R12.9 r6 shape: the helper re-creates the record whenever its role is not ADDED', rules=('R12.9',),
         edits=_swap(_S_R6, _B_HELP, _B_REC.replace("        if record is None:\n", "        if record is None or record['role'] != ADDED:\n") + _B_HELP)),
    dict(name='R12.1 r6 shape: role not stored for added pilots', rules=('R12.1',),
         edits=_swap(_S_R6, _B_ADD, _B_R6ADD + "                    record['pilot'] = pilot\n")),
]


# ------------------------------------------------------------------------------
# R12.10 / R12.11 / R12.12: small single-site changes (corpus g1, g5, g6) and
# behaviour-preserving rewrites of the sites those rules look at
#
_S = 'session.py'
_B_L2 = ("                for pilot in pilots:\n\n"
         "                    pid = pilot['uid']\n\n"
         "                    # if we have any early_bound tasks waiting for this pilots,\n"
         "                    # advance them now\n"
         "                    early_tasks = self._early.get(pid)\n"
         "                    if early_tasks:\n\n"
         "                        for task in early_tasks:\n"
         "                            self._assign_pilot(task, pilot)\n\n"
         "                        self.advance(early_tasks, rps.TMGR_STAGING_INPUT_PENDING,\n"
         "                                     publish=True, push=True)\n\n"
         "                        # these tasks are on their way now: forget them, or\n"
         "                        # a pilot which gets removed and added again would\n"
         "                        # receive them a second time\n"
         "                        del self._early[pid]\n")
_B_PARK = ("                        if pid not in self._early:\n"
           "                            self._early[pid] = list()\n"
           "                        self._early[pid].append(task)\n")
_F_EARLY = ("                if  rps._task_state_value(state) <= \\\n"
            "                    rps._task_state_value(rps.AGENT_EXECUTING):\n"
            "                    self._log.debug('upd task %s too early', uid)\n"
            "                    continue\n")
_F_REST = ("                if uid not in info['tasks']:\n"
           "                    # this contradicts the task's assignment\n"
           "                    self._log.debug('upd task  %s not in tasks', uid)\n"
           "                    self._log.error('bf: task %s on %s inconsistent', uid, pid)\n"
           "                    raise RuntimeError('inconsistent scheduler state')\n\n"
           "                # this task is now considered done\n"
           "                info['done'].append(uid)\n"
           "                info['used'] -= task['description']['ranks'] \\\n"
           "                              * task['description']['cores_per_rank']\n"
           "                reschedule = True\n"
           "                self._log.debug('upd task %s - schedule (used: %s)',\n"
           "                                uid, info['used'])\n\n"
           "                if info['used'] < 0:\n"
           "                    self._log.error('bf: pilot %s inconsistent', pid)\n"
           "                    raise RuntimeError('inconsistent scheduler state')\n")
_S_PSB = ("                session_sandbox     = self._get_session_sandbox(pilot)\n"
          "                pilot_sandbox       = ru.Url(session_sandbox)\n"
          "                pilot_sandbox.path += '/%s/' % pilot['uid']\n")
_S_SSB = ("                resource_sandbox      = self._get_resource_sandbox(pilot)\n"
          "                session_sandbox       = ru.Url(resource_sandbox)\n"
          "                session_sandbox.path += '/%s' % self.uid\n")


def _indent(text, n):
    return ''.join((' ' * n + l if l.strip() else l)
                   for l in text.splitlines(True))


MUTATIONS += [
    dict(name='R12.10 corpus g1: pid of the early-task loop is the stale pid of the loop before',
         rules=('R12.10',), edits=[
        (_B, "                    pid = pilot['uid']\n\n                    # if we have any early_bound", "                    # if we have any early_bound")]),
    dict(name='R12.10 uid of the pilot read only after the early tasks were looked up',
         rules=('R12.10',), edits=[
        (_B, "                    pid = pilot['uid']\n\n                    # if we have any early_bound tasks waiting for this pilots,\n                    # advance them now\n                    early_tasks = self._early.get(pid)\n",
             "                    # if we have any early_bound tasks waiting for this pilots,\n                    # advance them now\n                    early_tasks = self._early.get(pid)\n                    pid = pilot['uid']\n")],
         note='statement moved: the lookup uses the uid of the previous pilot, the removal that of the current one'),
    dict(name='R12.10 early-task loop uses its own variable, assigns the pilot of the loop before',
         rules=('R12.10',), edits=[
        (_B, "                for pilot in pilots:\n\n                    pid = pilot['uid']\n\n                    # if we have any early_bound",
             "                for p in pilots:\n\n                    pid = p['uid']\n\n                    # if we have any early_bound")]),
    dict(name='R12.10 the early entry removed is that of the last pilot of the command',
         rules=('R12.10',), edits=[
        (_B, "                        del self._early[pid]\n", "                        del self._early[last['uid']]\n"),
        (_B, "                for pilot in pilots:\n\n                    pid = pilot['uid']\n\n                    # if we have any early_bound",
             "                last = pilots[-1]\n                for pilot in pilots:\n\n                    pid = pilot['uid']\n\n                    # if we have any early_bound")]),
    dict(name='R12.10 work parks an early-bound task under its own uid', rules=('R12.10',), edits=[
        (_B, _B_PARK, _B_PARK.replace('[pid]', '[uid]').replace('if pid not', 'if uid not'))]),
    dict(name='R12.10 work looks the pilot of an early-bound task up by the task uid', rules=('R12.10',), edits=[
        (_B, _EARLY, _EARLY.replace('.get(pid, {})', '.get(uid, {})'))]),
    dict(name='R12.10 RoundRobin._work looks the pilot up by the task uid', rules=('R12.10',), edits=[
        (_R, "                    pilot = self._pilots[pid]['pilot']\n\n                    self._assign_pilot(task, pilot)\n                    scheduled.append(task)\n",
             "                    pilot = self._pilots[uid]['pilot']\n\n                    self._assign_pilot(task, pilot)\n                    scheduled.append(task)\n")]),
    dict(name='R12.11 corpus g5: cores released when the task starts to execute (<= -> <)',
         rules=('R12.11',), edits=[
        (_F, "                if  rps._task_state_value(state) <= \\\n", "                if  rps._task_state_value(state) < \\\n")]),
    dict(name='R12.11 release threshold one state early (<= AGENT_EXECUTING_PENDING)',
         rules=('R12.11',), edits=[
        (_F, "                    rps._task_state_value(rps.AGENT_EXECUTING):\n", "                    rps._task_state_value(rps.AGENT_EXECUTING_PENDING):\n")]),
    dict(name='R12.11 too-early test dropped', rules=('R12.11',), edits=[
        (_F, _F_EARLY + "\n", "")]),
    dict(name='R12.11 too-early test as positive guard with >=', rules=('R12.11',), edits=[
        (_F, _F_EARLY + "\n" + _F_REST,
             "                if  rps._task_state_value(state) >= \\\n"
             "                    rps._task_state_value(rps.AGENT_EXECUTING):\n\n" + _indent(_F_REST, 4))]),
    dict(name='R12.11 failed and canceled tasks never give their cores back', rules=('R12.11',), edits=[
        (_F, _F_EARLY, _F_EARLY + "\n                if state in [rps.FAILED, rps.CANCELED]:\n                    continue\n")]),
    dict(name='R12.12 corpus g6: pilot sandbox built on the cached session sandbox object',
         rules=('R12.12',), edits=[
        (_S, "                pilot_sandbox       = ru.Url(session_sandbox)\n", "                pilot_sandbox       = session_sandbox\n")]),
    dict(name='R12.12 session sandbox built on the cached resource sandbox object',
         rules=('R12.12',), edits=[
        (_S, "                session_sandbox       = ru.Url(resource_sandbox)\n", "                session_sandbox       = resource_sandbox\n")]),
    dict(name='R12.12 pilot sandbox path appended on the getter result itself',
         rules=('R12.12',), edits=[
        (_S, _S_PSB, "                pilot_sandbox       = self._get_session_sandbox(pilot)\n"
                     "                pilot_sandbox.path += '/%s/' % pilot['uid']\n")]),
]

SILENT += [
    dict(name='control_cb early loop: renamed locals', edits=[
        (_B, _B_L2, _B_L2.replace('for pilot in pilots', 'for added in pilots').replace("pid = pilot['uid']", "added_id = added['uid']")
                         .replace('(pid)', '(added_id)').replace('[pid]', '[added_id]').replace('(task, pilot)', '(task, added)')
                         .replace('early_tasks', 'waiting'))]),
    dict(name='control_cb early loop: uid read on the spot, no local', edits=[
        (_B, _B_L2, _B_L2.replace("                    pid = pilot['uid']\n\n", "")
                         .replace('(pid)', "(pilot['uid'])").replace('[pid]', "[pilot['uid']]"))]),
    dict(name='control_cb early loop: early continue, entry removed before the hand-on', edits=[
        (_B, _B_L2, "                for pilot in pilots:\n\n"
                    "                    pid = pilot['uid']\n\n"
                    "                    early_tasks = self._early.get(pid)\n"
                    "                    if not early_tasks:\n"
                    "                        continue\n\n"
                    "                    del self._early[pid]\n\n"
                    "                    for task in early_tasks:\n"
                    "                        self._assign_pilot(task, pilot)\n\n"
                    "                    self.advance(early_tasks, rps.TMGR_STAGING_INPUT_PENDING,\n"
                    "                                 publish=True, push=True)\n")]),
    dict(name='control_cb early loop: entry popped in the loop header', edits=[
        (_B, _B_L2, "                for pilot in pilots:\n\n"
                    "                    early_tasks = self._early.pop(pilot['uid'], None)\n"
                    "                    if early_tasks:\n\n"
                    "                        for task in early_tasks:\n"
                    "                            self._assign_pilot(task, pilot)\n\n"
                    "                        self.advance(early_tasks, rps.TMGR_STAGING_INPUT_PENDING,\n"
                    "                                     publish=True, push=True)\n")]),
    dict(name='control_cb early loop: body extracted into a helper method', edits=[
        (_B, _B_L2, "                for pilot in pilots:\n                    self._forward_early(pilot)\n"),
        (_B, "    # --------------------------------------------------------------------------\n    #\n    def _configure(self):\n        raise NotImplementedError",
             "    # --------------------------------------------------------------------------\n    #\n"
             "    def _forward_early(self, pilot):\n\n"
             "        pid = pilot['uid']\n"
             "        early_tasks = self._early.get(pid)\n"
             "        if early_tasks:\n\n"
             "            for task in early_tasks:\n"
             "                self._assign_pilot(task, pilot)\n\n"
             "            self.advance(early_tasks, rps.TMGR_STAGING_INPUT_PENDING,\n"
             "                         publish=True, push=True)\n"
             "            del self._early[pid]\n\n\n"
             "    # --------------------------------------------------------------------------\n    #\n    def _configure(self):\n        raise NotImplementedError")]),
    dict(name='work: early-bound task parked under task[\'pilot\'] read on the spot', edits=[
        (_B, _B_PARK, "                        self._early.setdefault(task['pilot'], list()).append(task)\n")]),
    dict(name='work: named pilot id held in a renamed local read by subscript after a membership test', edits=[
        (_B, "                pid = task.get('pilot')\n\n                if pid:\n", "                pid = task['pilot'] if 'pilot' in task else None\n\n                if pid:\n")],
         note='conditional expression: canonicalised to if/else, two definitions of pid'),
    dict(name='update_tasks: debit as positive nested guard', edits=[
        (_F, _F_EARLY + "\n" + _F_REST,
             "                if  rps._task_state_value(state) > \\\n"
             "                    rps._task_state_value(rps.AGENT_EXECUTING):\n\n" + _indent(_F_REST, 4))]),
    dict(name='update_tasks: state values hoisted into locals', edits=[
        (_F, _F_EARLY, "                value = rps._task_state_value(state)\n"
                       "                limit = rps._task_state_value(rps.AGENT_EXECUTING)\n"
                       "                if value <= limit:\n"
                       "                    self._log.debug('upd task %s too early', uid)\n"
                       "                    continue\n")]),
    dict(name='update_tasks: too-early test against the state after AGENT_EXECUTING, negated strict form', edits=[
        (_F, _F_EARLY, "                if not rps._task_state_value(state) >= \\\n"
                       "                       rps._task_state_value(rps.AGENT_STAGING_OUTPUT_PENDING):\n"
                       "                    self._log.debug('upd task %s too early', uid)\n"
                       "                    continue\n")],
         note='same set of states over the state table'),
    dict(name='update_tasks: threshold as module constant, state table subscripted', edits=[
        (_F, "_BF_STOP_VAL  = rps._pilot_state_value(_BF_STOP)\n",
             "_BF_STOP_VAL  = rps._pilot_state_value(_BF_STOP)\n_BF_BUSY_VAL  = rps._task_state_values[rps.AGENT_EXECUTING]\n"),
        (_F, _F_EARLY, "                if  rps._task_state_values[task['state']] <= _BF_BUSY_VAL:\n"
                       "                    self._log.debug('upd task %s too early', uid)\n"
                       "                    continue\n")]),
    dict(name='update_tasks: too-early test in a helper method', edits=[
        (_F, _F_EARLY, "                if self._still_busy(state):\n"
                       "                    self._log.debug('upd task %s too early', uid)\n"
                       "                    continue\n"),
        (_F, "    # --------------------------------------------------------------------------\n    #\n    def update_tasks(self, tasks):\n",
             "    # --------------------------------------------------------------------------\n    #\n"
             "    def _still_busy(self, state):\n\n"
             "        return rps._task_state_value(state) <= \\\n"
             "               rps._task_state_value(rps.AGENT_EXECUTING)\n\n\n"
             "    # --------------------------------------------------------------------------\n    #\n    def update_tasks(self, tasks):\n")]),
    dict(name='_get_pilot_sandbox: getter result copied without a local', edits=[
        (_S, _S_PSB, "                pilot_sandbox       = ru.Url(self._get_session_sandbox(pilot))\n"
                     "                pilot_sandbox.path += '/%s/' % pilot['uid']\n")]),
    dict(name='_get_pilot_sandbox: deep copy, renamed locals, path re-assigned', edits=[
        (_S, _S_PSB, "                base      = self._get_session_sandbox(pilot)\n"
                     "                pilot_sandbox = copy.deepcopy(base)\n"
                     "                pilot_sandbox.path = pilot_sandbox.path + '/%s/' % pid\n")]),
    dict(name='_get_pilot_sandbox: local re-bound to its copy before the change', edits=[
        (_S, _S_PSB, "                pilot_sandbox       = self._get_session_sandbox(pilot)\n"
                     "                pilot_sandbox       = ru.Url(pilot_sandbox)\n"
                     "                pilot_sandbox.path += '/%s/' % pilot['uid']\n")]),
    dict(name='_get_session_sandbox: getter result copied without a local', edits=[
        (_S, _S_SSB, "                session_sandbox       = ru.Url(self._get_resource_sandbox(pilot))\n"
                     "                session_sandbox.path += '/%s' % self.uid\n")]),
]

_B_TAB = ("                    if early_tasks:\n\n"
          "                        for task in early_tasks:\n"
          "                            self._assign_pilot(task, pilot)\n")
SILENT += [
    dict(name='control_cb early loop: pilot object taken from the table by the same pid, under role == ADDED', edits=[
        (_B, _B_TAB, "                    if early_tasks and self._pilots[pid]['role'] == ADDED:\n\n"
                     "                        for task in early_tasks:\n"
                     "                            self._assign_pilot(task, self._pilots[pid]['pilot'])\n")],
         note='the first loop stored role ADDED and the pilot object under self._pilots[pid] for every pilot of the command'),
]
MUTATIONS += [
    dict(name='R12.10 early tasks handed to the table entry of the first pilot of the command', rules=('R12.10',), edits=[
        (_B, _B_TAB, "                    if early_tasks and self._pilots[pid]['role'] == ADDED:\n\n"
                     "                        first = pilots[0]\n"
                     "                        fid = first['uid']\n"
                     "                        for task in early_tasks:\n"
                     "                            self._assign_pilot(task, self._pilots[fid]['pilot'])\n")]),
]

SILENT += [
    dict(name='update_tasks: debit under a disjunction (final state or beyond AGENT_EXECUTING)', edits=[
        (_F, _F_EARLY, "                if not (state in rps.FINAL or rps._task_state_value(state) >\n"
                       "                        rps._task_state_value(rps.AGENT_EXECUTING)):\n"
                       "                    self._log.debug('upd task %s too early', uid)\n"
                       "                    continue\n")],
         note='finals lie beyond AGENT_EXECUTING: the same set of states'),
]
MUTATIONS += [
    dict(name='R12.11 disjunction admits the executing state itself', rules=('R12.11',), edits=[
        (_F, _F_EARLY, "                if not (state == rps.AGENT_EXECUTING or rps._task_state_value(state) >\n"
                       "                        rps._task_state_value(rps.AGENT_EXECUTING)):\n"
                       "                    self._log.debug('upd task %s too early', uid)\n"
                       "                    continue\n")]),
]


# ------------------------------------------------------------------------------
# round 5 (corpus h2 .. h5, r10): R12.13 pilot document of every added pilot,
# R12.14 index into self._pids only when THAT list is non-empty, R12.5 fresh
# usage figure in the removal test, R12.15 command constants and argument keys
# agree between TaskManager and control_cb
#
_T = 'task_manager.py'
_B_NEW = ("                        self._pilots[pid] = {'role'  : None,\n"
          "                                             'state' : None,\n"
          "                                             'pilot' : None,\n"
          "                                             'info'  : dict()\n"
          "                                            }\n")
_B_DOC = "                    self._pilots[pid]['pilot'] = pilot\n"
_B_ROLE = "                    self._pilots[pid]['role']  = ADDED\n"
_F_INFO = "                    info = self._pilots[pid]['info']\n\n"
_F_T1 = "                    if info['used'] <= info['hwm']:\n"
_F_T2 = "                        if info['used'] >= info['hwm']:\n"
_F_CR = "                        info['used']   += cores\n"
_F_UPD = ("    # --------------------------------------------------------------------------\n"
          "    #\n    def update_pilots(self, pids):\n")
_F_WIN = ("    # --------------------------------------------------------------------------\n"
          "    #\n    @staticmethod\n    def _in_window(state):\n"
          "        '''state within the backfilling window'''\n\n"
          "        return _BF_START_VAL <= rps._pilot_state_value(state) <= _BF_STOP_VAL\n\n\n")
_F_FILTER = ("                if role != ADDED:\n                    continue\n\n"
             + _START + "\n                    continue\n\n"
             "                if info['used'] >= info['hwm']:\n"
             "                    # pilot is full\n                    continue\n\n"
             "                pids.append(pid)\n")
_T_REM = "        self.publish(rpc.CONTROL_PUBSUB, {'cmd' : 'remove_pilots',\n"
_T_ADD = "        self.publish(rpc.CONTROL_PUBSUB, {'cmd' : 'add_pilots',\n"
_B_FILTER = "        if cmd not in ['add_pilots', 'remove_pilots', 'cancel_tasks']:\n"

MUTATIONS += [
    dict(name='corpus h2: pilot document only in the literal of a new record', rules=('R12.13',), edits=[
        (_B, _B_NEW, _B_NEW.replace("'pilot' : None", "'pilot' : pilot")),
        (_B, _B_DOC, "")]),
    dict(name='R12.13 pilot document stored in the branch that creates the record only', rules=('R12.13',), edits=[
        (_B, _B_DOC, ""),
        (_B, _B_NEW, _B_NEW + "                        self._pilots[pid]['pilot'] = pilot\n")]),
    dict(name='R12.13 pilot document never stored', rules=('R12.13',), edits=[
        (_B, _B_DOC, "")]),
    dict(name='R12.13 pilot document stored for known pilots only', rules=('R12.13',), edits=[
        (_B, _B_DOC, ""),
        (_B, "                        if self._pilots[pid]['role'] == ADDED:\n"
             "                            raise ValueError('pilot already added (%s)' % pid)\n",
             "                        if self._pilots[pid]['role'] == ADDED:\n"
             "                            raise ValueError('pilot already added (%s)' % pid)\n"
             "                        self._pilots[pid]['pilot'] = pilot\n")]),
    dict(name='corpus h3: RoundRobin tests self._pilots for emptiness', rules=('R12.14',), edits=[
        (_R, _R_GUARD, _R_GUARD.replace("self._pids", "self._pilots"))]),
    dict(name='R12.14 RoundRobin: length of the table of all known pilots tested', rules=('R12.14',), edits=[
        (_R, _R_GUARD, _R_GUARD.replace("not self._pids", "len(self._pilots) == 0"))]),
    dict(name='R12.14 RoundRobin: tasks wait only if others wait already', rules=('R12.14',), edits=[
        (_R, _R_GUARD, _R_GUARD.replace("not self._pids", "not self._pids and self._wait_pool"))]),
    dict(name='R12.14 RoundRobin: emptiness test off by one (len > 1 needed to schedule)', rules=('R12.14',), edits=[
        (_R, _R_GUARD, _R_GUARD.replace("not self._pids", "len(self._pids) < 0"))]),
    dict(name='corpus h4: usage cached before the credit, reused for the full test', rules=('R12.5',), edits=[
        (_F, _F_INFO, _F_INFO[:-1] + "                    used = info['used']\n\n"),
        (_F, _F_T1, "                    if used <= info['hwm']:\n"),
        (_F, _F_T2, "                        if used >= info['hwm']:\n")]),
    dict(name='R12.5 usage read through the table before the credit, reused for the full test', rules=('R12.5',), edits=[
        (_F, _F_CR, "                        before = self._pilots[pid]['info']['used']\n" + _F_CR),
        (_F, _F_T2, "                        if before >= info['hwm']:\n")]),
    dict(name='R12.5 full flag computed before the credit, tested after it', rules=('R12.5',), edits=[
        (_F, _F_CR, "                        full = info['used'] >= info['hwm']\n" + _F_CR),
        (_F, _F_T2, "                        if full:\n")]),
    dict(name='corpus h5: TaskManager.remove_pilots misspells the command', rules=('R12.15',), edits=[
        (_T, _T_REM, _T_REM.replace("'remove_pilots'", "'remove_pilot'"))]),
    dict(name='R12.15 TaskManager.add_pilots misspells the command', rules=('R12.15',), edits=[
        (_T, _T_ADD, _T_ADD.replace("'add_pilots'", "'add_pilot'"))]),
    dict(name='R12.15 control_cb: command filter misspells remove_pilots', rules=('R12.15',), edits=[
        (_B, _B_FILTER, _B_FILTER.replace("'remove_pilots'", "'remove_pilot'"))]),
    dict(name='R12.15 control_cb: branch test in upper case', rules=('R12.15',), edits=[
        (_B, "        elif cmd == 'remove_pilots':\n", "        elif cmd == 'REMOVE_PILOTS':\n")]),
    dict(name='R12.15 TaskManager.remove_pilots sends the ids under another key', rules=('R12.15',), edits=[
        (_T, "                                          'arg' : {'pids'  : pilot_ids,\n",
             "                                          'arg' : {'pilots': pilot_ids,\n")]),
]

SILENT += [
    dict(name='control_cb: pilot document stored on both branches, no common store', edits=[
        (_B, _B_DOC, ""),
        (_B, "                        if self._pilots[pid]['role'] == ADDED:\n"
             "                            raise ValueError('pilot already added (%s)' % pid)\n",
             "                        if self._pilots[pid]['role'] == ADDED:\n"
             "                            raise ValueError('pilot already added (%s)' % pid)\n"
             "                        self._pilots[pid]['pilot'] = pilot\n"),
        (_B, _B_NEW, _B_NEW.replace("'pilot' : None", "'pilot' : pilot"))]),
    dict(name='control_cb: record held in a local, document stored before the role', edits=[
        (_B, _B_ROLE + _B_DOC,
             "                    known = self._pilots[pid]\n"
             "                    known['pilot'] = pilot\n"
             "                    known['role']  = ADDED\n")]),
    dict(name='control_cb: document copied into a renamed local first', edits=[
        (_B, _B_DOC, "                    doc = pilot\n"
                     "                    self._pilots[doc['uid']]['pilot'] = doc\n")]),
    dict(name='control_cb: new record built with the document, known record completed in an else-less guard', edits=[
        (_B, _B_NEW, _B_NEW.replace("'pilot' : None", "'pilot' : pilot")),
        (_B, _B_DOC, "                    if self._pilots[pid]['pilot'] is None:\n"
                     "                        self._pilots[pid]['pilot'] = pilot\n"
                     "                    else:\n"
                     "                        self._pilots[pid]['pilot'] = pilot\n")]),
    dict(name='RoundRobin: emptiness of self._pids tested by its length', edits=[
        (_R, _R_GUARD, _R_GUARD.replace("not self._pids", "len(self._pids) == 0"))]),
    dict(name='RoundRobin: number of pids in a local, tested < 1', edits=[
        (_R, _R_GUARD, "            n_pids = len(self._pids)\n" + _R_GUARD.replace("not self._pids", "n_pids < 1"))]),
    dict(name='RoundRobin: emptiness computed ahead into a flag', edits=[
        (_R, _R_GUARD, "            no_pilots = not self._pids\n" + _R_GUARD.replace("not self._pids", "no_pilots"))]),
    dict(name='RoundRobin: emptiness test through bool() and a local alias', edits=[
        (_R, _R_GUARD, "            added = self._pids\n" + _R_GUARD.replace("not self._pids", "not bool(added)"))]),
    dict(name='RoundRobin: emptiness test compares with the empty list', edits=[
        (_R, _R_GUARD, _R_GUARD.replace("not self._pids", "self._pids == []"))]),
    dict(name='Backfilling: usage cached for the first test only, full test reads the record', edits=[
        (_F, _F_INFO, _F_INFO[:-1] + "                    used = info['used']\n\n"),
        (_F, _F_T1, "                    if used <= info['hwm']:\n")]),
    dict(name='Backfilling: usage re-read into a local after the credit', edits=[
        (_F, _F_T2, "                        used = info['used']\n"
                    "                        if used >= info['hwm']:\n")]),
    dict(name='Backfilling: usage cached before the credit, local re-bound after it', edits=[
        (_F, _F_INFO, _F_INFO[:-1] + "                    used = info['used']\n\n"),
        (_F, _F_T1, "                    if used <= info['hwm']:\n"),
        (_F, _F_T2, "                        used = info['used']\n"
                    "                        if used >= info['hwm']:\n")]),
    dict(name='Backfilling: high-water mark cached in a local for both tests', edits=[
        (_F, _F_INFO, _F_INFO[:-1] + "                    hwm  = info['hwm']\n\n"),
        (_F, _F_T1, "                    if info['used'] <= hwm:\n"),
        (_F, _F_T2, "                        if info['used'] >= hwm:\n")]),
    dict(name='corpus r10 (part): eligibility window in a static predicate, one positive filter', edits=[
        (_F, _F_UPD, _F_WIN + _F_UPD),
        (_F, _F_FILTER, "                if  role == ADDED and self._in_window(state) and \\\n"
                        "                    info['used'] < info['hwm']:\n"
                        "                    pids.append(pid)\n")]),
    dict(name='corpus r10 (part): window predicate in guard-clause form, flag replaced by for/else', edits=[
        (_F, _F_UPD, _F_WIN + _F_UPD),
        (_F, _START + "\n                    continue\n\n",
             "                if not self._in_window(state):\n                    continue\n\n"),
        (_F, "                success = False\n", ""),
        (_F, "                        success = True\n", ""),
        (_F, "                if not success:\n", "                else:\n")]),
    dict(name='TaskManager.remove_pilots: message built in a local first', edits=[
        (_T, _T_REM + "                                          'arg' : {'pids'  : pilot_ids,\n"
                      "                                                   'tmgr'  : self.uid}})\n",
             "        msg = {'cmd' : 'remove_pilots',\n"
             "               'arg' : {'tmgr'  : self.uid,\n"
             "                        'pids'  : pilot_ids}}\n"
             "        self.publish(rpc.CONTROL_PUBSUB, msg)\n")]),
    dict(name='control_cb: command filter as a tuple, branch tests as separate ifs', edits=[
        (_B, _B_FILTER, "        if cmd not in ('cancel_tasks', 'remove_pilots', 'add_pilots'):\n"),
        (_B, "        elif cmd == 'remove_pilots':\n", "        if cmd == 'remove_pilots':\n")]),
    dict(name='control_cb: commands as module constants', edits=[
        (_B, _B_FILTER, "        if cmd not in [_CMD_ADD, _CMD_REMOVE, 'cancel_tasks']:\n"),
        (_B, "        if cmd == 'add_pilots':\n", "        if cmd == _CMD_ADD:\n"),
        (_B, "        elif cmd == 'remove_pilots':\n", "        elif cmd == _CMD_REMOVE:\n"),
        (_B, "ADDED   = 'added'\n", "ADDED   = 'added'\n_CMD_ADD = 'add_pilots'\n_CMD_REMOVE = 'remove_pilots'\n")]),
]


# ------------------------------------------------------------------------------
# round 6: R12.7 (wrap test against another container), R12.16, R12.17, R12.18
#
_R_WRAP = "                    if self._idx >= len(self._pids):\n"
_F_SET  = "                reschedule = True\n"
_T_CHK  = ("                if pid not in self._pilots:\n"
           "                    raise ValueError('pilot %s not removed' % pid)\n"
           "                del self._pilots[pid]\n")
_T_PUB  = ("                                          'arg' : {'pids'  : pilot_ids,\n")
_T_STORE = ("                self._pilots[pid] = pilot\n"
            "                pilot_docs.append(pilot_dict)\n")
_S_PID  = ("        pid = pilot['uid']\n"
           "        with self._cache_lock:\n\n"
           "            if pid not in self._cache['pilot_sandbox']:\n")
_S_FILL = ("                self._cache['pilot_sandbox'][pid] = pilot_sandbox\n\n"
           "            return self._cache['pilot_sandbox'][pid]\n")
_S_PATH = "                pilot_sandbox.path += '/%s/' % pilot['uid']\n"

MUTATIONS += [
    dict(name='corpus i2: round-robin index wrapped against len(self._pilots)', rules=('R12.7',), edits=[
        (_R, _R_WRAP, "                    if self._idx >= len(self._pilots):\n")]),
    dict(name='R12.7 wrap bound len(self._pilots) hoisted into a local, operands swapped', rules=('R12.7',), edits=[
        (_R, _R_WRAP, "                    known = len(self._pilots)\n"
                      "                    if known <= self._idx:\n")]),
    dict(name='corpus i5: reschedule flag overwritten by the room test of the last task', rules=('R12.16',), edits=[
        (_F, _F_SET, "                reschedule = info['used'] < info['hwm']\n")]),
    dict(name='R12.16 reschedule flag set / cleared by an if-else per task', rules=('R12.16',), edits=[
        (_F, _F_SET, "                if info['used'] < info['hwm']:\n"
                     "                    reschedule = True\n"
                     "                else:\n"
                     "                    reschedule = False\n")]),
    dict(name='R12.16 debit no longer sets the reschedule flag', rules=('R12.16',), edits=[
        (_F, _F_SET, "")]),
    dict(name='R12.16 update_pilots: flag overwritten per pilot, no break', rules=('R12.16',), edits=[
        (_F, "                action = True\n                break\n",
             "                action = True\n"),
        (_F, "                  # self._log.debug('early')\n                    # not eligible, yet\n                    continue\n",
             "                    action = False\n                    continue\n")],
         note='the window test of the last pilot of the bulk decides alone'),
    dict(name='corpus i6: remove_pilots skips unknown pilots locally, publishes the unfiltered list', rules=('R12.17',), edits=[
        (_T, "                    raise ValueError('pilot %s not removed' % pid)\n",
             "                    self._log.warn('pilot %s not known - ignored', pid)\n"
             "                    continue\n")]),
    dict(name='R12.17 remove_pilots deletes only known pilots (positive guard), publishes all', rules=('R12.17',), edits=[
        (_T, _T_CHK, "                if pid in self._pilots:\n"
                     "                    del self._pilots[pid]\n")]),
    dict(name='R12.17 add_pilots skips a known pilot locally but publishes its document', rules=('R12.17',), edits=[
        (_T, "                    raise ValueError('pilot %s already added' % pid)\n" + _T_STORE,
             "                    self._log.warn('pilot %s already added', pid)\n"
             "                else:\n"
             "                    self._pilots[pid] = pilot\n"
             "                pilot_docs.append(pilot_dict)\n")]),
    dict(name='corpus i4: pilot sandbox cached by resource', rules=('R12.18',), edits=[
        (_S, _S_PID, _S_PID.replace("pid = pilot['uid']", "resource = pilot['description'].get('resource')")
                           .replace("if pid not", "if resource not")),
        (_S, _S_FILL, _S_FILL.replace("[pid]", "[resource]"))]),
    dict(name='R12.18 pilot sandbox cached under (resource, schema), uid read into a local first', rules=('R12.18',), edits=[
        (_S, _S_PID, _S_PID.replace("pid = pilot['uid']",
                                    "uid = pilot['uid']\n"
                                    "        pid = (pilot['description'].get('resource'),\n"
                                    "               pilot['description'].get('access_schema'))")),
        (_S, _S_PATH, "                pilot_sandbox.path += '/%s/' % uid\n")]),
]

SILENT += [
    dict(name='RoundRobin: wrap bound hoisted into a local', edits=[
        (_R, _R_WRAP, "                    n_pids = len(self._pids)\n"
                      "                    if self._idx >= n_pids:\n")]),
    dict(name='Backfilling.update_tasks: reschedule flag or-ed with the room test', edits=[
        (_F, _F_SET, "                reschedule = reschedule or info['used'] < info['hwm']\n")]),
    dict(name='Backfilling.update_tasks: reschedule flag set under `if not reschedule`', edits=[
        (_F, _F_SET, "                if not reschedule:\n"
                     "                    reschedule = True\n")]),
    dict(name='Backfilling.update_tasks: flag set before the debit, |= True', edits=[
        (_F, _F_SET, ""),
        (_F, "                info['done'].append(uid)\n",
             "                reschedule |= True\n                info['done'].append(uid)\n")]),
    dict(name='Backfilling.update_tasks: no flag, reschedule after every bulk', edits=[
        (_F, "        reschedule = False\n", ""),
        (_F, _F_SET, ""),
        (_F, "        if reschedule:\n            self._log.debug('upd tasks -> schedule')\n            self._schedule_tasks()\n",
             "        self._log.debug('upd tasks -> schedule')\n        self._schedule_tasks()\n")]),
    dict(name='Backfilling.update_tasks: flag tested in guard-clause form', edits=[
        (_F, "        if reschedule:\n            self._log.debug('upd tasks -> schedule')\n            self._schedule_tasks()\n",
             "        if not reschedule:\n            return\n\n        self._log.debug('upd tasks -> schedule')\n        self._schedule_tasks()\n")]),
    dict(name='TaskManager.remove_pilots: removed ids collected and published', edits=[
        (_T, _T_CHK, _T_CHK + "                removed.append(pid)\n"),
        (_T, "            # sanity check, and keep pilots around for inspection\n            for pid in pilot_ids:\n",
             "            removed = list()\n            for pid in pilot_ids:\n"),
        (_T, _T_PUB, _T_PUB.replace("pilot_ids", "removed"))]),
    dict(name='TaskManager.remove_pilots: tolerant, but publishes only what it removed', edits=[
        (_T, _T_CHK, "                if pid not in self._pilots:\n"
                     "                    self._log.warn('pilot %s not known - ignored', pid)\n"
                     "                    continue\n"
                     "                del self._pilots[pid]\n"
                     "                removed.append(pid)\n"),
        (_T, "            # sanity check, and keep pilots around for inspection\n            for pid in pilot_ids:\n",
             "            removed = list()\n            for pid in pilot_ids:\n"),
        (_T, _T_PUB, _T_PUB.replace("pilot_ids", "removed"))]),
    dict(name='TaskManager.remove_pilots: guard in positive form, pop instead of del', edits=[
        (_T, _T_CHK, "                if pid in self._pilots:\n"
                     "                    self._pilots.pop(pid)\n"
                     "                else:\n"
                     "                    raise ValueError('pilot %s not removed' % pid)\n")]),
    dict(name='TaskManager.remove_pilots: loop variable renamed, list copied for the walk', edits=[
        (_T, "            for pid in pilot_ids:\n" + _T_CHK,
             "            for uid in list(pilot_ids):\n" + _T_CHK.replace("pid", "uid"))]),
    dict(name='TaskManager.add_pilots: append before the store', edits=[
        (_T, _T_STORE, "                pilot_docs.append(pilot_dict)\n"
                       "                self._pilots[pid] = pilot\n")]),
    dict(name='Session._get_pilot_sandbox: key inline, uid in a local for the path', edits=[
        (_S, _S_PID, _S_PID.replace("pid = pilot['uid']", "uid = pilot['uid']").replace("if pid not", "if pilot['uid'] not")),
        (_S, _S_PATH, "                pilot_sandbox.path += '/%s/' % uid\n"),
        (_S, _S_FILL, _S_FILL.replace("[pid]", "[uid]"))]),
    dict(name='Session._get_pilot_sandbox: cache section in a local, key (resource, uid)', edits=[
        (_S, _S_PID, _S_PID.replace("pid = pilot['uid']", "pid = (pilot['description'].get('resource'), pilot['uid'])")
                           .replace("self._cache['pilot_sandbox']:", "self._cache['pilot_sandbox']:\n                cache = self._cache['pilot_sandbox']")),
        (_S, _S_FILL, _S_FILL.replace("                self._cache['pilot_sandbox'][pid] =", "                cache[pid] ="))]),
    dict(name='Session._get_pilot_sandbox: path built by format, setdefault fill', edits=[
        (_S, _S_PATH, "                pilot_sandbox.path = '%s/%s/' % (pilot_sandbox.path, pid)\n"),
        (_S, "                self._cache['pilot_sandbox'][pid] = pilot_sandbox\n",
             "                self._cache['pilot_sandbox'].setdefault(pid, pilot_sandbox)\n")]),
]

# round 8 (k1): who may store a pilot object in a record (R12.19)
_PH = ("                if pid not in self._pilots:\n"
       "                    self._pilots[pid] = {'role'  : None,\n"
       "                                         'state' : None,\n"
       "                                         'pilot' : None,\n"
       "                                         'info'  : dict()  # scheduler private info\n")
_ST = "                    self._pilots[pid]['state'] = target\n"

MUTATIONS += [
    dict(name='R12.19 placeholder of _update_pilot_states keeps the pilot document', rules=('R12.19',), edits=[
        (_B, _PH, _PH.replace("'pilot' : None", "'pilot' : pilot"))]),
    dict(name='R12.19 _update_pilot_states refreshes the pilot document with the state', rules=('R12.19',), edits=[
        (_B, _ST, _ST + "                    self._pilots[pid]['pilot'] = pilot\n")]),
    dict(name='R12.19 placeholder built in a local with a copy of the document', rules=('R12.19',), edits=[
        (_B, _PH, "                if pid not in self._pilots:\n"
                  "                    entry = {'role'  : None,\n"
                  "                             'state' : None,\n"
                  "                             'pilot' : dict(pilot),\n"
                  "                             'info'  : dict()\n"
                  "                             }\n"
                  "                    self._pilots[pid] = entry\n"
                  "                if False:\n"
                  "                    _unused =           {\n")]),
]

SILENT += [
    dict(name='_update_pilot_states: placeholder built in a local, None through a name', edits=[
        (_B, _PH, "                if pid not in self._pilots:\n"
                  "                    nothing = None\n"
                  "                    entry = {'role'  : nothing,\n"
                  "                             'state' : None,\n"
                  "                             'pilot' : nothing,\n"
                  "                             'info'  : dict()\n"
                  "                             }\n"
                  "                    self._pilots[pid] = entry\n"
                  "                if False:\n"
                  "                    _unused =           {\n")]),
    dict(name="_update_pilot_states: placeholder by dict(..) call without a 'pilot' default change", edits=[
        (_B, _PH, "                if pid not in self._pilots:\n"
                  "                    self._pilots[pid] = dict(role=None, state=None, pilot=None, info=dict())\n"
                  "                if False:\n"
                  "                    _unused =           {\n")]),
]
