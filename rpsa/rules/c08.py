"""C08  Cancel stops the named tasks and nothing else  (DESIGN 5 / C08)"""

import ast

from ..model import (walk, dotted, call_name, kwarg, unparse, short, UNKNOWN,
                     root_name, AnalysisError, calls_in, stores_in_target)
from ..cfg import cfg_of
from ..flow import Deps, guards, must_pass, loop_slice
from .. import idioms as I

COMP  = ('utils/component.py', 'BaseComponent')
SBASE = ('agent/scheduler/base.py', 'AgentSchedulingComponent')
EBASE = ('agent/executing/base.py', 'AgentExecutingComponent')
POPEN = ('agent/executing/popen.py', 'Popen')
LM    = ('agent/launch_method/base.py', 'LaunchMethod')
TMGR  = ('task_manager.py', 'TaskManager')


def cmd_branches(prog, f, cmd):
    """cfg test nodes `cmd == '<cmd>'` of a control handler and the node ids
    reachable only through their true edge"""
    g = cfg_of(f)
    out = []
    for n in g.nodes:
        if n.kind == 'test' and isinstance(n.ast, ast.Compare) and \
                len(n.ast.ops) == 1 and isinstance(n.ast.ops[0], ast.Eq) and \
                isinstance(n.ast.comparators[0], ast.Constant) and \
                n.ast.comparators[0].value == cmd:
            t = [e.dst for e in g.succ[n.id] if e.label == 'T']
            ff = [e.dst for e in g.succ[n.id] if e.label == 'F']
            rt = set()
            for s in t:
                rt |= g.reachable(s, no_back=False)
            rf = set()
            for s in ff:
                rf |= g.reachable(s)
            out.append((n, rt - rf))
    # several tests on the same command (a dispatch table expanded into two
    # chains): the handler region is the union
    if len(out) > 1:
        union = set()
        for n, r in out:
            union |= r
        out = [(out[0][0], union)] + out[1:]
    return g, out


def cmd_var(f):
    """name bound to msg['cmd'] / msg.get('cmd')"""
    for n in walk(f.node):
        if isinstance(n, ast.Assign) and isinstance(n.targets[0], ast.Name):
            s = unparse(n.value)
            if s in ("msg['cmd']", "msg.get('cmd')"):
                return n.targets[0].id
    return 'cmd'


def arg_var(f):
    """name bound to msg['arg'] / msg.get('arg')"""
    for n in walk(f.node):
        if isinstance(n, ast.Assign) and isinstance(n.targets[0], ast.Name):
            s = unparse(n.value)
            if s in ("msg['arg']", "msg.get('arg')"):
                return n.targets[0].id
    return None


def _is_canceled_rule(prog, rep, rid, comp):
    f = prog.find_method(comp, 'is_canceled')
    rep.saw(f)
    g = cfg_of(f)
    smap = I.stmt_node_map(g)
    d = Deps(f.node)
    param = [p for p in f.params if p != 'self'][0]
    member = [n for n in g.nodes if n.kind == 'test' and
              isinstance(n.ast, ast.Compare) and len(n.ast.ops) == 1 and
              isinstance(n.ast.ops[0], (ast.In, ast.NotIn)) and
              unparse(n.ast.comparators[0]) == 'self._cancel_list']
    if not member:
        rep.bad(rid, f, 'is_canceled:no-membership-test', 'is_canceled never '
                'tests the cancel list: it reports things as canceled (or '
                'not) regardless of the request', f.loc(),
                history='any cancel request cancels every task that passes a '
                'component afterwards')
        return
    if len(member) != 1:
        raise AnalysisError('UNRECOGNISED-IDIOM %s: membership test on the '
                            'cancel list' % f.where)
    m = member[0]
    hit = 'T' if isinstance(m.ast.ops[0], ast.In) else 'F'
    keyed = "%s['uid']" % param in d.expr_depends(m.ast.left)
    rep.check(keyed, rid, f, "is_canceled tests the uid of the given task",
              construct=m.ast, message="is_canceled tests `%s`, which is not "
              "the uid of the task it was given" % short(m.ast, 50),
              loc=f.loc(m.ast), history='a bystander task is reported '
              'CANCELED')
    for n in g.stmt_nodes():
        if n.kind != 'stmt':
            continue
        is_true_ret = isinstance(n.ast, ast.Return) and \
            isinstance(n.ast.value, ast.Constant) and n.ast.value.value is True
        hands = [c for c in calls_in(n.ast) if I.is_handon(c)]
        if not (is_true_ret or hands):
            continue
        okay = (m.id, hit) in guards(g, n.id)
        rep.check(okay, rid, f, '`%s` only for a uid found in the cancel list'
                  % short(n.ast, 40), construct=n.ast,
                  message='is_canceled executes `%s` for a task whose uid is '
                  'not in the cancel list' % short(n.ast, 50), loc=f.loc(n.ast),
                  history='a cancel request for task A arrives; task B passes '
                  'a component and is dropped as canceled')
        for c in hands:
            st = I.handon_state(prog, f, c)
            thing = I.handon_thing(c)
            rep.check(st == prog.const('states.py', 'CANCELED') and
                      isinstance(thing, ast.Name) and thing.id == param, rid,
                      f, 'is_canceled hands the given task on as CANCELED',
                      construct=c, message='is_canceled hands on `%s` in '
                      'state %r' % (short(thing, 30), st), loc=f.loc(c))
    falses = [n for n in g.stmt_nodes() if n.kind == 'stmt' and
              isinstance(n.ast, ast.Return) and
              isinstance(n.ast.value, ast.Constant) and
              n.ast.value.value is False]
    miss = 'F' if hit == 'T' else 'T'
    okf = any((m.id, miss) in guards(g, n.id) for n in falses)
    rep.check(okf, rid, f, 'is_canceled returns False for a uid not in the '
              'list', construct='is_canceled:false',
              message='is_canceled has no `return False` for tasks which are '
              'not in the cancel list', loc=f.loc())


# ------------------------------------------------------------------------------
# R08.1  selection by uid
#
def r08_1(prog, rep, rid='R08.1'):
    rep.rule(rid, 'every removal, cancel hand-on or kill in a cancel handler '
             'is keyed by the uids of the request', minimum=8)
    comp = prog.cls(*COMP)

    # (a) _control_cb: the cancel list grows only by the uids of the message
    f = prog.find_method(comp, '_control_cb')
    rep.saw(f)
    g, brs = cmd_branches(prog, f, 'cancel_tasks')
    if not brs:
        raise AnalysisError('UNRECOGNISED-IDIOM %s: no cancel_tasks branch'
                            % f.where)
    d = Deps(f.node)
    av = arg_var(f)
    smap = I.stmt_node_map(g)
    grows = []
    for n in walk(f.node):
        if isinstance(n, ast.AugAssign) and \
                unparse(n.target) == 'self._cancel_list':
            grows.append(n)
        if isinstance(n, ast.Call) and isinstance(n.func, ast.Attribute) and \
                n.func.attr in ('extend', 'append') and \
                unparse(n.func.value) == 'self._cancel_list':
            grows.append(n)
    if not grows:
        raise AnalysisError('UNRECOGNISED-IDIOM %s: self._cancel_list never '
                            'grows' % f.where)
    for n in grows:
        val = n.value if isinstance(n, ast.AugAssign) else n.args[0]
        dep = d.expr_depends(val)
        okay = ("%s['uids']" % av) in dep and smap[id(n)].id in brs[0][1]
        locked = any(any(unparse(i.context_expr) == 'self._cancel_lock'
                         for i in w.items) for w in smap[id(n)].withs)
        rep.check(okay and locked, rid, f, "the cancel list is extended by "
                  "arg['uids'] of a cancel_tasks message, under the lock",
                  construct=n, message="BaseComponent._control_cb extends the "
                  "cancel list with `%s` %s" % (short(val, 40),
                      'outside the cancel_tasks branch or not from '
                      "arg['uids']" if not okay else 'without _cancel_lock'),
                  loc=f.loc(n),
                  history='a control message of another kind (or other uids) '
                  'marks bystander tasks for cancellation')

    # (b) is_canceled
    _is_canceled_rule(prog, rep, rid, comp)

    # (c) the intake filter keeps exactly the things that are not canceled
    f = prog.find_method(comp, 'work_cb')
    rep.saw(f)
    filt = None
    for n in walk(f.node):
        if isinstance(n, ast.ListComp) and any(
                call_name(c) == 'self.is_canceled' for c in calls_in(n)):
            filt = n
    if filt is None:
        # loop form: for x in things: if self.is_canceled(x): continue;
        #            kept.append(x)   ...   things = kept
        g = cfg_of(f)
        smap = I.stmt_node_map(g)
        okl = None
        for n in g.nodes:
            if n.kind != 'test' or not any(
                    call_name(c) == 'self.is_canceled' for c in calls_in(n.ast)):
                continue
            loops = [g.nodes[h] for h in n.loops if g.nodes[h].kind == 'for']
            if not loops:
                continue
            H = loops[-1]
            tvs = stores_in_target(H.ast.target)
            call = [c for c in calls_in(n.ast)
                    if call_name(c) == 'self.is_canceled'][0]
            if not (call.args and isinstance(call.args[0], ast.Name) and
                    call.args[0].id in tvs):
                continue
            truth = True
            a = n.ast
            if isinstance(a, ast.Compare) and len(a.ops) == 1 and \
                    isinstance(a.comparators[0], ast.Constant):
                truth = bool(a.comparators[0].value) == isinstance(
                    a.ops[0], (ast.Is, ast.Eq))
            keep_lab = 'F' if truth else 'T'
            apps = [smap[id(c)] for c in calls_in(H.ast)
                    if isinstance(c.func, ast.Attribute) and
                    c.func.attr == 'append' and c.args and
                    isinstance(c.args[0], ast.Name) and c.args[0].id in tvs]
            start = loop_slice(g, H.id)[0]
            okl = len(apps) == 1 and (n.id, keep_lab) in guards(
                g, apps[0].id, start=start) and \
                len(guards(g, apps[0].id, start=start)) == 1
            if okl:
                kept = unparse([c for c in calls_in(H.ast)
                                if isinstance(c.func, ast.Attribute) and
                                c.func.attr == 'append'][0].func.value)
                # the kept list replaces / is what the worker receives
                src = unparse(H.ast.iter)
                flows = any(isinstance(x, ast.Assign) and
                            unparse(x.value) == kept and
                            unparse(x.targets[0]) == src
                            for x in walk(f.node)) or any(
                    kept in [unparse(z) for z in c.args]
                    for c in calls_in(f.node)
                    if 'self._workers' in unparse(c.func))
                okl = flows
            break
        if okl is None:
            raise AnalysisError('UNRECOGNISED-IDIOM %s: intake filter on '
                                'is_canceled not found' % f.where)
        rep.check(okl, rid, f, 'work_cb keeps exactly the things for which '
                  'is_canceled() is false (loop form)', construct='intake-loop',
                  message='the intake filter loop of work_cb does not keep '
                  'exactly the not-canceled things of the bulk', loc=f.loc(),
                  history='a cancel request for one task of a bulk: the other '
                  'tasks of the bulk are dropped (or the named one is '
                  'processed)')
        filt = False
    if filt is not False:
        gen = filt.generators[0]
        cond = gen.ifs[0] if gen.ifs else None
        tv = gen.target.id if isinstance(gen.target, ast.Name) else None
        neg = isinstance(cond, ast.UnaryOp) and isinstance(cond.op, ast.Not) and \
            isinstance(cond.operand, ast.Call) and \
            call_name(cond.operand) == 'self.is_canceled' and \
            cond.operand.args and unparse(cond.operand.args[0]) == tv
        same = isinstance(filt.elt, ast.Name) and filt.elt.id == tv and \
            len(gen.ifs) == 1 and len(filt.generators) == 1
        # assigned back to the list that is worked on
        asg = [n for n in walk(f.node) if isinstance(n, ast.Assign) and
               n.value is filt]
        worked = asg and unparse(asg[0].targets[0]) == unparse(gen.iter)
        rep.check(neg and same and worked, rid, f, 'work_cb keeps exactly the '
                  'things for which is_canceled() is false', construct=filt,
                  message='the intake filter `%s` does not keep exactly the '
                  'not-canceled things of the bulk' % short(filt, 70),
                  loc=f.loc(filt),
                  history='a cancel request for one task of a bulk: the other '
                  'tasks of the bulk are dropped (or the named one is processed)')

    # (d) scheduler control_cb: queue hand-over and raptor backlog
    sb = prog.cls(*SBASE)
    f = prog.find_method(sb, 'control_cb')
    rep.saw(f)
    g, brs = cmd_branches(prog, f, 'cancel_tasks')
    if not brs:
        raise AnalysisError('UNRECOGNISED-IDIOM %s: no cancel_tasks branch'
                            % f.where)
    smap = I.stmt_node_map(g)
    d = Deps(f.node)
    av = arg_var(f)
    region = brs[0][1]
    puts = [c for c in calls_in(f.node) if isinstance(c.func, ast.Attribute)
            and c.func.attr == 'put' and '_queue_sched' in
            unparse(c.func.value) and smap[id(c)].id in region]
    okp = len(puts) == 1 and ("%s['uids']" % av) in d.expr_depends(
        puts[0].args[0]) and 'self._CANCEL' in unparse(puts[0].args[0]) and \
        not [x for x in guards(g, smap[id(puts[0])].id)
             if x[0] != brs[0][0].id and
             g.nodes[x[0]].ast is not brs[0][0].ast and x[0] in region]
    rep.check(okp, rid, f, "the scheduler process is told the uids of the "
              "request with the _CANCEL flag", construct='sched:queue',
              message="the scheduler's cancel handler does not forward "
              "arg['uids'] with the _CANCEL flag to the scheduling process "
              "unconditionally", loc=f.loc(),
              history='cancel of a waiting task never reaches the wait pool')
    back_al0 = I.Aliases(prog, None, {f.name: f}, 'self._raptor_tasks')
    comps = [n for n in walk(f.node) if isinstance(n, ast.ListComp) and
             back_al0.is_rooted_expr(f.name, n.generators[0].iter)]
    for lc in comps:
        gen = lc.generators[0]
        cond = gen.ifs[0] if len(gen.ifs) == 1 else None
        okc = isinstance(cond, ast.Compare) and len(cond.ops) == 1 and \
            isinstance(cond.ops[0], ast.In) and \
            unparse(cond.left) == "%s['uid']" % unparse(gen.target) and \
            ("%s['uids']" % av) in d.expr_depends(cond.comparators[0]) and \
            unparse(lc.elt) == unparse(gen.target)
        rep.check(okc, rid, f, "raptor backlog: exactly the tasks whose uid is "
                  "in the request are selected", construct=lc,
                  message="the raptor backlog filter `%s` does not select "
                  "exactly the tasks named in the request" % short(lc, 70),
                  loc=f.loc(lc),
                  history='cancel of task A removes bystander raptor tasks '
                  'from the backlog')
    # what is removed from the backlog is what is reported canceled: every
    # element collected for the CANCELED hand-on comes from the filtered
    # selection, and every selected element is removed from the backlog
    hands = [c for c in calls_in(f.node) if I.is_handon(c) and
             smap[id(c)].id in region]
    okr = False
    why = 'no CANCELED hand-on of a collected list'
    if len(hands) == 1 and isinstance(I.handon_thing(hands[0]), ast.Name) and \
            I.handon_state(prog, f, hands[0]) == prog.const('states.py',
                                                            'CANCELED'):
        L = I.handon_thing(hands[0]).id
        # the handed list may be a plain copy of the name it was collected
        # under (`to_cancel = popped`)
        Ls = {L}
        for _ in range(3):
            for n in walk(f.node):
                if isinstance(n, ast.Assign) and len(n.targets) == 1 and \
                        isinstance(n.targets[0], ast.Name) and \
                        n.targets[0].id in Ls and isinstance(n.value, ast.Name):
                    Ls.add(n.value.id)
        sel = set()          # names holding the filtered selection
        for n in walk(f.node):
            if isinstance(n, ast.Assign) and n.value in comps and \
                    isinstance(n.targets[0], ast.Name):
                sel.add(n.targets[0].id)
        back_al = I.Aliases(prog, None, {f.name: f}, 'self._raptor_tasks')

        def over_sel(node):
            """loop variable names of enclosing loops that iterate the
            selection"""
            out = set()
            for h in node.loops:
                hn = g.nodes[h]
                if hn.kind == 'for' and isinstance(hn.ast.iter, ast.Name) and \
                        hn.ast.iter.id in sel:
                    out |= set(stores_in_target(hn.ast.target))
            return out
        collected = removed = False
        stray = []
        for cc in calls_in(f.node):
            if id(cc) not in smap or smap[id(cc)].id not in region:
                continue
            n = smap[id(cc)]
            if isinstance(cc.func, ast.Attribute) and \
                    unparse(cc.func.value) in Ls:
                if cc.func.attr == 'extend' and cc.args and \
                        isinstance(cc.args[0], ast.Name) and \
                        cc.args[0].id in sel:
                    collected = True
                elif cc.func.attr == 'append' and cc.args and \
                        isinstance(cc.args[0], ast.Name) and \
                        cc.args[0].id in over_sel(n) and \
                        not [x for x in guards(g, n.id) if x[0] in
                             g.loop_body[n.loops[-1]]]:
                    collected = True
                elif cc.func.attr in ('append', 'extend', 'insert'):
                    stray.append(cc)
            if isinstance(cc.func, ast.Attribute) and \
                    cc.func.attr == 'remove' and \
                    back_al.is_rooted_expr(f.name, cc.func.value):
                if cc.args and isinstance(cc.args[0], ast.Name) and \
                        cc.args[0].id in over_sel(n) and \
                        not [x for x in guards(g, n.id) if x[0] in
                             g.loop_body[n.loops[-1]]]:
                    removed = True
                else:
                    stray.append(cc)
        for n in walk(f.node):
            if isinstance(n, ast.AugAssign) and unparse(n.target) in Ls and \
                    isinstance(n.value, ast.Name) and n.value.id in sel:
                collected = True
        any_coll = any(isinstance(cc.func, ast.Attribute) and
                       unparse(cc.func.value) in Ls and cc.func.attr in
                       ('append', 'extend') for cc in calls_in(f.node))
        any_rem = any(isinstance(cc.func, ast.Attribute) and
                      cc.func.attr in ('remove', 'pop') and
                      back_al.is_rooted_expr(f.name, cc.func.value)
                      for cc in calls_in(f.node)) or any(
            isinstance(x, ast.Delete) and back_al.is_rooted_expr(
                f.name, x.targets[0]) for x in walk(f.node))
        if not (collected and removed and not stray) and any_coll and any_rem \
                and not sel:
            # collection and removal exist but the selection is not built
            # the way the recogniser knows (helper, explicit loop, ..)
            raise AnalysisError('UNRECOGNISED-IDIOM %s: raptor backlog '
                                'selection/removal in the cancel branch'
                                % f.where)
        okr = collected and removed and not stray
        why = ('selected tasks are %s%s' % (
            'not all collected for the hand-on' if not collected else
            'not all removed from the backlog' if not removed else
            'collected/removed', '; other elements are added/removed too: %s'
            % [short(x, 40) for x in stray] if stray else ''))
    rep.check(okr, rid, f, 'raptor backlog: exactly the selected tasks are '
              'removed and handed on as CANCELED', construct='sched:raptor-pair',
              message='in the raptor backlog branch of the scheduler cancel '
              'handler %s' % why, loc=f.loc(),
              history='a backlog task is removed without a final state, or '
              'reported CANCELED and later forwarded to raptor')

    # (e) executor control_cb
    eb = prog.cls(*EBASE)
    f = prog.find_method(eb, 'control_cb')
    rep.saw(f)
    g, brs = cmd_branches(prog, f, 'cancel_tasks')
    if not brs:
        raise AnalysisError('UNRECOGNISED-IDIOM %s: no cancel_tasks branch'
                            % f.where)
    smap = I.stmt_node_map(g)
    d = Deps(f.node)
    av = arg_var(f)
    cts = [c for c in calls_in(f.node) if call_name(c) == 'self.cancel_task'
           and smap[id(c)].id in brs[0][1]]
    if not cts:
        rep.bad(rid, f, 'exec:no-cancel', 'the executor ignores cancel_tasks '
                'requests', f.loc(), history='cancel of a running task has '
                'no effect')
    for c in cts:
        a = c.args[0] if c.args else kwarg(c, 'task')
        n = smap[id(c)]
        src = None
        if isinstance(a, ast.Name):
            for s in walk(f.node):
                if isinstance(s, ast.Assign) and any(
                        isinstance(t, ast.Name) and t.id == a.id
                        for t in s.targets) and isinstance(s.value, ast.Call) \
                        and call_name(s.value) == 'self.get_task' and \
                        smap[id(s)].id in brs[0][1]:
                    src = s.value
        loopvars = set()
        for h in n.loops:
            if g.nodes[h].kind == 'for' and ("%s['uids']" % av) in \
                    d.expr_depends(g.nodes[h].ast.iter):
                loopvars |= set(stores_in_target(g.nodes[h].ast.target))
        okay = src is not None and src.args and \
            isinstance(src.args[0], ast.Name) and src.args[0].id in loopvars
        truthy = isinstance(a, ast.Name) and any(
            isinstance(g.nodes[t].ast, ast.Name) and
            g.nodes[t].ast.id == a.id and lab == 'T'
            for t, lab in guards(g, n.id))
        rep.check(okay and truthy, rid, f, 'cancel_task is called for '
                  "get_task(uid) with uid iterating arg['uids'], when found",
                  construct=c, message='the executor calls cancel_task(`%s`) '
                  'for something that is not the task looked up by a uid of '
                  'the request' % short(a, 30), loc=f.loc(c),
                  history='cancel of task A kills the process of task B')

    # (f) Popen.cancel_task kills the process of the task it was given
    po = prog.cls(*POPEN)
    f = prog.find_method(po, 'cancel_task')
    rep.saw(f)
    d = Deps(f.node)
    param = [p for p in f.params if p != 'self'][0]
    kills = [c for c in calls_in(f.node) if isinstance(c.func, ast.Attribute)
             and c.func.attr == 'cancel_task' and
             unparse(c.func.value) != 'self']
    if not kills:
        rep.bad(rid, f, 'popen:no-kill', 'Popen.cancel_task does not ask the '
                'launch method to kill the process', f.loc(),
                history='a canceled task keeps running on cores that are '
                'released')
    for c in kills:
        okay = len(c.args) >= 2 and isinstance(c.args[0], ast.Name) and \
            c.args[0].id == param and param in d.expr_depends(c.args[1]) and \
            ("%s.get('proc')" % param in unparse(f.node) or
             "%s['proc']" % param in unparse(f.node)) and \
            'pid' in unparse(c.args[1])
        rep.check(okay, rid, f, 'the launcher is asked to kill the pid of the '
                  "given task's process", construct=c,
                  message='Popen.cancel_task kills `%s`, which is not the '
                  "process of the task it was given" % short(c, 60),
                  loc=f.loc(c))
    lm = prog.cls(*LM)
    f = prog.find_method(lm, 'cancel_task')
    rep.saw(f)
    pidp = f.params[-1]
    ks = [c for c in calls_in(f.node) if call_name(c) in ('os.killpg',
                                                          'os.kill')]
    rep.check(bool(ks) and all(c.args and isinstance(c.args[0], ast.Name) and
                               c.args[0].id == pidp for c in ks), rid, f,
              'LaunchMethod.cancel_task signals exactly the pid it was given',
              construct='lm:kill', message='LaunchMethod.cancel_task does not '
              'signal (only) the process id it was given', loc=f.loc(),
              history='cancel kills another process group (or nothing)')


# ------------------------------------------------------------------------------
# R08.3  cancel ends as CANCELED
#
def r08_3(prog, rep, rid='R08.3'):
    rep.rule(rid, 'the cancel path of the executor records CANCELED as target '
             'state', minimum=1)
    po = prog.cls(*POPEN)
    f = prog.find_method(po, 'cancel_task')
    g = cfg_of(f)
    smap = I.stmt_node_map(g)
    param = [p for p in f.params if p != 'self'][0]
    canceled = prog.const('states.py', 'CANCELED')
    sets = [n for n in g.stmt_nodes() if n.kind == 'stmt' and
            isinstance(n.ast, ast.Assign) and any(
                isinstance(t, ast.Subscript) and
                isinstance(t.slice, ast.Constant) and
                t.slice.value == 'target_state' and root_name(t) == param
                for t in n.ast.targets)]
    hands = [smap[id(c)] for c in calls_in(f.node) if I.is_handon(c)]
    okay = bool(sets) and all(prog.fold(f.module, n.ast.value) == canceled
                              for n in sets) and all(
        must_pass(g, g.entry.id, h.id, [n.id for n in sets]) for h in hands)
    rep.check(okay, rid, f, "cancel_task sets task['target_state'] = CANCELED "
              'before the hand-on', construct='target_state',
              message="Popen.cancel_task hands the task on without "
              "target_state = CANCELED (values: %s)" % [
                  short(n.ast.value, 20) for n in sets], loc=f.loc(),
              history='a canceled task ends as DONE or FAILED')


# ------------------------------------------------------------------------------
# R08.4  message key agreement
#
def publishers(prog):
    """all dict literals {'cmd': <str>, 'arg': {...}, ...} in the package:
    cmd -> [(func, dict node, set(arg keys) or None, fwd value)]"""
    out = {}
    for m in prog.modules.values():
        funcs = list(m.funcs.values())
        for c in m.classes.values():
            funcs += list(c.methods.values())
        for f in funcs:
            for n in walk(f.node, nested=True):
                if not isinstance(n, ast.Dict):
                    continue
                keys = {k.value: v for k, v in zip(n.keys, n.values)
                        if isinstance(k, ast.Constant)}
                if 'cmd' not in keys or not isinstance(keys['cmd'],
                                                       ast.Constant):
                    continue
                arg = keys.get('arg')
                akeys = None
                if isinstance(arg, ast.Dict):
                    akeys = {k.value for k in arg.keys
                             if isinstance(k, ast.Constant)}
                fwd = keys.get('fwd')
                out.setdefault(keys['cmd'].value, []).append(
                    (f, n, akeys, fwd.value if isinstance(fwd, ast.Constant)
                     else (None if fwd is None else UNKNOWN)))
    return out


def handlers(prog):
    """cmd -> [(func, set(keys read from arg in the branch))] for handlers
    named control_cb / _control_cb / _state_cb ..."""
    out = {}
    for m in prog.modules.values():
        funcs = []
        for c in m.classes.values():
            funcs += list(c.methods.values())
        for f in funcs:
            if not f.name.endswith('_cb'):
                continue
            av = arg_var(f)
            if not av:
                continue
            g = cfg_of(f)
            smap = I.stmt_node_map(g)
            for n in g.nodes:
                if n.kind == 'test' and isinstance(n.ast, ast.Compare) and \
                        len(n.ast.ops) == 1 and \
                        isinstance(n.ast.ops[0], ast.Eq) and \
                        unparse(n.ast.left) == cmd_var(f) and \
                        isinstance(n.ast.comparators[0], ast.Constant):
                    cmd = n.ast.comparators[0].value
                    t = [e.dst for e in g.succ[n.id] if e.label == 'T']
                    ff = [e.dst for e in g.succ[n.id] if e.label == 'F']
                    rt, rf = set(), set()
                    for s in t:
                        rt |= g.reachable(s)
                    for s in ff:
                        rf |= g.reachable(s)
                    region = rt - rf
                    keys = set()
                    for x in walk(f.node):
                        if isinstance(x, ast.Subscript) and \
                                isinstance(x.value, ast.Name) and \
                                x.value.id == av and \
                                isinstance(x.slice, ast.Constant) and \
                                isinstance(x.ctx, ast.Load) and \
                                id(x) in smap and smap[id(x)].id in region:
                            keys.add(x.slice.value)
                    out.setdefault(cmd, []).append((f, keys))
    return out


def r08_4(prog, rep, rid='R08.4', sweep=False):
    rep.rule(rid, "keys a cancel_tasks handler reads from arg are written by "
             "the publisher; TaskManager.cancel_tasks forwards the request",
             minimum=4)
    pubs = publishers(prog)
    hnds = handlers(prog)
    cmds = ['cancel_tasks'] if not sweep else sorted(hnds)
    for cmd in cmds:
        ps = pubs.get(cmd, [])
        written = set()
        open_ = False
        for f, n, akeys, fwd in ps:
            if akeys is None:
                open_ = True
            else:
                written |= akeys
        for f, keys in hnds.get(cmd, []):
            if sweep and (open_ or not ps):
                rep.info(rid + 's', f, 'cmd %r: publisher keys not literal; '
                         'handler reads %s' % (cmd, sorted(keys)))
                continue
            miss = keys - written
            rr = rid if not sweep else rid + 's'
            rep.check(not miss, rr, f, "handler of %r reads arg keys %s, all "
                      "written by a publisher" % (cmd, sorted(keys)),
                      construct='%s:%s' % (cmd, f.qual),
                      message="%s reads arg[%s] of a %r message, which no "
                      "publisher of that command writes (written: %s): the "
                      "handler raises KeyError and the request is lost"
                      % (f.qual, ', '.join(repr(k) for k in sorted(miss)), cmd,
                         sorted(written)), loc=f.loc(),
                      history='every %s request makes this handler raise' % cmd)
    if not sweep:
        tm = prog.cls(*TMGR)
        f = prog.find_method(tm, 'cancel_tasks')
        rep.saw(f)
        mine = [p for p in pubs.get('cancel_tasks', []) if p[0] is f]
        okay = len(mine) == 1 and mine[0][3] is True and \
            'uids' in (mine[0][2] or set())
        rep.check(okay, rid, f, "TaskManager.cancel_tasks publishes "
                  "{'cmd': 'cancel_tasks', 'arg': {'uids': ..}, 'fwd': True}",
                  construct='tmgr:cancel_tasks', message="TaskManager."
                  "cancel_tasks does not publish the request with the uids "
                  "and fwd=True: it never reaches the pilots", loc=f.loc(),
                  history='task.cancel() on a running task has no effect on '
                  'the agent side')
        # the uids published derive from the argument (or all tasks if none)
        if mine:
            d = Deps(f.node)
            argd = mine[0][1]
            inner = [v for k, v in zip(argd.keys, argd.values)
                     if isinstance(k, ast.Constant) and k.value == 'arg'][0]
            uv = [v for k, v in zip(inner.keys, inner.values)
                  if isinstance(k, ast.Constant) and k.value == 'uids']
            p = [x for x in f.params if x != 'self'][0]
            rep.check(bool(uv) and (p in d.expr_depends(uv[0]) or
                                    unparse(uv[0]) == p), rid, f,
                      'the uids published are the uids given', construct='tmgr:'
                      'uids', message='the uids published by cancel_tasks do '
                      'not derive from its argument', loc=f.loc())


# ------------------------------------------------------------------------------
# R08.5  cancel handlers do not mutate the container they iterate
#
CANCEL_SITES = [(SBASE, 'control_cb'), (SBASE, '_schedule_incoming'),
                (EBASE, 'control_cb'), (POPEN, '_check_running'),
                (POPEN, 'cancel_task'), (COMP, '_control_cb'),
                (COMP, 'is_canceled')]


def r08_5(prog, rep, rid='R08.5', sweep=False):
    rep.rule(rid, 'the loops of the cancel handlers do not remove from / add '
             'to the container they are iterating (an element next to a '
             'removed one would be skipped: a named task stays behind)',
             minimum=len(CANCEL_SITES))
    sites = []
    for anchor, mname in CANCEL_SITES:
        sites.append(prog.find_method(prog.cls(*anchor), mname))
    if sweep:
        sites = []
        for m in prog.modules.values():
            for f in m.funcs.values():
                sites.append(f)
            for k in m.classes.values():
                sites += list(k.methods.values())
    for f in sites:
        if f is None:
            raise AnalysisError('R08.5: anchor missing')
        muts = I.iterated_container_mutations(f)
        if sweep:
            for loop, hit in muts:
                rep.info(rid + 's', f, 'loop over `%s` mutates it: `%s`'
                         % (short(loop.iter, 40), short(hit, 50)),
                         f.loc(hit))
            continue
        rep.saw(f)
        if not muts:
            rep.ok(rid, f, '%s: no loop mutates the container it iterates'
                   % f.qual, f.loc())
        for loop, hit in muts:
            rep.bad(rid, f, hit, '%s iterates `%s` and executes `%s` inside '
                    'the loop without leaving it: the element following a '
                    'removed one is skipped' % (f.qual, short(loop.iter, 40),
                                                short(hit, 50)), f.loc(hit),
                    history='cancel request naming two tasks which are '
                    'adjacent in the backlog: the second one is not removed, '
                    'is not reported CANCELED and is later started')


# ------------------------------------------------------------------------------
#
def run(prog, rep, tier):
    rep.decided = ("the cancel list grows only by arg['uids'] of cancel_tasks "
        "messages; is_canceled reports/hands on only a uid found in the list "
        "and only the task it was given; the intake filter keeps exactly the "
        "not-canceled things; the scheduler forwards the uids to its process "
        "and filters the raptor backlog by `uid in uids`; the executor cancels "
        "get_task(uid) for uid in the request; cancel_task kills the pid of "
        "the task it was given and records CANCELED; message keys read by "
        "cancel handlers are written by the publisher, which sets fwd=True. "
        "Wait-pool removal keyed by uid: R04.5; exactly-once release and "
        "arbitration of running tasks: R07.1/R07.2 (re-evaluated here).")
    rep.undecided = ('delivery timing of the request relative to the task '
        '(covered per stage by the rules above, not as a global history); '
        'whether os.killpg reaches the task processes (process groups).')
    rep.assumptions = ['uids are unique across tasks',
                       'zmq pubsub delivers the control message to every '
                       'subscribed component']
    rep.attempt(r08_1, prog, rep)
    rep.attempt(r08_3, prog, rep)
    rep.attempt(r08_4, prog, rep)
    rep.attempt(r08_5, prog, rep)
    from .c04 import r04_5
    rep.attempt(r04_5, prog, rep, rid='R04.5')
    from .c07 import r07_2
    rep.attempt(r07_2, prog, rep, rid='R07.2')
    if tier == 'thorough':
        rep.rule('R08.4s', 'sweep: message key agreement for every command '
                 'handler in the package', minimum=0)
        rep.attempt(r08_4, prog, rep, sweep=True)
        rep.rule('R08.5s', 'sweep: loops which mutate the container they '
                 'iterate, package wide (information)', minimum=0)
        rep.attempt(r08_5, prog, rep, sweep=True)


# ------------------------------------------------------------------------------
_U = 'utils/component.py'
_S = 'agent/scheduler/base.py'
_E = 'agent/executing/base.py'
_P = 'agent/executing/popen.py'
_L = 'agent/launch_method/base.py'
_T = 'task_manager.py'

MUTATIONS = [
    dict(name='R08.1 cancel list extended for every command', rules=('R08.1',), edits=[
        (_U, "        if cmd == 'cancel_tasks':\n\n            uids = arg['uids']\n\n            if not isinstance(uids, list):\n                uids = [uids]\n",
             "        uids = (arg or {}).get('uids', [])\n        with self._cancel_lock:\n            self._cancel_list += uids\n\n        if cmd == 'cancel_tasks':\n\n            uids = arg['uids']\n\n            if not isinstance(uids, list):\n                uids = [uids]\n")]),
    dict(name='R08.1 cancel list extended without the lock', rules=('R08.1',), edits=[
        (_U, "            with self._cancel_lock:\n                self._cancel_list += uids\n", "            self._cancel_list += uids\n")]),
    dict(name='R08.1 is_canceled membership polarity flipped', rules=('R08.1',), edits=[
        (_U, "            if tid not in self._cancel_list:\n                return False\n", "            if tid in self._cancel_list:\n                return False\n")]),
    dict(name='R08.1 is_canceled without membership test', rules=('R08.1',), edits=[
        (_U, "            if tid not in self._cancel_list:\n                return False\n\n", "")],
         note='membership test gone: unrecognised or violation'),
    dict(name='R08.1 is_canceled tests the task type instead of the uid', rules=('R08.1',), edits=[
        (_U, "            tid = task['uid']\n\n            if tid not in self._cancel_list:", "            tid = task['type']\n\n            if tid not in self._cancel_list:")]),
    dict(name='R08.1 intake filter polarity flipped', rules=('R08.1',), edits=[
        (_U, "                                    if not self.is_canceled(x)]", "                                    if self.is_canceled(x)]")]),
    dict(name='R08.1 intake filter drops the bulk when anything is canceled', rules=('R08.1',), edits=[
        (_U, "                        things = [x for x in things\n                                    if not self.is_canceled(x)]", "                        things = [x for x in things\n                                    if not self.is_canceled(things[0])]")]),
    dict(name='R08.1 scheduler does not forward the request to its process', rules=('R08.1',), edits=[
        (_S, "            self._queue_sched.put((uids, self._CANCEL))\n", "")]),
    dict(name='R08.1 scheduler forwards the request as SCHEDULE', rules=('R08.1',), edits=[
        (_S, "            self._queue_sched.put((uids, self._CANCEL))\n", "            self._queue_sched.put((uids, self._SCHEDULE))\n")]),
    dict(name='R08.1 raptor backlog filter negated', rules=('R08.1',), edits=[
        (_S, "                                       if t['uid'] in uids]", "                                       if t['uid'] not in uids]")]),
    dict(name='R08.1 raptor backlog filter by queue name', rules=('R08.1',), edits=[
        (_S, "                                       if t['uid'] in uids]", "                                       if queue in uids]")]),
    dict(name='R08.1 raptor backlog task reported but not removed', rules=('R08.1',), edits=[
        (_S, "                        to_cancel.append(task)\n                        self._raptor_tasks[queue].remove(task)\n", "                        to_cancel.append(task)\n")]),
    dict(name='R08.1 executor cancels every known task', rules=('R08.1',), edits=[
        (_E, "            for tid in arg['uids']:\n                task = self.get_task(tid)\n                if task:\n                    self.cancel_task(task)\n", "            for tid in list(self._tasks):\n                task = self.get_task(tid)\n                if task:\n                    self.cancel_task(task)\n")]),
    dict(name='R08.1 executor ignores cancel requests', rules=('R08.1',), edits=[
        (_E, "                if task:\n                    self.cancel_task(task)\n\n        elif cmd == 'task_startup_done':", "                if task:\n                    pass\n\n        elif cmd == 'task_startup_done':")]),
    dict(name='R08.1 executor cancels unknown tasks too', rules=('R08.1',), edits=[
        (_E, "                if task:\n                    self.cancel_task(task)\n\n        elif cmd == 'task_startup_done':", "                self.cancel_task(task)\n\n        elif cmd == 'task_startup_done':")]),
    dict(name='R08.1 popen kills the agent process group', rules=('R08.1',), edits=[
        (_P, "        launcher.cancel_task(task, proc.pid)\n", "        launcher.cancel_task(task, os.getpid())\n")]),
    dict(name='R08.1 launch method signals pid 0', rules=('R08.1',), edits=[
        (_L, "            os.killpg(pid, signal.SIGTERM)\n", "            os.killpg(0, signal.SIGTERM)\n")]),
    dict(name='R08.3 canceled task recorded as FAILED', rules=('R08.3',), edits=[
        (_P, "        task['target_state'] = rps.CANCELED\n", "        task['target_state'] = rps.FAILED\n")]),
    dict(name='R08.3 target state set after the hand-on', rules=('R08.3', 'R07.1'), edits=[
        (_P, "        task['exit_code']    = None\n        task['target_state'] = rps.CANCELED\n", "        task['exit_code']    = None\n"),
        (_P, "        self.advance([task], rps.AGENT_STAGING_OUTPUT_PENDING,\n                             publish=True, push=True)\n", "        self.advance([task], rps.AGENT_STAGING_OUTPUT_PENDING,\n                             publish=True, push=True)\n        task['target_state'] = rps.CANCELED\n")]),
    dict(name='R08.4 cancel request not forwarded', rules=('R08.4',), edits=[
        (_T, "                                                   'tmgr' : self.uid},\n                                          'fwd' : True})", "                                                   'tmgr' : self.uid},\n                                          'fwd' : False})")]),
    dict(name='R08.4 publisher renames the key', rules=('R08.4',), edits=[
        (_T, "                                          'arg' : {'uids' : uids,\n                                                   'tmgr' : self.uid},", "                                          'arg' : {'tids' : uids,\n                                                   'tmgr' : self.uid},")]),
    dict(name='R08.4 handler reads a key nobody writes', rules=('R08.4',), edits=[
        (_E, "            for tid in arg['uids']:\n                task = self.get_task(tid)", "            for tid in arg['task_ids']:\n                task = self.get_task(tid)")]),
    dict(name='R04.5 waiting task not removed on cancel', rules=('R04.5',), edits=[
        (_S, "                                to_cancel.append(task)\n                                del self._waitpool[priority][uid]\n", "                                to_cancel.append(task)\n")]),
    dict(name='R07.2 cancel without arbitration', rules=('R07.2',), edits=[
        (_P, "        with self._check_lock:\n            if tid not in self._tasks:\n                return\n            try:\n                del self._tasks[tid]", "        with self._check_lock:\n            try:\n                del self._tasks[tid]")]),
    dict(name='R08.5 raptor backlog pruned while iterating it (seed C08-a)', rules=('R08.5',), edits=[
        (_S, "                    matches = [t for t in self._raptor_tasks[queue]\n                                       if t['uid'] in uids]\n                    for task in matches:\n                        to_cancel.append(task)\n                        self._raptor_tasks[queue].remove(task)\n", "                    for task in self._raptor_tasks[queue]:\n                        if task['uid'] in uids:\n                            to_cancel.append(task)\n                            self._raptor_tasks[queue].remove(task)\n")]),
    dict(name='R08.5 watcher iterates the live watch list', rules=('R08.5',), edits=[
        (_P, "        for task in list(to_watch):\n", "        for task in to_watch:\n")]),
]

SILENT = [
    dict(name='cancel list extended with extend()', edits=[
        (_U, "                self._cancel_list += uids\n", "                self._cancel_list.extend(uids)\n")]),
    dict(name='is_canceled in positive form', edits=[
        (_U, "            if tid not in self._cancel_list:\n                return False\n\n            if 'state' in task:\n                self.advance(task, rps.CANCELED, publish=True, push=False)\n\n            # remove from cancel list\n            self._cancel_list.remove(tid)\n\n            return True\n",
             "            if tid in self._cancel_list:\n                if 'state' in task:\n                    self.advance(task, rps.CANCELED, publish=True, push=False)\n                self._cancel_list.remove(tid)\n                return True\n\n            return False\n")]),
    dict(name='executor loop with renamed variables', edits=[
        (_E, "            for tid in arg['uids']:\n                task = self.get_task(tid)\n                if task:\n                    self.cancel_task(task)\n", "            uids = arg['uids']\n            for u in uids:\n                t = self.get_task(u)\n                if t:\n                    self.cancel_task(t)\n")]),
    dict(name='raptor backlog uids bound to a set first', edits=[
        (_S, "            uids = arg['uids']\n            self._queue_sched.put((uids, self._CANCEL))", "            uids = arg['uids']\n            uidset = set(uids)\n            self._queue_sched.put((uids, self._CANCEL))"),
        (_S, "                                       if t['uid'] in uids]", "                                       if t['uid'] in uidset]")]),
    dict(name='popen keeps the pid in a local', edits=[
        (_P, "        launcher.cancel_task(task, proc.pid)\n", "        pid = proc.pid\n        launcher.cancel_task(task, pid)\n")]),
]
