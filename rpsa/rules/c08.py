"""C08  Cancel stops the named tasks and nothing else  (DESIGN 5 / C08)"""

import ast
import copy

from ..model import (walk, dotted, call_name, kwarg, unparse, short, UNKNOWN,
                     root_name, AnalysisError, calls_in, stores_in_target,
                     names_in)
from ..cfg import cfg_of
from ..flow import Deps, guards, must_pass, loop_slice, reaching_defs
from .. import idioms as I

COMP  = ('utils/component.py', 'BaseComponent')
SBASE = ('agent/scheduler/base.py', 'AgentSchedulingComponent')
EBASE = ('agent/executing/base.py', 'AgentExecutingComponent')
POPEN = ('agent/executing/popen.py', 'Popen')
LM    = ('agent/launch_method/base.py', 'LaunchMethod')
TMGR  = ('task_manager.py', 'TaskManager')


def _cmd_test(n, cmd=None):
    """(command, edge label taken when the command matches) of a cfg test node
    `x == '<cmd>'` / `x != '<cmd>'`; None for other nodes"""
    if n.kind == 'test' and isinstance(n.ast, ast.Compare) and \
            len(n.ast.ops) == 1 and \
            isinstance(n.ast.ops[0], (ast.Eq, ast.NotEq)) and \
            isinstance(n.ast.comparators[0], ast.Constant) and \
            isinstance(n.ast.comparators[0].value, str) and \
            (cmd is None or n.ast.comparators[0].value == cmd):
        return (n.ast.comparators[0].value,
                'T' if isinstance(n.ast.ops[0], ast.Eq) else 'F')
    return None


def cmd_branches(prog, f, cmd):
    """cfg test nodes `cmd == '<cmd>'` (or `cmd != '<cmd>'`: the handler is
    then the false arm) of a control handler and the node ids reachable only
    through the edge taken when the command matches"""
    g = cfg_of(f)
    out = []
    for n in g.nodes:
        ct = _cmd_test(n, cmd)
        if ct:
            t = [e.dst for e in g.succ[n.id] if e.label == ct[1]]
            ff = [e.dst for e in g.succ[n.id] if e.label in ('T', 'F') and
                  e.label != ct[1]]
            rt = set()
            for s in t:
                rt |= g.reachable(s, no_back=False)
            rf = set()
            for s in ff:
                rf |= g.reachable(s)
            out.append((n, rt - rf))
    # several tests on the same command (a dispatch table expanded into two
    # chains): the handler region is the union
    if len(out) > 1:
        union = set()
        for n, r in out:
            union |= r
        out = [(out[0][0], union)] + out[1:]
    return g, out


def cmd_var(f):
    """name bound to msg['cmd'] / msg.get('cmd')"""
    for n in walk(f.node):
        if isinstance(n, ast.Assign) and isinstance(n.targets[0], ast.Name):
            s = unparse(n.value)
            if s in ("msg['cmd']", "msg.get('cmd')"):
                return n.targets[0].id
    return 'cmd'


def arg_var(f):
    """name bound to msg['arg'] / msg.get('arg')"""
    for n in walk(f.node):
        if isinstance(n, ast.Assign) and isinstance(n.targets[0], ast.Name):
            s = unparse(n.value)
            if s in ("msg['arg']", "msg.get('arg')"):
                return n.targets[0].id
    return None


NORMAL = {'next', 'T', 'F', 'iter', 'done'}


def strip_truth(e):
    """(inner expression, polarity) of an expression used for its truth:
    `not X`, `X is True`, `X == True`, `X is not False`, `X is False`, ..,
    `bool(X)` are reduced to X with the polarity under which X is true"""
    pol = True
    while True:
        if isinstance(e, ast.UnaryOp) and isinstance(e.op, ast.Not):
            e, pol = e.operand, not pol
        elif isinstance(e, ast.Compare) and len(e.ops) == 1 and \
                isinstance(e.ops[0], (ast.Is, ast.IsNot, ast.Eq, ast.NotEq)) \
                and isinstance(e.comparators[0], ast.Constant) and \
                isinstance(e.comparators[0].value, bool):
            same = isinstance(e.ops[0], (ast.Is, ast.Eq))
            if e.comparators[0].value != same:
                pol = not pol
            e = e.left
        elif isinstance(e, ast.Call) and isinstance(e.func, ast.Name) and \
                e.func.id == 'bool' and len(e.args) == 1 and not e.keywords:
            e = e.args[0]
        else:
            return e, pol


class TruthUses:
    """Where the truth of a value is decided, by definition and use.

    `match(expr)` says whether an expression is the value looked for: it
    returns True / False (the expression is the value / its negation) or None.
    Recorded are
      evals  cfg nodes that evaluate the value (test nodes, or assignments
             `t = <value>` to a local name)
      sites  [(test node, edge label taken when the value is true)]: tests of
             the value itself and of local names whose only definition
             reaching the test is such an assignment
      rets   [(return node, polarity)]: returns of the value / of such a name
    A name that reaches a test together with another definition raises
    AnalysisError (the analysis cannot say what is tested)."""

    def __init__(self, f, g, match):
        self.g = g
        self.evals, self.sites, self.rets = [], [], []
        self.bound = []                      # (assign node, name, polarity)

        def m(e):
            e, pol = strip_truth(e)
            r = match(e)
            return None if r is None else (pol == bool(r))
        for n in g.nodes:
            if n.ast is None:
                continue
            if n.kind == 'test':
                r = m(n.ast)
                if r is not None:
                    self.evals.append(n)
                    self.sites.append((n, 'T' if r else 'F'))
            elif n.kind == 'stmt' and isinstance(n.ast, ast.Assign) and \
                    len(n.ast.targets) == 1 and \
                    isinstance(n.ast.targets[0], ast.Name):
                r = m(n.ast.value)
                if r is not None:
                    self.evals.append(n)
                    self.bound.append((n, n.ast.targets[0].id, r))
            elif n.kind == 'stmt' and isinstance(n.ast, ast.Return) and \
                    n.ast.value is not None:
                r = m(n.ast.value)
                if r is not None:
                    self.evals.append(n)
                    self.rets.append((n, r))
        # plain copies of a bound name (`hit = listed`)
        for _ in range(3):
            for n in g.nodes:
                if n.kind == 'stmt' and isinstance(n.ast, ast.Assign) and \
                        len(n.ast.targets) == 1 and \
                        isinstance(n.ast.targets[0], ast.Name) and \
                        not any(n is b[0] for b in self.bound):
                    e, pol = strip_truth(n.ast.value)
                    if isinstance(e, ast.Name):
                        src = self._def_of(e.id, n)
                        if src is not None:
                            self.bound.append((n, n.ast.targets[0].id,
                                               pol == src[2]))
        for n in g.nodes:
            if n.ast is None:
                continue
            if n.kind == 'test':
                e, pol = strip_truth(n.ast)
                if isinstance(e, ast.Name):
                    src = self._def_of(e.id, n)
                    if src is not None:
                        self.sites.append((n, 'T' if pol == src[2] else 'F'))
            elif n.kind == 'stmt' and isinstance(n.ast, ast.Return) and \
                    n.ast.value is not None:
                e, pol = strip_truth(n.ast.value)
                if isinstance(e, ast.Name):
                    src = self._def_of(e.id, n)
                    if src is not None:
                        self.rets.append((n, pol == src[2]))

    def _def_of(self, name, at):
        cands = [b for b in self.bound if b[1] == name]
        if not cands:
            return None
        rd = reaching_defs(self.g, name, at.id)
        mine = [b for b in cands if any(x[0] is b[0] for x in rd)]
        if not mine:
            return None
        if len(rd) != 1 or len(mine) != 1:
            raise AnalysisError('UNRECOGNISED-IDIOM %s: `%s` tested at line '
                                '%s has several definitions' % (
                                    self.g.func.name, name,
                                    getattr(at.ast, 'lineno', '?')))
        return mine[0]

    def hit_edges(self):
        return {(n.id, lab) for n, lab in self.sites}

    def miss_edges(self):
        return {(n.id, 'F' if lab == 'T' else 'T') for n, lab in self.sites}


def _names_bound_to(f, text):
    """local names all of whose definitions in f are `name = <text>`"""
    vals = {}
    for n in walk(f.node):
        if isinstance(n, ast.Assign):
            for t in n.targets:
                for nm in stores_in_target(t):
                    vals.setdefault(nm, []).append(
                        unparse(n.value) if isinstance(t, ast.Name) else None)
        elif isinstance(n, (ast.For, ast.comprehension)):
            for nm in stores_in_target(n.target):
                vals.setdefault(nm, []).append(None)
        elif isinstance(n, (ast.AugAssign, ast.AnnAssign)):
            for nm in stores_in_target(n.target):
                vals.setdefault(nm, []).append(None)
    return {nm for nm, vs in vals.items() if all(v == text for v in vs)}


def is_cancel_list(f, e):
    """expression is self._cancel_list (or a local name bound to nothing
    else)"""
    if unparse(e) == 'self._cancel_list':
        return True
    return isinstance(e, ast.Name) and e.id in _names_bound_to(
        f, 'self._cancel_list')


def _is_canceled_rule(prog, rep, rid, comp):
    f = prog.find_method(comp, 'is_canceled')
    rep.saw(f)
    g = cfg_of(f)
    d = Deps(f.node)
    param = [p for p in f.params if p != 'self'][0]

    def membership(e):
        if isinstance(e, ast.Compare) and len(e.ops) == 1 and \
                isinstance(e.ops[0], (ast.In, ast.NotIn)) and \
                is_cancel_list(f, e.comparators[0]):
            return isinstance(e.ops[0], ast.In)
        return None
    member = [n for n in walk(f.node) if membership(n) is not None]
    if not member:
        # is the list consulted in a way this recogniser does not know
        # (count / index / try: remove)?
        other = [c for c in calls_in(f.node)
                 if isinstance(c.func, ast.Attribute) and
                 is_cancel_list(f, c.func.value) and
                 c.func.attr in ('count', 'index', '__contains__')]
        eafp = [t for t in walk(f.node) if isinstance(t, ast.Try) and any(
            isinstance(c.func, ast.Attribute) and c.func.attr == 'remove' and
            is_cancel_list(f, c.func.value)
            for s in t.body for c in calls_in(s))]
        if other or eafp:
            raise AnalysisError('UNRECOGNISED-IDIOM %s: the cancel list is '
                                'consulted without a membership test' % f.where)
        rep.bad(rid, f, 'is_canceled:no-membership-test', 'is_canceled never '
                'tests the cancel list: it reports things as canceled (or '
                'not) regardless of the request', f.loc(),
                history='any cancel request cancels every task that passes a '
                'component afterwards')
        return
    if len(member) != 1:
        raise AnalysisError('UNRECOGNISED-IDIOM %s: membership test on the '
                            'cancel list' % f.where)
    m = member[0]
    tu = TruthUses(f, g, membership)
    if not tu.sites and not tu.rets:
        raise AnalysisError('UNRECOGNISED-IDIOM %s: the result of the '
                            'membership test on the cancel list is not used '
                            'in a test or return' % f.where)
    hit, miss = tu.hit_edges(), tu.miss_edges()
    keyed = "%s['uid']" % param in d.expr_depends(m.left)
    rep.check(keyed, rid, f, "is_canceled tests the uid of the given task",
              construct=m, message="is_canceled tests `%s`, which is not "
              "the uid of the task it was given" % short(m, 50),
              loc=f.loc(m), history='a bystander task is reported '
              'CANCELED')
    mret = {n.id: pol for n, pol in tu.rets}
    falsy = []
    for n in g.stmt_nodes():
        if n.kind != 'stmt':
            continue
        is_ret = isinstance(n.ast, ast.Return)
        val = n.ast.value if is_ret else None
        is_true_ret = is_ret and isinstance(val, ast.Constant) and \
            val.value is True
        if is_ret and (val is None or (isinstance(val, ast.Constant) and
                                       not val.value)):
            falsy.append(n)
        if is_ret and n.id in mret:
            # the membership itself is what is returned
            rep.check(mret[n.id], rid, f, '`%s` returns whether the uid was '
                      'found in the cancel list' % short(n.ast, 40),
                      construct=n.ast, message='is_canceled returns the '
                      'negation of the membership test: `%s`'
                      % short(n.ast, 50), loc=f.loc(n.ast),
                      history='a cancel request for task A arrives; task B '
                      'passes a component and is dropped as canceled')
        elif is_ret and not is_true_ret and n not in falsy:
            raise AnalysisError('UNRECOGNISED-IDIOM %s: `%s`' % (
                f.where, short(n.ast, 50)))
        hands = [c for c in calls_in(n.ast) if I.is_handon(c)]
        if not (is_true_ret or hands):
            continue
        gs = set(guards(g, n.id))
        okay = bool(gs & hit)
        rep.check(okay, rid, f, '`%s` only for a uid found in the cancel list'
                  % short(n.ast, 40), construct=n.ast,
                  message='is_canceled executes `%s` for a task whose uid is '
                  'not in the cancel list' % short(n.ast, 50), loc=f.loc(n.ast),
                  history='a cancel request for task A arrives; task B passes '
                  'a component and is dropped as canceled')
        for c in hands:
            st = I.handon_state(prog, f, c)
            thing = I.handon_thing(c)
            rep.check(st == prog.const('states.py', 'CANCELED') and
                      isinstance(thing, ast.Name) and thing.id == param, rid,
                      f, 'is_canceled hands the given task on as CANCELED',
                      construct=c, message='is_canceled hands on `%s` in '
                      'state %r' % (short(thing, 30), st), loc=f.loc(c))
    # a listed thing that has a state is handed on as CANCELED on every path
    # to the answer: that hand-on is the only final state it will ever get
    canceled = prog.const('states.py', 'CANCELED')
    hnodes = set()
    smap = I.stmt_node_map(g)
    for c in calls_in(f.node):
        if I.is_handon(c) and id(c) in smap and \
                I.handon_state(prog, f, c) == canceled and \
                isinstance(I.handon_thing(c), ast.Name) and \
                I.handon_thing(c).id == param:
            hnodes.add(smap[id(c)].id)
    def has_state(e):
        if isinstance(e, ast.Compare) and len(e.ops) == 1 and \
                isinstance(e.ops[0], (ast.In, ast.NotIn)) and \
                isinstance(e.left, ast.Constant) and e.left.value == 'state' \
                and isinstance(e.comparators[0], ast.Name) and \
                e.comparators[0].id == param:
            return isinstance(e.ops[0], ast.In)
        return None
    ts = TruthUses(f, g, has_state)
    stateful, stateless = ts.hit_edges(), ts.miss_edges()
    starts = [e.dst for nid, lab in hit for e in g.succ[nid] if e.label == lab]
    skipped = _flow_to(g, starts, hnodes, {g.exit.id}, skip_edges=stateless)[0]
    if skipped and hnodes:
        # why is it skipped?  decided only for the inverted `'state' in task`
        inverted = any(set(guards(g, h)) & stateless for h in hnodes)
        other = [t for h in hnodes for t, lab in set(guards(g, h)) - hit
                 - stateful - stateless]
        if not inverted and other:
            raise AnalysisError('UNRECOGNISED-IDIOM %s: the CANCELED hand-on '
                                'is guarded by `%s`' % (f.where, short(
                                    g.nodes[other[0]].ast, 40)))
    rep.check(not skipped, rid, f, 'a listed thing with a state is handed on '
              'as CANCELED before is_canceled answers', construct=
              'is_canceled:hand-on', message='is_canceled can answer for a '
              'thing that is in the cancel list and has a state without '
              'handing it on as CANCELED%s: the callers drop the thing on a '
              'true answer, so it never gets any final state' % (
                  '' if hnodes else ' (there is no such hand-on)'),
              loc=f.loc(), history='cancel request for a task that then '
              'reaches a component intake: the task disappears from the '
              'pipeline, the application waits for its final state forever')
    # a task that is not listed gets a false answer: a falsy return on the
    # miss side, the membership value itself, or the end of the function
    okf = any(set(guards(g, n.id)) & miss for n in falsy) or \
        any(pol for pol in mret.values())
    if not okf:
        after_miss = set()
        for nid, lab in miss:
            for e in g.succ[nid]:
                if e.label == lab:
                    after_miss |= g.reachable(e.dst, labels=NORMAL)
        okf = any((e.src in after_miss or (e.src, e.label) in miss) and
                  not isinstance(g.nodes[e.src].ast, ast.Return)
                  for e in g.pred[g.exit.id] if e.label in NORMAL)
    rep.check(okf, rid, f, 'is_canceled returns False for a uid not in the '
              'list', construct='is_canceled:false',
              message='is_canceled has no `return False` for tasks which are '
              'not in the cancel list', loc=f.loc())


def _canceled_call(e, names=None):
    """(variable, polarity) if expression e decides `self.is_canceled(<var>)`
    (polarity True: e is true when the thing is canceled), else None"""
    e, pol = strip_truth(e)
    if isinstance(e, ast.Call) and call_name(e) == 'self.is_canceled' and \
            len(e.args) == 1 and isinstance(e.args[0], ast.Name) and \
            (names is None or e.args[0].id in names):
        return e.args[0].id, pol
    return None


def benign_edges(f, g):
    """{(test node id, label)}: edges taken when the cancel list is found
    empty - skipping a cancel check on such an edge changes nothing, the
    check would have answered False"""
    out = set()
    for n in g.nodes:
        if n.kind != 'test':
            continue
        e, pol = strip_truth(n.ast)
        # len(L) > 0, len(L) != 0, len(L) >= 1, len(L) == 0, len(L) < 1
        if isinstance(e, ast.Compare) and len(e.ops) == 1 and \
                isinstance(e.comparators[0], ast.Constant) and \
                (type(e.ops[0]), e.comparators[0].value) in (
                    (ast.Gt, 0), (ast.NotEq, 0), (ast.GtE, 1), (ast.Eq, 0),
                    (ast.Lt, 1), (ast.LtE, 0)):
            if isinstance(e.ops[0], (ast.Eq, ast.Lt, ast.LtE)):
                pol = not pol
            e = e.left
        if isinstance(e, ast.Call) and isinstance(e.func, ast.Name) and \
                e.func.id == 'len' and len(e.args) == 1:
            e = e.args[0]
        if is_cancel_list(f, e):
            out.add((n.id, 'F' if pol else 'T'))
    return out


def reads_through_defs(g, expr, node, depth=3):
    """names and self attributes the value of expr at cfg node `node` is
    computed from: what expr reads, local names being followed to the
    definitions that reach the node (flow sensitive, `depth` levels)"""
    out = set()
    for x in walk(expr, nested=True):
        if isinstance(x, ast.Attribute):
            dn = dotted(x)
            if dn.startswith('self.'):
                out.add('.'.join(dn.split('.')[:2]))
        if not (isinstance(x, ast.Name) and isinstance(x.ctx, ast.Load)) or \
                x.id == 'self':
            continue
        out.add(x.id)
        if depth <= 0:
            continue
        for dn, val in reaching_defs(g, x.id, node.id):
            if val is not None:
                out |= reads_through_defs(g, val, dn, depth - 1)
            elif dn.kind == 'for':
                out |= reads_through_defs(g, dn.ast.iter, dn, depth - 1)
            elif dn.kind == 'stmt' and isinstance(dn.ast, ast.AugAssign):
                out |= reads_through_defs(g, dn.ast.value, dn, depth - 1)
            elif dn.kind == 'stmt' and isinstance(dn.ast, ast.Assign):
                out |= reads_through_defs(g, dn.ast.value, dn, depth - 1)
    return out


def _filter_of(f, g):
    """The filter on is_canceled() inside f, in comprehension or loop form:
    dict(ok, construct, src (name of the list filtered), out ('assign', name)
    / ('return', None) / ('other', None), node (cfg node)) or None"""
    smap = I.stmt_node_map(g)
    for n in walk(f.node):
        if not (isinstance(n, ast.ListComp) and any(
                call_name(c) == 'self.is_canceled' for c in calls_in(n))):
            continue
        gen = n.generators[0]
        tv = gen.target.id if isinstance(gen.target, ast.Name) else None
        cc = _canceled_call(gen.ifs[0], {tv}) if len(gen.ifs) == 1 else None
        ok = len(n.generators) == 1 and cc is not None and cc[1] is False \
            and isinstance(n.elt, ast.Name) and n.elt.id == tv
        node = smap.get(id(n))
        out = ('other', None)
        if node is not None and node.kind == 'stmt':
            st = node.ast
            if isinstance(st, ast.Assign) and st.value is n and \
                    len(st.targets) == 1 and isinstance(st.targets[0], ast.Name):
                out = ('assign', st.targets[0].id)
            elif isinstance(st, ast.Return) and st.value is n:
                out = ('return', None)
        return dict(ok=ok, construct=n, node=node, out=out,
                    src=gen.iter.id if isinstance(gen.iter, ast.Name) else None)
    # loop form: for x in things: if self.is_canceled(x): continue
    #            kept.append(x)
    for H in g.nodes:
        if H.kind != 'for':
            continue
        tvs = set(stores_in_target(H.ast.target))
        tu = TruthUses(f, g, lambda e: True if (
            isinstance(e, ast.Call) and call_name(e) == 'self.is_canceled' and
            len(e.args) == 1 and isinstance(e.args[0], ast.Name) and
            e.args[0].id in tvs) else None)
        sites = [(n, lab) for n, lab in tu.sites if H.id in n.loops]
        if not sites:
            continue
        apps = [c for c in calls_in(H.ast)
                if isinstance(c.func, ast.Attribute) and
                c.func.attr == 'append' and len(c.args) == 1 and
                isinstance(c.args[0], ast.Name) and c.args[0].id in tvs and
                isinstance(c.func.value, ast.Name)]
        start = loop_slice(g, H.id)[0]
        ok = False
        kept = None
        if len(apps) == 1 and len(sites) == 1:
            kept = apps[0].func.value.id
            n, lab = sites[0]
            keep_lab = 'F' if lab == 'T' else 'T'
            gs = guards(g, smap[id(apps[0])].id, start=start)
            # the append is controlled by the check alone (and, if the check
            # is bound to a name first, by nothing else)
            ok = gs == [(n.id, keep_lab)]
        return dict(ok=ok, construct='intake-loop', node=H,
                    out=('assign', kept) if kept else ('other', None),
                    src=H.ast.iter.id if isinstance(H.ast.iter, ast.Name)
                    else None)
    return None


def _copies(f, name):
    """names the value of `name` is copied to by plain assignments"""
    out = {name}
    for _ in range(3):
        for n in walk(f.node):
            if isinstance(n, ast.Assign) and isinstance(n.value, ast.Name) and \
                    n.value.id in out:
                for t in n.targets:
                    if isinstance(t, ast.Name):
                        out.add(t.id)
    return out


def _intake_rule(prog, rep, rid, comp):
    f = prog.find_method(comp, 'work_cb')
    rep.saw(f)
    g = cfg_of(f)
    smap = I.stmt_node_map(g)
    d = Deps(f.node)
    hist = ('a cancel request for one task of a bulk: the other tasks of the '
            'bulk are dropped (or the named one is processed)')
    workers = [c for c in calls_in(f.node)
               if 'self._workers' in unparse(c.func) and id(c) in smap]
    fl = _filter_of(f, g)
    where = f
    if fl is not None:
        ok = fl['ok']
        src, fnode = fl['src'], fl['node']
        outname = fl['out'][1] if fl['out'][0] == 'assign' else None
        if fl['out'][0] == 'other' and fl['ok']:
            raise AnalysisError('UNRECOGNISED-IDIOM %s: what becomes of the '
                                'filtered list' % f.where)
        construct = fl['construct']
    else:
        # the filter lives in a helper: things = self._helper(things)
        cands = []
        for c in calls_in(f.node):
            if id(c) not in smap or not call_name(c).startswith('self.'):
                continue
            h = prog.resolve_call(f, c, comp)
            if h is None or h is f or not any(
                    call_name(x) == 'self.is_canceled'
                    for x in calls_in(h.node)):
                continue
            cands.append((c, h))
        if len(cands) != 1:
            raise AnalysisError('UNRECOGNISED-IDIOM %s: intake filter on '
                                'is_canceled not found' % f.where)
        c, h = cands[0]
        rep.saw(h)
        hg = cfg_of(h)
        hf = _filter_of(h, hg)
        params = [p for p in h.params if p != 'self']
        if hf is None or hf['src'] not in params:
            raise AnalysisError('UNRECOGNISED-IDIOM %s: filter on is_canceled '
                                'in the helper' % h.where)
        ok = hf['ok']
        where = h
        # what the helper returns: the filtered list, or the list as it came
        # when the cancel list is empty
        ben = benign_edges(h, hg)
        kept = _copies(h, hf['out'][1]) if hf['out'][0] == 'assign' else set()
        for n in hg.stmt_nodes():
            if n.kind != 'stmt' or not isinstance(n.ast, ast.Return):
                continue
            v = n.ast.value
            if v is hf['construct']:
                continue
            if isinstance(v, ast.Name) and v.id in kept:
                rd = reaching_defs(hg, v.id, n.id)
                if hf['out'][1] != v.id or (len(rd) == 1 and rd[0][1] is
                                            hf['construct']):
                    continue
            if isinstance(v, ast.Name) and v.id == hf['src'] and \
                    set(guards(hg, n.id)) & ben:
                continue
            raise AnalysisError('UNRECOGNISED-IDIOM %s: `%s`' % (
                h.where, short(n.ast, 50)))
        if hf['out'][0] == 'other':
            raise AnalysisError('UNRECOGNISED-IDIOM %s: what becomes of the '
                                'filtered list' % h.where)
        i = params.index(hf['src'])
        a = c.args[i] if i < len(c.args) else kwarg(c, hf['src'])
        src = a.id if isinstance(a, ast.Name) else None
        fnode = smap[id(c)]
        st = fnode.ast
        outname = st.targets[0].id if fnode.kind == 'stmt' and isinstance(
            st, ast.Assign) and st.value is c and len(st.targets) == 1 and \
            isinstance(st.targets[0], ast.Name) else None
        construct = 'intake-helper'
    # the filtered list is the list that is worked on: it replaces the list
    # that was filtered, or it is what the worker is called with
    worked = False
    if src is not None and outname is not None:
        outs = _copies(f, outname)
        worked = src in outs or any(
            isinstance(z, ast.Name) and z.id in outs
            for w in workers for z in w.args)
    # the filter runs whenever the worker runs, unless the cancel list is empty
    strong = True
    if workers and fnode is not None:
        # guards met on the way to the filter: the complement edges
        ben = {(t, 'T' if lab == 'F' else 'F') for t, lab in benign_edges(f, g)}
        gw = set()
        for w in workers:
            gw |= set(guards(g, smap[id(w)].id))
        for t, lab in set(guards(g, fnode.id)) - gw - ben:
            dep = d.expr_depends(g.nodes[t].ast)
            if src in dep or 'self._cancel_list' in dep:
                raise AnalysisError('UNRECOGNISED-IDIOM %s: the intake filter '
                                    'is guarded by `%s`' % (
                                        f.where, short(g.nodes[t].ast, 40)))
            strong = False
    rep.check(ok and worked and strong, rid, where, 'work_cb keeps exactly '
              'the things for which is_canceled() is false', construct=construct,
              message='the intake filter %sdoes not keep exactly the '
              'not-canceled things of the bulk%s' % (
                  '`%s` ' % short(construct, 70)
                  if not isinstance(construct, str) else '',
                  '' if ok else ' (polarity / element)' if ok is False else ''),
              loc=where.loc(construct) if not isinstance(construct, str)
              else where.loc(), history=hist)


def _concat_growth(n):
    """`self._cancel_list = self._cancel_list + X` (or X + ..): X"""
    if isinstance(n, ast.Assign) and len(n.targets) == 1 and \
            unparse(n.targets[0]) == 'self._cancel_list' and \
            isinstance(n.value, ast.BinOp) and \
            isinstance(n.value.op, ast.Add):
        for a, b in ((n.value.left, n.value.right),
                     (n.value.right, n.value.left)):
            if unparse(a) == 'self._cancel_list' and \
                    'self._cancel_list' not in unparse(b):
                return b
    return None


def cancel_list_growth(n):
    """what the cancel list is extended by, if n extends it: `+=`, .extend(),
    .append(), `= self._cancel_list + X`"""
    if isinstance(n, ast.AugAssign) and isinstance(n.op, ast.Add) and \
            unparse(n.target) == 'self._cancel_list':
        return n.value
    if isinstance(n, ast.Call) and isinstance(n.func, ast.Attribute) and \
            n.func.attr in ('extend', 'append') and n.args and \
            unparse(n.func.value) == 'self._cancel_list':
        return n.args[0]
    return _concat_growth(n)


CANCEL_LIST = 'self._cancel_list'

_SAME_ELEMS = ('list', 'tuple', 'sorted', 'set', 'frozenset', 'copy',
               'deepcopy', 'fromkeys', 'OrderedDict', 'deque')
_SHRINKERS = ('remove', 'pop', 'clear', 'discard', 'difference_update',
              'intersection_update', 'popleft')
_GROWERS = ('extend', 'append', 'update', 'add', 'insert', 'appendleft',
            'extendleft')


def _tri(vals):
    """agreement of three-valued answers"""
    vals = list(vals)
    if vals and all(v is True for v in vals):
        return True
    if all(v is False for v in vals):
        return False
    return None


class _HoldsOld:
    """Does the value of an expression hold every uid which the cancel list
    held before the statement?  True / False / None (cannot tell).

    True : the old list itself, a copy of it, a concatenation / union /
           display with a starred part which holds it, an identity
           comprehension over it, a local all of whose reaching definitions
           hold it (and which is only ever extended afterwards)
    False: the old list does not occur in the value at all, or only where it is
           *tested* (`u not in self._cancel_list`, the `if` of a comprehension,
           the test of a conditional expression, len()): such a value holds
           only what the tests let through of the other operands
    None : anything else which mentions the old list"""

    def __init__(self, f):
        self.f = f
        self.g = cfg_of(f)
        self.smap = I.stmt_node_map(self.g)

    # -- names ----------------------------------------------------------------
    def _name(self, e, at, depth):
        if at is None:
            return None
        defs = reaching_defs(self.g, e.id, at.id)
        if not defs:
            return False                  # parameter / global / comp variable
        res = []
        for n, v in defs:
            if v is None:
                if n.kind == 'stmt' and isinstance(n.ast, ast.AugAssign) and \
                        isinstance(n.ast.op, (ast.Add, ast.BitOr)):
                    # x += y: holds what x held, and what y holds
                    a = self._name(e, n, depth + 1)
                    b = self.holds(n.ast.value, n, depth + 1)
                    res.append(True if True in (a, b) else _tri([a, b]))
                elif n.kind == 'for':
                    res.append(False)     # an element, not a list
                else:
                    res.append(None)
            else:
                res.append(self.holds(v, n, depth + 1))
        r = _tri(res)
        # in-place changes of the local between its definition and the use
        for c in walk(self.f.node):
            if isinstance(c, ast.Call) and isinstance(c.func, ast.Attribute) \
                    and isinstance(c.func.value, ast.Name) and \
                    c.func.value.id == e.id:
                if c.func.attr in _SHRINKERS and r is not False:
                    return None
                if c.func.attr in _GROWERS and r is False and any(
                        self.holds(a, self.smap.get(id(c)), depth + 1)
                        is not False for a in c.args):
                    return None
            if isinstance(c, ast.Delete) and r is not False and any(
                    isinstance(t, ast.Subscript) and
                    isinstance(t.value, ast.Name) and t.value.id == e.id
                    for t in c.targets):
                return None
        return r

    # -- fallback: is the old list mentioned where it is not merely tested? ---
    def _mentions(self, e, at, depth):
        if isinstance(e, ast.Compare):
            return False
        if isinstance(e, ast.Call) and isinstance(e.func, ast.Name) and \
                e.func.id in ('len', 'bool', 'any', 'all', 'isinstance'):
            return False
        if unparse(e) == CANCEL_LIST:
            return True
        if isinstance(e, ast.Name):
            return self._name(e, at, depth + 1) is not False
        if isinstance(e, ast.IfExp):
            return self._mentions(e.body, at, depth) or \
                self._mentions(e.orelse, at, depth)
        if isinstance(e, (ast.ListComp, ast.SetComp, ast.GeneratorExp,
                          ast.DictComp)):
            kids = [gen.iter for gen in e.generators]
            kids += [e.key, e.value] if isinstance(e, ast.DictComp) \
                else [e.elt]
            bound = set()
            for gen in e.generators:
                bound |= set(stores_in_target(gen.target))
            return any(self._mentions(k, at, depth) for k in kids
                       if not (isinstance(k, ast.Name) and k.id in bound))
        if isinstance(e, ast.Lambda):
            return True
        kids = [k.value if isinstance(k, ast.keyword) else k
                for k in ast.iter_child_nodes(e)]
        return any(self._mentions(k, at, depth) for k in kids
                   if isinstance(k, ast.expr))

    # -- the decision ---------------------------------------------------------
    def holds(self, e, at, depth=0):
        if depth > 24:
            return None
        if unparse(e) == CANCEL_LIST:
            return True
        if isinstance(e, ast.Name):
            return self._name(e, at, depth)
        if isinstance(e, ast.Call) and not e.keywords and len(e.args) == 1 \
                and not isinstance(e.args[0], ast.Starred) and \
                dotted(e.func).split('.')[-1] in _SAME_ELEMS:
            return self.holds(e.args[0], at, depth + 1)
        if isinstance(e, ast.Call) and isinstance(e.func, ast.Name) and \
                e.func.id == 'sorted' and len(e.args) == 1:
            return self.holds(e.args[0], at, depth + 1)
        if isinstance(e, ast.Call) and isinstance(e.func, ast.Attribute) and \
                not e.keywords:
            if e.func.attr == 'copy' and not e.args:
                return self.holds(e.func.value, at, depth + 1)
            if e.func.attr == 'union':
                parts = [self.holds(x, at, depth + 1)
                         for x in [e.func.value] + list(e.args)]
                return True if True in parts else _tri(parts)
        if isinstance(e, ast.Subscript) and isinstance(e.slice, ast.Slice) and \
                e.slice.lower is None and e.slice.upper is None and \
                e.slice.step is None:
            return self.holds(e.value, at, depth + 1)
        if isinstance(e, ast.BinOp) and isinstance(e.op, (ast.Add, ast.BitOr)):
            parts = [self.holds(e.left, at, depth + 1),
                     self.holds(e.right, at, depth + 1)]
            return True if True in parts else _tri(parts)
        if isinstance(e, ast.BinOp) and isinstance(e.op, (ast.Sub,
                                                          ast.BitAnd)):
            # a difference / intersection holds no more than its left operand
            return False if self.holds(e.left, at, depth + 1) is False \
                else None
        if isinstance(e, (ast.List, ast.Tuple, ast.Set)):
            parts = [self.holds(x.value, at, depth + 1)
                     for x in e.elts if isinstance(x, ast.Starred)]
            if True in parts:
                return True
            parts += [not_(self._mentions(x, at, depth)) for x in e.elts
                      if not isinstance(x, ast.Starred)]
            return _tri([p for p in parts]) if parts else False
        if isinstance(e, (ast.ListComp, ast.SetComp, ast.GeneratorExp)) and \
                len(e.generators) == 1 and not e.generators[0].ifs and \
                isinstance(e.elt, ast.Name) and \
                unparse(e.elt) == unparse(e.generators[0].target):
            return self.holds(e.generators[0].iter, at, depth + 1)
        if isinstance(e, ast.IfExp):
            a = self.holds(e.body, at, depth + 1)
            b = self.holds(e.orelse, at, depth + 1)
            return a if a == b else None
        return None if self._mentions(e, at, depth) else False


def not_(mentioned):
    """three-valued `holds` answer for an operand which is not itself a list
    part: False if the old list is not mentioned in it, None otherwise"""
    return None if mentioned else False


def cancel_list_rebinding(n):
    """n binds self._cancel_list to something other than an empty container"""
    return isinstance(n, ast.Assign) and any(
        unparse(t) == CANCEL_LIST for t in n.targets) and \
        not _empty_container(n.value)


# ------------------------------------------------------------------------------
# R08.1  selection by uid
#
def r08_1(prog, rep, rid='R08.1'):
    rep.rule(rid, 'every removal, cancel hand-on or kill in a cancel handler '
             'is keyed by the uids of the request', minimum=8)
    comp = prog.cls(*COMP)

    # (a) _control_cb: the cancel list grows only by the uids of the message
    f = prog.find_method(comp, '_control_cb')
    rep.saw(f)
    g, brs = cmd_branches(prog, f, 'cancel_tasks')
    if not brs:
        raise AnalysisError('UNRECOGNISED-IDIOM %s: no cancel_tasks branch'
                            % f.where)
    d = Deps(f.node)
    av = arg_var(f)
    smap = I.stmt_node_map(g)
    grows = [n for n in walk(f.node) if cancel_list_growth(n) is not None]
    concat = _concat_growth
    # who may write: apart from its initialisation the list is only ever
    # extended - a re-binding whose value does not hold the old list (a plain
    # `= uids`, or the new uids merely *filtered* against the old list)
    # forgets the requests registered before
    replaced = []
    rebuilt = {}                 # id(Assign) -> value, for re-bindings that
    for m in comp.methods.values():                       # hold the old list
        ho = None
        for n in walk(m.node):
            if cancel_list_rebinding(n):
                if concat(n) is not None:
                    continue
                if ho is None:
                    ho = _HoldsOld(m)
                held = ho.holds(n.value, ho.smap.get(id(n)))
                if held is None:
                    raise AnalysisError('UNRECOGNISED-IDIOM %s: `%s` rebuilds '
                                        'the cancel list' % (m.where,
                                                             short(n, 50)))
                if held:
                    if m is f:
                        rebuilt[id(n)] = n.value
                        grows.append(n)
                    continue
                replaced.append((m, n))
    for m, n in replaced:
        rep.bad(rid, m, n, '%s replaces the cancel list (`%s`) instead of '
                'extending it: the new value does not hold the old list, the '
                'uids of earlier requests which no task has '
                'consumed yet are forgotten%s' % (
                    m.qual, short(n, 50), ' (and the list is now the very '
                    'object of the message payload)' if isinstance(
                        n.value, ast.Name) else ''), m.loc(n),
                history='cancel request for task A, then a cancel request for '
                'task B, both before A reaches the component: A is not in the '
                'list any more and is processed instead of being canceled')
    if not grows and not replaced:
        raise AnalysisError('UNRECOGNISED-IDIOM %s: self._cancel_list never '
                            'grows' % f.where)
    for n in grows:
        val = rebuilt[id(n)] if id(n) in rebuilt else cancel_list_growth(n)
        dep = d.expr_depends(val)
        okay = ("%s['uids']" % av) in dep and smap[id(n)].id in brs[0][1]
        locked = any(any(unparse(i.context_expr) == 'self._cancel_lock'
                         for i in w.items) for w in smap[id(n)].withs)
        rep.check(okay and locked, rid, f, "the cancel list is extended by "
                  "arg['uids'] of a cancel_tasks message, under the lock",
                  construct=n, message="BaseComponent._control_cb extends the "
                  "cancel list with `%s` %s" % (short(val, 40),
                      'outside the cancel_tasks branch or not from '
                      "arg['uids']" if not okay else 'without _cancel_lock'),
                  loc=f.loc(n),
                  history='a control message of another kind (or other uids) '
                  'marks bystander tasks for cancellation')

    # (b) is_canceled
    _is_canceled_rule(prog, rep, rid, comp)

    # (c) the intake filter keeps exactly the things that are not canceled
    _intake_rule(prog, rep, rid, comp)

    # (d) scheduler control_cb: queue hand-over and raptor backlog
    sb = prog.cls(*SBASE)
    f = prog.find_method(sb, 'control_cb')
    rep.saw(f)
    g, brs = cmd_branches(prog, f, 'cancel_tasks')
    if not brs:
        raise AnalysisError('UNRECOGNISED-IDIOM %s: no cancel_tasks branch'
                            % f.where)
    smap = I.stmt_node_map(g)
    d = Deps(f.node)
    av = arg_var(f)
    region = brs[0][1]
    puts = [c for c in calls_in(f.node) if isinstance(c.func, ast.Attribute)
            and c.func.attr == 'put' and '_queue_sched' in
            unparse(c.func.value) and smap[id(c)].id in region]
    okp = len(puts) == 1 and ("%s['uids']" % av) in d.expr_depends(
        puts[0].args[0]) and 'self._CANCEL' in unparse(puts[0].args[0]) and \
        not [x for x in guards(g, smap[id(puts[0])].id)
             if x[0] != brs[0][0].id and
             g.nodes[x[0]].ast is not brs[0][0].ast and x[0] in region]
    rep.check(okp, rid, f, "the scheduler process is told the uids of the "
              "request with the _CANCEL flag", construct='sched:queue',
              message="the scheduler's cancel handler does not forward "
              "arg['uids'] with the _CANCEL flag to the scheduling process "
              "unconditionally", loc=f.loc(),
              history='cancel of a waiting task never reaches the wait pool')
    back_al0 = I.Aliases(prog, None, {f.name: f}, 'self._raptor_tasks')
    # (a generator expression selects the same elements as the list
    # comprehension; that it is evaluated lazily, while the loop which consumes
    # it changes the backlog, is R08.5's business)
    def uncopy(e):
        # list(<selection>) / tuple(..) / sorted(..): the same elements
        while isinstance(e, ast.Call) and isinstance(e.func, ast.Name) and \
                e.func.id in ('list', 'tuple', 'sorted') and \
                len(e.args) == 1 and not e.keywords:
            e = e.args[0]
        return e
    comps = [n for n in walk(f.node)
             if isinstance(n, (ast.ListComp, ast.GeneratorExp)) and
             back_al0.is_rooted_expr(f.name, uncopy(n.generators[0].iter))]
    parent = {}
    for n in walk(f.node):
        if isinstance(n, (ast.Assign, ast.AugAssign)) and \
                uncopy(n.value) in comps:
            parent[id(uncopy(n.value))] = n
    picks, keeps = [], []     # selection by `in`, retention by `not in`
    for lc in comps:
        gen = lc.generators[0]
        cond = gen.ifs[0] if len(gen.ifs) == 1 else None
        keyed = isinstance(cond, ast.Compare) and len(cond.ops) == 1 and \
            isinstance(cond.ops[0], (ast.In, ast.NotIn)) and \
            unparse(cond.left) == "%s['uid']" % unparse(gen.target) and \
            ("%s['uids']" % av) in d.expr_depends(cond.comparators[0]) and \
            unparse(lc.elt) == unparse(gen.target) and \
            len(lc.generators) == 1
        okc = keyed and isinstance(cond.ops[0], ast.In)
        if okc:
            picks.append(lc)
        # the complement, stored back into the very list it was computed
        # from (`backlog[:] = [..not in uids]`), is the removal of the
        # selected tasks
        st = parent.get(id(lc))
        if keyed and not okc and isinstance(st, ast.Assign) and \
                len(st.targets) == 1:
            t = st.targets[0]
            whole = isinstance(t, ast.Subscript) and \
                isinstance(t.slice, ast.Slice) and t.slice.lower is None and \
                t.slice.upper is None and t.slice.step is None
            if (whole and unparse(t.value) == unparse(gen.iter)) or (
                    isinstance(t, ast.Subscript) and not whole and
                    unparse(t) == unparse(gen.iter)):
                keeps.append(lc)
                rep.ok(rid, f, 'raptor backlog: exactly the tasks whose uid '
                       'is not in the request are kept (`%s`)' % short(st, 60),
                       f.loc(lc))
                continue
        rep.check(okc, rid, f, "raptor backlog: exactly the tasks whose uid is "
                  "in the request are selected", construct=lc,
                  message="the raptor backlog filter `%s` does not select "
                  "exactly the tasks named in the request" % short(lc, 70),
                  loc=f.loc(lc),
                  history='cancel of task A removes bystander raptor tasks '
                  'from the backlog')
    # what is removed from the backlog is what is reported canceled: every
    # element collected for the CANCELED hand-on comes from the filtered
    # selection, and every selected element is removed from the backlog
    hands = [c for c in calls_in(f.node) if I.is_handon(c) and
             smap[id(c)].id in region]
    okr = False
    why = 'no CANCELED hand-on of a collected list'
    if len(hands) == 1 and isinstance(I.handon_thing(hands[0]), ast.Name) and \
            I.handon_state(prog, f, hands[0]) == prog.const('states.py',
                                                            'CANCELED'):
        L = I.handon_thing(hands[0]).id
        # the handed list may be a plain copy of the name it was collected
        # under (`to_cancel = popped`)
        Ls = {L}
        for _ in range(3):
            for n in walk(f.node):
                if isinstance(n, ast.Assign) and len(n.targets) == 1 and \
                        isinstance(n.targets[0], ast.Name) and \
                        n.targets[0].id in Ls and isinstance(n.value, ast.Name):
                    Ls.add(n.value.id)
        sel = set()          # names holding the filtered selection
        for n in walk(f.node):
            if isinstance(n, ast.Assign) and uncopy(n.value) in comps and \
                    isinstance(n.targets[0], ast.Name):
                sel.add(n.targets[0].id)
        back_al = I.Aliases(prog, None, {f.name: f}, 'self._raptor_tasks')

        def over_sel(node):
            """loop variable names of enclosing loops that iterate the
            selection"""
            out = set()
            for h in node.loops:
                hn = g.nodes[h]
                if hn.kind != 'for':
                    continue
                it = uncopy(hn.ast.iter)
                if (isinstance(it, ast.Name) and it.id in sel) or \
                        it in picks:
                    out |= set(stores_in_target(hn.ast.target))
            return out
        collected = removed = False
        stray = []
        for cc in calls_in(f.node):
            if id(cc) not in smap or smap[id(cc)].id not in region:
                continue
            n = smap[id(cc)]
            if isinstance(cc.func, ast.Attribute) and \
                    unparse(cc.func.value) in Ls:
                if cc.func.attr == 'extend' and cc.args and \
                        isinstance(cc.args[0], ast.Name) and \
                        cc.args[0].id in sel:
                    collected = True
                elif cc.func.attr == 'append' and cc.args and \
                        isinstance(cc.args[0], ast.Name) and \
                        cc.args[0].id in over_sel(n) and \
                        not [x for x in guards(g, n.id) if x[0] in
                             g.loop_body[n.loops[-1]]]:
                    collected = True
                elif cc.func.attr in ('append', 'extend', 'insert'):
                    stray.append(cc)
            if isinstance(cc.func, ast.Attribute) and \
                    cc.func.attr == 'remove' and \
                    back_al.is_rooted_expr(f.name, cc.func.value):
                if cc.args and isinstance(cc.args[0], ast.Name) and \
                        cc.args[0].id in over_sel(n) and \
                        not [x for x in guards(g, n.id) if x[0] in
                             g.loop_body[n.loops[-1]]]:
                    removed = True
                else:
                    stray.append(cc)
        for n in walk(f.node):
            if isinstance(n, ast.AugAssign) and unparse(n.target) in Ls and \
                    ((isinstance(n.value, ast.Name) and n.value.id in sel) or
                     n.value in picks):
                collected = True
        for cc in calls_in(f.node):
            if isinstance(cc.func, ast.Attribute) and cc.func.attr == 'extend' \
                    and unparse(cc.func.value) in Ls and cc.args and \
                    cc.args[0] in picks:
                collected = True
                if cc in stray:
                    stray.remove(cc)
        # partition form: the selection is evaluated first, then the backlog
        # is overwritten by its complement - same list, same iteration,
        # nothing in between that could skip one of the two
        for lc in keeps:
            kn = smap[id(lc)]
            it = unparse(lc.generators[0].iter)
            mates = [smap[id(pc)] for pc in picks
                     if unparse(pc.generators[0].iter) == it and
                     smap[id(pc)].loops == kn.loops]
            start = loop_slice(g, kn.loops[-1])[0] if kn.loops else g.entry.id
            inner = g.loop_body[kn.loops[-1]] if kn.loops else None
            free = lambda x: not [y for y in guards(g, x.id)
                                  if inner is not None and y[0] in inner]
            if mates and free(kn) and all(free(m) for m in mates) and \
                    must_pass(g, start, kn.id, [m.id for m in mates]):
                removed = True
            else:
                stray.append(parent[id(lc)])
        # the list handed on is built by a helper this rule does not follow
        for n in walk(f.node):
            if isinstance(n, ast.Assign) and any(
                    isinstance(t, ast.Name) and t.id in Ls for t in n.targets) \
                    and isinstance(n.value, ast.Call) and \
                    call_name(n.value).startswith('self.') and \
                    not I.is_handon(n.value) and prog.resolve_call(
                        f, n.value, sb) is not None and not collected:
                raise AnalysisError('UNRECOGNISED-IDIOM %s: the tasks handed '
                                    'on as CANCELED are collected by %s'
                                    % (f.where, call_name(n.value)))
        any_coll = any(isinstance(cc.func, ast.Attribute) and
                       unparse(cc.func.value) in Ls and cc.func.attr in
                       ('append', 'extend') for cc in calls_in(f.node))
        any_rem = any(isinstance(cc.func, ast.Attribute) and
                      cc.func.attr in ('remove', 'pop') and
                      back_al.is_rooted_expr(f.name, cc.func.value)
                      for cc in calls_in(f.node)) or any(
            isinstance(x, ast.Delete) and back_al.is_rooted_expr(
                f.name, x.targets[0]) for x in walk(f.node))
        if not (collected and removed and not stray) and any_coll and any_rem \
                and not sel and not picks:
            # collection and removal exist but the selection is not built
            # the way the recogniser knows (helper, explicit loop, ..)
            raise AnalysisError('UNRECOGNISED-IDIOM %s: raptor backlog '
                                'selection/removal in the cancel branch'
                                % f.where)
        okr = collected and removed and not stray
        why = ('selected tasks are %s%s' % (
            'not all collected for the hand-on' if not collected else
            'not all removed from the backlog' if not removed else
            'collected/removed', '; other elements are added/removed too: %s'
            % [short(x, 40) for x in stray] if stray else ''))
    rep.check(okr, rid, f, 'raptor backlog: exactly the selected tasks are '
              'removed and handed on as CANCELED', construct='sched:raptor-pair',
              message='in the raptor backlog branch of the scheduler cancel '
              'handler %s' % why, loc=f.loc(),
              history='a backlog task is removed without a final state, or '
              'reported CANCELED and later forwarded to raptor')

    # (e) executor control_cb
    eb = prog.cls(*EBASE)
    f = prog.find_method(eb, 'control_cb')
    rep.saw(f)
    g, brs = cmd_branches(prog, f, 'cancel_tasks')
    if not brs:
        raise AnalysisError('UNRECOGNISED-IDIOM %s: no cancel_tasks branch'
                            % f.where)
    smap = I.stmt_node_map(g)
    d = Deps(f.node)
    av = arg_var(f)
    cts = [c for c in calls_in(f.node) if call_name(c) == 'self.cancel_task'
           and smap[id(c)].id in brs[0][1]]
    if not cts:
        rep.bad(rid, f, 'exec:no-cancel', 'the executor ignores cancel_tasks '
                'requests', f.loc(), history='cancel of a running task has '
                'no effect')
    for c in cts:
        a = c.args[0] if c.args else kwarg(c, 'task')
        n = smap[id(c)]
        src = None
        if isinstance(a, ast.Name):
            for s in walk(f.node):
                if isinstance(s, ast.Assign) and any(
                        isinstance(t, ast.Name) and t.id == a.id
                        for t in s.targets) and isinstance(s.value, ast.Call) \
                        and call_name(s.value) == 'self.get_task' and \
                        smap[id(s)].id in brs[0][1]:
                    src = s.value
        loopvars = set()
        for h in n.loops:
            if g.nodes[h].kind == 'for' and ("%s['uids']" % av) in \
                    d.expr_depends(g.nodes[h].ast.iter):
                loopvars |= set(stores_in_target(g.nodes[h].ast.target))
        okay = src is not None and src.args and \
            isinstance(src.args[0], ast.Name) and src.args[0].id in loopvars
        # (get_task answers the task or None)
        truthy = False
        for t, lab in guards(g, n.id):
            te, pol = _strip_none(g.nodes[t].ast)
            if isinstance(a, ast.Name) and isinstance(te, ast.Name) and \
                    te.id == a.id and lab == ('T' if pol else 'F'):
                truthy = True
        rep.check(okay and truthy, rid, f, 'cancel_task is called for '
                  "get_task(uid) with uid iterating arg['uids'], when found",
                  construct=c, message='the executor calls cancel_task(`%s`) '
                  'for something that is not the task looked up by a uid of '
                  'the request' % short(a, 30), loc=f.loc(c),
                  history='cancel of task A kills the process of task B')

    # (f) Popen.cancel_task kills the process of the task it was given
    po = prog.cls(*POPEN)
    f = prog.find_method(po, 'cancel_task')
    rep.saw(f)
    d = Deps(f.node)
    param = [p for p in f.params if p != 'self'][0]
    kills = [c for c in calls_in(f.node) if isinstance(c.func, ast.Attribute)
             and c.func.attr == 'cancel_task' and
             unparse(c.func.value) != 'self']
    if not kills:
        rep.bad(rid, f, 'popen:no-kill', 'Popen.cancel_task does not ask the '
                'launch method to kill the process', f.loc(),
                history='a canceled task keeps running on cores that are '
                'released')
    for c in kills:
        okay = len(c.args) >= 2 and isinstance(c.args[0], ast.Name) and \
            c.args[0].id == param and param in d.expr_depends(c.args[1]) and \
            ("%s.get('proc')" % param in unparse(f.node) or
             "%s['proc']" % param in unparse(f.node)) and \
            'pid' in unparse(c.args[1])
        rep.check(okay, rid, f, 'the launcher is asked to kill the pid of the '
                  "given task's process", construct=c,
                  message='Popen.cancel_task kills `%s`, which is not the '
                  "process of the task it was given" % short(c, 60),
                  loc=f.loc(c))
    lm = prog.cls(*LM)
    f = prog.find_method(lm, 'cancel_task')
    rep.saw(f)
    pidp = f.params[-1]
    ks = [c for c in calls_in(f.node) if call_name(c) in ('os.killpg',
                                                          'os.kill')]
    rep.check(bool(ks) and all(c.args and isinstance(c.args[0], ast.Name) and
                               c.args[0].id == pidp for c in ks), rid, f,
              'LaunchMethod.cancel_task signals exactly the pid it was given',
              construct='lm:kill', message='LaunchMethod.cancel_task does not '
              'signal (only) the process id it was given', loc=f.loc(),
              history='cancel kills another process group (or nothing)')


# ------------------------------------------------------------------------------
# R08.3  cancel ends as CANCELED
#
def r08_3(prog, rep, rid='R08.3'):
    rep.rule(rid, 'the cancel path of the executor records CANCELED as target '
             'state', minimum=1)
    po = prog.cls(*POPEN)
    f = prog.find_method(po, 'cancel_task')
    g = cfg_of(f)
    smap = I.stmt_node_map(g)
    param = [p for p in f.params if p != 'self'][0]
    canceled = prog.const('states.py', 'CANCELED')
    sets = [n for n in g.stmt_nodes() if n.kind == 'stmt' and
            isinstance(n.ast, ast.Assign) and any(
                isinstance(t, ast.Subscript) and
                isinstance(t.slice, ast.Constant) and
                t.slice.value == 'target_state' and root_name(t) == param
                for t in n.ast.targets)]
    hands = [smap[id(c)] for c in calls_in(f.node) if I.is_handon(c)]
    okay = bool(sets) and all(prog.fold(f.module, n.ast.value) == canceled
                              for n in sets) and all(
        must_pass(g, g.entry.id, h.id, [n.id for n in sets]) for h in hands)
    rep.check(okay, rid, f, "cancel_task sets task['target_state'] = CANCELED "
              'before the hand-on', construct='target_state',
              message="Popen.cancel_task hands the task on without "
              "target_state = CANCELED (values: %s)" % [
                  short(n.ast.value, 20) for n in sets], loc=f.loc(),
              history='a canceled task ends as DONE or FAILED')


# ------------------------------------------------------------------------------
# R08.4  message key agreement
#
def publishers(prog):
    """all dict literals {'cmd': <str>, 'arg': {...}, ...} in the package:
    cmd -> [(func, dict node, set(arg keys) or None, fwd value)]"""
    out = {}
    for m in prog.modules.values():
        funcs = list(m.funcs.values())
        for c in m.classes.values():
            funcs += list(c.methods.values())
        for f in funcs:
            for n in walk(f.node, nested=True):
                if not isinstance(n, ast.Dict):
                    continue
                keys = {k.value: v for k, v in zip(n.keys, n.values)
                        if isinstance(k, ast.Constant)}
                if 'cmd' not in keys or not isinstance(keys['cmd'],
                                                       ast.Constant):
                    continue
                arg = keys.get('arg')
                akeys = None
                if isinstance(arg, ast.Dict):
                    akeys = {k.value for k in arg.keys
                             if isinstance(k, ast.Constant)}
                fwd = keys.get('fwd')
                out.setdefault(keys['cmd'].value, []).append(
                    (f, n, akeys, fwd.value if isinstance(fwd, ast.Constant)
                     else (None if fwd is None else UNKNOWN)))
    return out


def handlers(prog):
    """cmd -> [(func, set(keys read from arg in the branch))] for handlers
    named control_cb / _control_cb / _state_cb ..."""
    out = {}
    for m in prog.modules.values():
        funcs = []
        for c in m.classes.values():
            funcs += list(c.methods.values())
        for f in funcs:
            if not f.name.endswith('_cb'):
                continue
            av = arg_var(f)
            if not av:
                continue
            g = cfg_of(f)
            smap = I.stmt_node_map(g)
            for n in g.nodes:
                ct = _cmd_test(n)
                if ct and unparse(n.ast.left) == cmd_var(f):
                    cmd = ct[0]
                    t = [e.dst for e in g.succ[n.id] if e.label == ct[1]]
                    ff = [e.dst for e in g.succ[n.id]
                          if e.label in ('T', 'F') and e.label != ct[1]]
                    rt, rf = set(), set()
                    for s in t:
                        rt |= g.reachable(s)
                    for s in ff:
                        rf |= g.reachable(s)
                    region = rt - rf
                    keys = set()
                    for x in walk(f.node):
                        if isinstance(x, ast.Subscript) and \
                                isinstance(x.value, ast.Name) and \
                                x.value.id == av and \
                                isinstance(x.slice, ast.Constant) and \
                                isinstance(x.ctx, ast.Load) and \
                                id(x) in smap and smap[id(x)].id in region:
                            keys.add(x.slice.value)
                    out.setdefault(cmd, []).append((f, keys))
    return out


def r08_4(prog, rep, rid='R08.4', sweep=False):
    rep.rule(rid, "keys a cancel_tasks handler reads from arg are written by "
             "the publisher; TaskManager.cancel_tasks forwards the request",
             minimum=4)
    pubs = publishers(prog)
    hnds = handlers(prog)
    cmds = ['cancel_tasks'] if not sweep else sorted(hnds)
    for cmd in cmds:
        ps = pubs.get(cmd, [])
        written = set()
        open_ = False
        for f, n, akeys, fwd in ps:
            if akeys is None:
                open_ = True
            else:
                written |= akeys
        for f, keys in hnds.get(cmd, []):
            if sweep and (open_ or not ps):
                rep.info(rid + 's', f, 'cmd %r: publisher keys not literal; '
                         'handler reads %s' % (cmd, sorted(keys)))
                continue
            miss = keys - written
            rr = rid if not sweep else rid + 's'
            rep.check(not miss, rr, f, "handler of %r reads arg keys %s, all "
                      "written by a publisher" % (cmd, sorted(keys)),
                      construct='%s:%s' % (cmd, f.qual),
                      message="%s reads arg[%s] of a %r message, which no "
                      "publisher of that command writes (written: %s): the "
                      "handler raises KeyError and the request is lost"
                      % (f.qual, ', '.join(repr(k) for k in sorted(miss)), cmd,
                         sorted(written)), loc=f.loc(),
                      history='every %s request makes this handler raise' % cmd)
    if not sweep:
        tm = prog.cls(*TMGR)
        f = prog.find_method(tm, 'cancel_tasks')
        rep.saw(f)
        mine = [p for p in pubs.get('cancel_tasks', []) if p[0] is f]
        okay = len(mine) == 1 and mine[0][3] is True and \
            'uids' in (mine[0][2] or set())
        rep.check(okay, rid, f, "TaskManager.cancel_tasks publishes "
                  "{'cmd': 'cancel_tasks', 'arg': {'uids': ..}, 'fwd': True}",
                  construct='tmgr:cancel_tasks', message="TaskManager."
                  "cancel_tasks does not publish the request with the uids "
                  "and fwd=True: it never reaches the pilots", loc=f.loc(),
                  history='task.cancel() on a running task has no effect on '
                  'the agent side')
        # the uids published derive from the argument (or all tasks if none)
        if mine:
            d = Deps(f.node)
            argd = mine[0][1]
            inner = [v for k, v in zip(argd.keys, argd.values)
                     if isinstance(k, ast.Constant) and k.value == 'arg'][0]
            uv = [v for k, v in zip(inner.keys, inner.values)
                  if isinstance(k, ast.Constant) and k.value == 'uids']
            p = [x for x in f.params if x != 'self'][0]
            rep.check(bool(uv) and (p in d.expr_depends(uv[0]) or
                                    unparse(uv[0]) == p), rid, f,
                      'the uids published are the uids given', construct='tmgr:'
                      'uids', message='the uids published by cancel_tasks do '
                      'not derive from its argument', loc=f.loc())


# ------------------------------------------------------------------------------
# R08.5  cancel handlers do not mutate the container they iterate
#
CANCEL_SITES = [(SBASE, 'control_cb'), (SBASE, '_schedule_incoming'),
                (EBASE, 'control_cb'), (POPEN, '_check_running'),
                (POPEN, 'cancel_task'), (COMP, '_control_cb'),
                (COMP, 'is_canceled')]


def r08_5(prog, rep, rid='R08.5', sweep=False):
    rep.rule(rid, 'the loops of the cancel handlers do not remove from / add '
             'to the container they are iterating (an element next to a '
             'removed one would be skipped: a named task stays behind)',
             minimum=len(CANCEL_SITES))
    sites = []
    for anchor, mname in CANCEL_SITES:
        sites.append(prog.find_method(prog.cls(*anchor), mname))
    if sweep:
        sites = []
        for m in prog.modules.values():
            for f in m.funcs.values():
                sites.append(f)
            for k in m.classes.values():
                sites += list(k.methods.values())
    for f in sites:
        if f is None:
            raise AnalysisError('R08.5: anchor missing')
        muts = I.iterated_container_mutations(f)
        if sweep:
            for loop, it, hit in lazy_iterated_mutations(f):
                rep.info(rid + 's', f, 'loop over the lazy `%s` mutates its '
                         'source: `%s`' % (short(it, 40), short(hit, 50)),
                         f.loc(hit))
            for loop, hit in muts:
                rep.info(rid + 's', f, 'loop over `%s` mutates it: `%s`'
                         % (short(loop.iter, 40), short(hit, 50)),
                         f.loc(hit))
            continue
        rep.saw(f)
        lazy = lazy_iterated_mutations(f)
        if not muts and not lazy:
            rep.ok(rid, f, '%s: no loop mutates the container it iterates'
                   % f.qual, f.loc())
        for loop, it, hit in lazy:
            rep.bad(rid, f, hit, '%s iterates `%s`, which is evaluated lazily '
                    '(it reads `%s` element by element while the loop runs), '
                    'and executes `%s` inside the loop without leaving it: '
                    'the container changes under the iterator, the element '
                    'following a removed one is skipped' % (
                        f.qual, short(it, 60), ', '.join(sorted(
                            _lazy_sources(it))), short(hit, 50)), f.loc(hit),
                    history='cancel request naming two tasks which are '
                    'adjacent in the raptor backlog (rt.0, rt.1 of rt.0, '
                    'rt.1, rt.2): after rt.0 is removed the iterator skips '
                    'rt.1; it stays in the backlog, is not reported CANCELED '
                    'and is relayed to the raptor master later')
        for loop, hit in muts:
            rep.bad(rid, f, hit, '%s iterates `%s` and executes `%s` inside '
                    'the loop without leaving it: the element following a '
                    'removed one is skipped' % (f.qual, short(loop.iter, 40),
                                                short(hit, 50)), f.loc(hit),
                    history='cancel request naming two tasks which are '
                    'adjacent in the backlog: the second one is not removed, '
                    'is not reported CANCELED and is later started')


_WPF = {}


def _waitpool_funcs(prog):
    """methods of the agent scheduler classes that mention the wait pool"""
    if id(prog) not in _WPF:
        _WPF.clear()
        sb = prog.cls(*SBASE)
        funcs = []
        for k in [sb] + [c for c in prog.subclasses(sb, strict=True)]:
            for f in k.methods.values():
                if f not in funcs and any(
                        isinstance(x, ast.Attribute) and x.attr == '_waitpool'
                        for x in ast.walk(f.node)):
                    funcs.append(f)
        _WPF[id(prog)] = (prog, funcs)
    return _WPF[id(prog)][1]


# ------------------------------------------------------------------------------
# R08.6  a task that enters the wait pool is checked against the cancel list
#
POOL = 'self._waitpool'


def _pool_names(f):
    """local names bound to one priority level of the wait pool:
    `pool = self._waitpool[p]`, `.get(p)`, `.setdefault(p, ..)`,
    `for p, pool in self._waitpool.items()`, `for pool in ...values()`"""
    out = set()

    def level(e):
        if isinstance(e, ast.Subscript) and unparse(e.value) == POOL:
            return True
        return isinstance(e, ast.Call) and isinstance(e.func, ast.Attribute) \
            and e.func.attr in ('get', 'setdefault') and \
            unparse(e.func.value) == POOL
    for n in walk(f.node):
        if isinstance(n, ast.Assign) and level(n.value):
            for t in n.targets:
                if isinstance(t, ast.Name):
                    out.add(t.id)
        elif isinstance(n, (ast.For, ast.comprehension)) and \
                isinstance(n.iter, ast.Call) and \
                isinstance(n.iter.func, ast.Attribute) and \
                unparse(n.iter.func.value) == POOL:
            if n.iter.func.attr == 'values' and isinstance(n.target, ast.Name):
                out.add(n.target.id)
            elif n.iter.func.attr == 'items' and \
                    isinstance(n.target, ast.Tuple) and \
                    len(n.target.elts) == 2 and \
                    isinstance(n.target.elts[1], ast.Name):
                out.add(n.target.elts[1].id)
    return out


def _is_pool_level(e, pools):
    """expression denotes self._waitpool[<priority>]"""
    if isinstance(e, ast.Name):
        return e.id in pools
    if isinstance(e, ast.Subscript):
        return unparse(e.value) == POOL
    return isinstance(e, ast.Call) and isinstance(e.func, ast.Attribute) and \
        e.func.attr in ('get', 'setdefault') and unparse(e.func.value) == POOL


def _empty_container(e):
    if isinstance(e, (ast.Dict, ast.List, ast.Set, ast.Tuple)):
        return not (getattr(e, 'keys', None) or getattr(e, 'elts', None))
    if not isinstance(e, ast.Call) or e.keywords:
        return False
    fn = dotted(e.func).split('.')[-1]
    if fn == 'defaultdict':               # argument: the factory
        return all(isinstance(a, (ast.Name, ast.Lambda)) for a in e.args[:1]) \
            and len(e.args) <= 1
    return fn in ('dict', 'OrderedDict', 'list', 'set', 'deque') and \
        all(_empty_container(a) for a in e.args)


def _stores_name(n, name):
    """cfg node (re-)binds the plain name"""
    if n.ast is None:
        return False
    if n.kind == 'for':
        return name in stores_in_target(n.ast.target)
    if n.kind == 'with':
        return any(i.optional_vars is not None and
                   name in stores_in_target(i.optional_vars)
                   for i in n.ast.items)
    if n.kind == 'handler':
        return getattr(n.ast, 'name', None) == name
    if n.kind == 'stmt':
        if isinstance(n.ast, ast.Assign):
            return any(name in stores_in_target(t) for t in n.ast.targets)
        if isinstance(n.ast, (ast.AugAssign, ast.AnnAssign)):
            return name in stores_in_target(n.ast.target)
        if isinstance(n.ast, ast.Delete):
            return any(isinstance(t, ast.Name) and t.id == name
                       for t in n.ast.targets)
    return False


def _flow_to(g, starts, via, targets, skip_edges=()):
    """ids of `targets` that are reached from `starts` along normal edges
    without passing a node of `via` (edges in skip_edges are not taken)"""
    seen, hit = set(), set()
    todo = list(starts)
    while todo:
        x = todo.pop()
        if x in seen:
            continue
        seen.add(x)
        if x in via:
            continue
        if x in targets:
            hit.add(x)
            continue
        for e in g.succ[x]:
            if e.label in NORMAL and (e.src, e.label) not in skip_edges:
                todo.append(e.dst)
    return hit, seen


def _value_at(g, e, node, same=(), canon=None):
    """source text of e, a plain name being replaced by its only reaching
    definition; names in `same` (plain copies of one value) are spelled
    `canon`"""
    if isinstance(e, ast.Name) and e.id not in same:
        rd = reaching_defs(g, e.id, node.id)
        if len(rd) == 1 and rd[0][1] is not None:
            e = rd[0][1]
    if same:
        e = copy.deepcopy(e)
        for x in ast.walk(e):
            if isinstance(x, ast.Name) and x.id in same:
                x.id = canon
    return unparse(e)


def waitpool_insertions(f, g, d):
    """[(cfg node, container expr, key expr, value expr)] for every store of
    one element into a priority level of the wait pool inside f.  Replacing a
    whole level by a mapping computed from the pool itself (re-filing what
    already waits) or by an empty container is not an insertion."""
    pools = _pool_names(f)
    smap = I.stmt_node_map(g)
    out = []
    for n in g.nodes:
        if n.kind != 'stmt':
            continue
        if isinstance(n.ast, ast.Assign):
            for t in n.ast.targets:
                if not isinstance(t, ast.Subscript):
                    continue
                if _is_pool_level(t.value, pools):
                    out.append((n, t.value, t.slice, n.ast.value))
                elif unparse(t.value) == POOL:
                    v = n.ast.value
                    if not (_empty_container(v) or
                            POOL in d.expr_depends(v)):
                        raise AnalysisError(
                            'UNRECOGNISED-IDIOM %s: `%s` replaces a level of '
                            'the wait pool' % (f.where, short(n.ast, 50)))
        for c in calls_in(n.ast):
            if not isinstance(c.func, ast.Attribute) or \
                    c.func.attr not in ('setdefault', 'update', '__setitem__'):
                continue
            if _is_pool_level(c.func.value, pools):
                if c.func.attr in ('setdefault', '__setitem__') and \
                        len(c.args) == 2:
                    out.append((n, c.func.value, c.args[0], c.args[1]))
                else:
                    raise AnalysisError(
                        'UNRECOGNISED-IDIOM %s: `%s` on the wait pool'
                        % (f.where, short(c, 50)))
            elif unparse(c.func.value) == POOL and not (
                    c.func.attr == 'setdefault' and len(c.args) == 2 and
                    _empty_container(c.args[1])):
                raise AnalysisError('UNRECOGNISED-IDIOM %s: `%s` on the wait '
                                    'pool' % (f.where, short(c, 50)))
    return out


def r08_6(prog, rep, rid='R08.6'):
    rep.rule(rid, 'a task that is put into the wait pool is checked against '
             'the cancel list (is_canceled) on every path - whatever else '
             'happened in that call - and is taken out again when the answer '
             'is true', minimum=1)
    funcs = _waitpool_funcs(prog)
    hist = ('the nodes are full.  The cancel request for a task that is still '
            'on its way to the scheduler process is pulled from the queue in '
            'one call of _schedule_incoming (the task is not in the wait pool '
            'yet: nothing to remove).  The task arrives in a later call, '
            'cannot be placed and is put into the wait pool without the '
            'check: it waits, is placed when resources are released, and runs '
            'although it was canceled')
    for f in funcs:
        g = cfg_of(f)
        d = Deps(f.node)
        ins = waitpool_insertions(f, g, d)
        if not ins:
            continue
        rep.saw(f)
        pools = _pool_names(f)
        ben = benign_edges(f, g)
        for n, cont, key, val in ins:
            if not isinstance(val, ast.Name):
                raise AnalysisError('UNRECOGNISED-IDIOM %s: `%s` puts something '
                                    'into the wait pool that is not a plain '
                                    'name' % (f.where, short(n.ast, 50)))
            v = val.id
            # the task may be known under a plain copy of the name
            pairs = [(t.id, x.value.id) for x in walk(f.node)
                     if isinstance(x, ast.Assign) and
                     isinstance(x.value, ast.Name)
                     for t in x.targets if isinstance(t, ast.Name)]
            same = {v}
            for _ in range(3):
                for a, b in pairs:
                    if a in same or b in same:
                        same |= {a, b}
            tu = TruthUses(f, g, lambda e: True if (
                isinstance(e, ast.Call) and
                call_name(e) == 'self.is_canceled' and len(e.args) == 1 and
                isinstance(e.args[0], ast.Name) and e.args[0].id in same)
                else None)
            rebinds = {x.id for x in g.nodes if _stores_name(x, v)}
            ends = rebinds | {g.exit.id}
            evals = {x.id for x in tu.evals}
            starts = [e.dst for e in g.succ[n.id] if e.label in NORMAL]
            what = '`%s`' % short(n.ast, 50)
            # (a) the check dominates the insertion: the task is inserted
            # only on the "not canceled" edge of a check of the same binding
            before = False
            gn = set(guards(g, n.id))
            for tn, lab in tu.sites:
                miss = 'F' if lab == 'T' else 'T'
                if (tn.id, miss) not in gn:
                    continue
                between = False
                after = set()
                for e in g.succ[tn.id]:
                    if e.label == miss:
                        after |= g.reachable(e.dst, skip_nodes={tn.id, n.id},
                                             labels=NORMAL)
                for rb in rebinds & after:
                    if n.id in g.reachable(rb, skip_nodes={tn.id},
                                           labels=NORMAL):
                        between = True
                if not between:
                    before = True
            if before:
                rep.ok(rid, f, '%s: only on the not-canceled edge of '
                       'is_canceled(%s)' % (what, v), f.loc(n.ast))
                continue
            # (b) the check follows the insertion on every path
            kv = _value_at(g, key, n, same, v)
            # `<key> in <the pool>` right after the insertion is true
            skip = set(ben)
            for x in g.nodes:
                if x.kind == 'test' and isinstance(x.ast, ast.Compare) and \
                        len(x.ast.ops) == 1 and \
                        isinstance(x.ast.ops[0], (ast.In, ast.NotIn)) and \
                        _is_pool_level(x.ast.comparators[0], pools) and \
                        _value_at(g, x.ast.left, x, same, v) == kv:
                    skip.add((x.id, 'F' if isinstance(x.ast.ops[0], ast.In)
                              else 'T'))
            missed, seen = _flow_to(g, starts, evals, ends, skip_edges=skip)
            # what can happen to this binding of the task after the insertion
            scope = _flow_to(g, starts, rebinds, set())[1]
            after_evals = evals & scope
            if missed:
                if not after_evals:
                    later = _flow_to(g, starts, set(), set())[1]
                    if any(call_name(c) == 'self.is_canceled'
                           for x in later if g.nodes[x].ast is not None
                           for c in calls_in(
                               g.nodes[x].ast.iter if g.nodes[x].kind == 'for'
                               else g.nodes[x].ast)
                           if g.nodes[x].kind in ('stmt', 'test', 'for')):
                        raise AnalysisError(
                            'UNRECOGNISED-IDIOM %s: %s is followed by a '
                            'cancel check of something else than `%s`'
                            % (f.where, what, v))
                    helpers = [c for c in calls_in(f.node)
                               if call_name(c).startswith('self.') and
                               any(isinstance(a, ast.Name) and a.id == v
                                   for a in c.args) and id(c) in
                               I.stmt_node_map(g) and
                               I.stmt_node_map(g)[id(c)].id in seen]
                    for c in helpers:
                        h = prog.resolve_call(f, c, f.cls)
                        if h is not None and any(
                                call_name(x) == 'self.is_canceled'
                                for x in calls_in(h.node)):
                            raise AnalysisError(
                                'UNRECOGNISED-IDIOM %s: the cancel check of '
                                'a task put into the wait pool is inside %s'
                                % (f.where, h.qual))
                    rep.bad(rid, f, n.ast, '%s puts `%s` into the wait pool '
                            '(%s) and never asks is_canceled(%s) afterwards: '
                            'a task whose cancel request was consumed before '
                            'it arrived stays in the pool and is started later'
                            % (f.qual, v, what, v), f.loc(n.ast), history=hist)
                    continue
                extra = set()
                for x in after_evals:
                    extra |= set(guards(g, x)) - gn
                extra -= {(t, 'T' if lab == 'F' else 'F') for t, lab in skip}
                # a guard that looks at the task, its key or the pool may
                # be "conditional on the insertion itself": not decided here
                related = {v, POOL} | pools | names_in(key)
                related.discard('self')
                unrel = [t for t, lab in extra if not (
                    reads_through_defs(g, g.nodes[t].ast, g.nodes[t])
                    & related)]
                if not extra or len(unrel) != len(extra):
                    raise AnalysisError(
                        'UNRECOGNISED-IDIOM %s: is_canceled(%s) after %s is '
                        'not evaluated on every path (guards: %s)' % (
                            f.where, v, what,
                            [short(g.nodes[t].ast, 30) for t, lab in extra]))
                rep.bad(rid, f, n.ast, '%s puts `%s` into the wait pool (%s) '
                        'but asks is_canceled(%s) only when %s - a condition '
                        'that says nothing about this task: when it does not '
                        'hold, a task whose cancel request was consumed '
                        'earlier (its uid is still in the cancel list) stays '
                        'in the pool, is placed later and runs' % (
                            f.qual, v, what, v, ' and '.join(sorted(
                                '`%s` is %s' % (short(g.nodes[t].ast, 40),
                                                'true' if lab == 'T' else
                                                'false')
                                for t, lab in extra))),
                        f.loc(n.ast), history=hist)
                continue
            # (c) a true answer takes the task out of the pool again
            rem = set()
            for x in g.nodes:
                if x.kind != 'stmt':
                    continue
                if isinstance(x.ast, ast.Delete):
                    for t in x.ast.targets:
                        if isinstance(t, ast.Subscript) and \
                                _is_pool_level(t.value, pools) and \
                                _value_at(g, t.slice, x, same, v) == kv:
                            rem.add(x.id)
                for c in calls_in(x.ast):
                    if isinstance(c.func, ast.Attribute) and \
                            c.func.attr == 'pop' and c.args and \
                            _is_pool_level(c.func.value, pools) and \
                            _value_at(g, c.args[0], x, same, v) == kv:
                        rem.add(x.id)
            sites = [(tn, lab) for tn, lab in tu.sites if tn.id in scope]
            stays = not sites
            for tn, lab in sites:
                hs = [e.dst for e in g.succ[tn.id] if e.label == lab]
                if _flow_to(g, hs, rem, ends)[0]:
                    stays = True
            rep.check(not stays, rid, f, '%s: is_canceled(%s) follows on every '
                      'path and a true answer removes the task from the pool'
                      % (what, v), construct=n.ast,
                      message='%s puts `%s` into the wait pool (%s); when '
                      'is_canceled(%s) then answers True (it has advanced the '
                      'task to CANCELED) the task is not taken out of the pool '
                      'on every path: a CANCELED task is placed and started '
                      'later' % (f.qual, v, what, v), loc=f.loc(n.ast),
                      history='cancel request for a task that is on its way '
                      'to the scheduler while the nodes are full')


# ------------------------------------------------------------------------------
# R08.8  a single uid given as a string is wrapped into a list, not iterated
#
def _scalar_sites(f, g):
    """[(test node, edge label taken for a scalar, variable name)] for tests
    `isinstance(X, list)` / `isinstance(X, (list, tuple))` (scalar: false) and
    `isinstance(X, str)` (scalar: true), directly or through a local name"""
    def kind_of(e):
        if isinstance(e, ast.Call) and isinstance(e.func, ast.Name) and \
                e.func.id == 'isinstance' and len(e.args) == 2 and \
                isinstance(e.args[0], ast.Name):
            t = e.args[1]
            ts = [x.id for x in (t.elts if isinstance(t, ast.Tuple)
                                 else [t]) if isinstance(x, ast.Name)]
            if 'list' in ts and 'str' not in ts:
                return 'list', e.args[0].id
            if ts == ['str']:
                return 'str', e.args[0].id
        return None
    keys = {kind_of(c) for c in calls_in(f.node)} - {None}
    out = []
    for kind, x in sorted(keys):
        tu = TruthUses(f, g, lambda e: True if kind_of(e) == (kind, x)
                       else None)
        for n, lab in tu.sites:
            scalar = ('F' if lab == 'T' else 'T') if kind == 'list' else lab
            out.append((n, scalar, x))
    return out


def _wrap_kind(v, x):
    """'wrap' / 'iterate' / None for a value built from the scalar named x"""
    def isx(e):
        return isinstance(e, ast.Name) and e.id == x
    if isinstance(v, (ast.List, ast.Tuple, ast.Set)):
        if len(v.elts) == 1 and isx(v.elts[0]):
            return 'wrap'
        if any(isinstance(e, ast.Starred) and isx(e.value) for e in v.elts):
            return 'iterate'
    if isinstance(v, ast.Call) and v.args and isx(v.args[0]):
        fn = dotted(v.func).split('.')[-1]
        if fn == 'as_list':
            return 'wrap'
        if fn in ('list', 'tuple', 'set', 'sorted', 'frozenset', 'reversed',
                  'deque'):
            return 'iterate'
    if isinstance(v, (ast.ListComp, ast.SetComp, ast.GeneratorExp)) and \
            isx(v.generators[0].iter):
        return 'iterate'
    return None


def r08_8(prog, rep, rid='R08.8'):
    rep.rule(rid, 'where a request may name a single task by a plain string '
             '(Task.cancel does), the string is wrapped into a one-element '
             'list - never turned into a list by iterating it', minimum=2)
    comp = prog.cls(*COMP)
    tm = prog.cls(*TMGR)
    sites = [prog.find_method(tm, 'cancel_tasks')]
    for m in comp.methods.values():
        if any(cancel_list_growth(n) is not None or cancel_list_rebinding(n)
               for n in walk(m.node)):
            sites.append(m)
    hist = ("task.cancel() calls TaskManager.cancel_tasks(self.uid) with a "
            "string: the request then names the characters 't', 'a', 's', "
            "'k', .. - no component, scheduler or executor matches the task, "
            "it runs to completion")
    for f in sites:
        rep.saw(f)
        g = cfg_of(f)
        found = False
        for tn, lab, x in _scalar_sites(f, g):
            for n in g.nodes:
                if n.kind != 'stmt' or not isinstance(n.ast, ast.Assign) or \
                        (tn.id, lab) not in guards(g, n.id):
                    continue
                names = [t.id for t in n.ast.targets
                         if isinstance(t, ast.Name)]
                if not names or x not in names_in(n.ast.value):
                    continue
                kind = _wrap_kind(n.ast.value, x)
                if kind is None:
                    raise AnalysisError('UNRECOGNISED-IDIOM %s: `%s` for a '
                                        'value that is not a list' % (
                                            f.where, short(n.ast, 50)))
                found = True
                rep.check(kind == 'wrap', rid, f, '`%s`: a single uid is '
                          'wrapped into a list' % short(n.ast, 40),
                          construct=n.ast, message='%s turns an argument that '
                          'is not a list into one with `%s`: for a single uid '
                          'given as a string this yields the list of its '
                          'characters, the request names no task' % (
                              f.qual, short(n.ast, 50)), loc=f.loc(n.ast),
                          history=hist)
        if not found and f.cls is tm:
            # no normalisation in the publisher: fine unless somebody passes
            # a single uid
            p = [a for a in f.params if a != 'self'][0]
            aslist = any(isinstance(n, ast.Assign) and
                         _wrap_kind(n.value, p) == 'wrap'
                         for n in walk(f.node))
            scalar_callers = [
                (h, c) for m in prog.modules.values()
                for k in m.classes.values() for h in k.methods.values()
                for c in calls_in(h.node)
                if isinstance(c.func, ast.Attribute) and
                c.func.attr == 'cancel_tasks' and len(c.args) == 1 and
                unparse(c.args[0]) == 'self.uid']
            rep.check(aslist or not scalar_callers, rid, f, 'cancel_tasks '
                      'normalises a single uid to a list', construct=
                      'tmgr:normalise', message='TaskManager.cancel_tasks '
                      'publishes its argument as it came, but %s passes a '
                      'single uid as a string: the scheduler and executor '
                      'handlers iterate arg[\'uids\'] and see its characters'
                      % (scalar_callers[0][0].qual if scalar_callers else ''),
                      loc=f.loc(), history=hist)


# ------------------------------------------------------------------------------
# R08.9  what leaves the wait pool leaves it one uid at a time
#
def r08_9(prog, rep, rid='R08.9'):
    rep.rule(rid, 'removals from the wait pool take out single entries '
             '(`del self._waitpool[p][uid]`, `.pop(uid)`); no statement drops '
             'a whole priority level with everything that waits in it',
             minimum=1)
    funcs = _waitpool_funcs(prog)
    hist = ('cancel request naming one waiting task: every task that waits '
            'at the same priority disappears from the wait pool with it - '
            'the bystanders are never placed and never get a final state')
    for f in funcs:
        g = cfg_of(f)
        pools = _pool_names(f)
        smap = I.stmt_node_map(g)
        for n in walk(f.node):
            level = entry = None
            if isinstance(n, ast.Delete):
                for t in n.targets:
                    if isinstance(t, ast.Subscript) and \
                            unparse(t.value) == POOL:
                        level = n
                    elif isinstance(t, ast.Subscript) and \
                            _is_pool_level(t.value, pools):
                        entry = n
            elif isinstance(n, ast.Call) and isinstance(n.func, ast.Attribute):
                if unparse(n.func.value) == POOL and \
                        n.func.attr in ('pop', 'popitem', 'clear'):
                    level = n
                elif _is_pool_level(n.func.value, pools) and \
                        n.func.attr in ('clear', 'popitem'):
                    level = n
                elif _is_pool_level(n.func.value, pools) and \
                        n.func.attr == 'pop' and n.args:
                    entry = n
            if entry is not None:
                rep.saw(f)
                rep.ok(rid, f, '`%s` removes one entry' % short(entry, 50),
                       f.loc(entry))
            if level is None:
                continue
            rep.saw(f)
            node = smap.get(id(level))
            # dropping a level that is known to be empty loses nobody
            if node is not None and any(
                    POOL in unparse(g.nodes[t].ast) or
                    names_in(g.nodes[t].ast) & pools
                    for t, lab in guards(g, node.id)):
                raise AnalysisError('UNRECOGNISED-IDIOM %s: `%s` under a '
                                    'guard on the wait pool' % (
                                        f.where, short(level, 50)))
            rep.bad(rid, f, level, '%s executes `%s`: this drops a whole '
                    'priority level of the wait pool - all tasks waiting '
                    'there, not only a named one - and none of them is handed '
                    'on' % (f.qual, short(level, 50)), f.loc(level),
                    history=hist)


# ------------------------------------------------------------------------------
# R08.10  "already finished" is decided by comparing the exit status with None
#
def r08_10(prog, rep, rid='R08.10'):
    rep.rule(rid, 'the result of <process>.poll() is compared with None to '
             'tell a finished process from a running one; it is not tested '
             'for truth (exit status 0 is a finished process)', minimum=2)
    po = prog.cls(*POPEN)

    def is_poll(e):
        return True if (isinstance(e, ast.Call) and
                        isinstance(e.func, ast.Attribute) and
                        e.func.attr == 'poll' and not e.args and
                        not e.keywords) else None

    def none_cmp(e):
        """(operand, label taken when the operand is not None)"""
        e, pol = strip_truth(e)
        if isinstance(e, ast.Compare) and len(e.ops) == 1 and \
                isinstance(e.ops[0], (ast.Is, ast.IsNot, ast.Eq, ast.NotEq)) \
                and isinstance(e.comparators[0], ast.Constant) and \
                e.comparators[0].value is None:
            isnone = isinstance(e.ops[0], (ast.Is, ast.Eq))
            return e.left, 'T' if (not isnone) == pol else 'F'
        return None
    for f in po.methods.values():
        if not any(is_poll(c) for c in calls_in(f.node)):
            continue
        rep.saw(f)
        g = cfg_of(f)
        tu = TruthUses(f, g, is_poll)
        names = {b[1] for b in tu.bound}
        # tests that compare the status with None, and the edges on which it
        # is known to be an exit code
        known = set()
        for n in g.nodes:
            if n.kind != 'test':
                continue
            nc = none_cmp(n.ast)
            if nc is None:
                continue
            v = nc[0]
            if is_poll(v) or (isinstance(v, ast.Name) and v.id in names and
                              tu._def_of(v.id, n) is not None):
                known.add((n.id, nc[1]))
                rep.ok(rid, f, '`%s` compares the exit status with None'
                       % short(n.ast, 40), f.loc(n.ast))
        for n, lab in tu.sites:
            if set(guards(g, n.id)) & known:
                continue                  # zero / non-zero of an exit code
            rep.bad(rid, f, n.ast, '%s tests the result of poll() for truth '
                    '(`%s`): a process that has exited with status 0 looks '
                    'like one that is still running (None)' % (
                        f.qual, short(n.ast, 40)), f.loc(n.ast),
                    history='cancel request for a task whose process has just '
                    'exited with status 0 and is not collected yet: '
                    'cancel_task does not see that it is finished, takes it '
                    'from the watcher and ends it as CANCELED instead of DONE')


# ------------------------------------------------------------------------------
# R08.11  a search through the wait pool that stops early looks for one uid
#
def _over_pool_levels(e):
    """expression iterates the priority levels of the wait pool"""
    while isinstance(e, ast.Call) and dotted(e.func) in (
            'sorted', 'list', 'reversed', 'tuple', 'iter') and e.args:
        e = e.args[0]
    if isinstance(e, ast.Call) and isinstance(e.func, ast.Attribute) and \
            e.func.attr in ('keys', 'values', 'items') and not e.args:
        e = e.func.value
    return unparse(e) == POOL


def _level_loops(prog):
    """(f, g, H, body, exits, keys, inner) for every loop over the priority
    levels of the wait pool which removes entries and can be left early:
    exits are the normal edges that leave the body, keys [(removing ast, key
    expression)], inner the names (re-)bound inside the loop"""
    out = []
    for f in _waitpool_funcs(prog):
        g = cfg_of(f)
        pools = _pool_names(f)
        for H in g.nodes:
            if H.kind != 'for' or not _over_pool_levels(H.ast.iter):
                continue
            body = g.loop_body[H.id]
            exits = [e for nid in body for e in g.succ[nid]
                     if e.label in NORMAL and e.dst not in body and
                     e.dst != H.id]
            # entries removed inside the loop, and the names their keys use
            keys = []
            for x in walk(H.ast):
                k = None
                if isinstance(x, ast.Delete):
                    for t in x.targets:
                        if isinstance(t, ast.Subscript) and \
                                _is_pool_level(t.value, pools):
                            k = t.slice
                elif isinstance(x, ast.Call) and \
                        isinstance(x.func, ast.Attribute) and \
                        x.func.attr == 'pop' and x.args and \
                        _is_pool_level(x.func.value, pools):
                    k = x.args[0]
                if k is not None:
                    keys.append((x, k))
            if not exits or not keys:
                continue
            # names (re-)bound inside the loop: by statements, inner loops or
            # comprehensions
            inner = set()
            for x in walk(H.ast, nested=True):
                if x is H.ast:
                    continue
                if isinstance(x, (ast.For, ast.comprehension)):
                    inner |= set(stores_in_target(x.target))
                elif isinstance(x, ast.Assign):
                    for t in x.targets:
                        inner |= set(stores_in_target(t))
                elif isinstance(x, (ast.AnnAssign, ast.NamedExpr)):
                    inner |= set(stores_in_target(x.target))
            out.append((f, g, H, body, exits, keys, inner))
    return out


def r08_11(prog, rep, rid='R08.11'):
    rep.rule(rid, 'a loop over the priority levels of the wait pool that '
             'removes entries and can be left early searches for a single '
             'uid (bound outside of the loop): a loop that serves several '
             'named tasks at once visits every level', minimum=1)
    for f, g, H, body, exits, keys, inner in _level_loops(prog):
        rep.saw(f)
        multi = [(x, k) for x, k in keys
                 if not names_in(k) or names_in(k) & inner]
        if multi:
            # does leaving the loop depend on progress made across the
            # levels (a set of uids still to be found, ..)?  Then this
            # rule cannot tell whether the exit is premature
            carried = set()
            for x in walk(H.ast, nested=True):
                if isinstance(x, ast.AugAssign):
                    carried |= set(stores_in_target(x.target))
                elif isinstance(x, ast.Call) and \
                        isinstance(x.func, ast.Attribute) and \
                        isinstance(x.func.value, ast.Name) and \
                        x.func.attr in ('remove', 'discard', 'pop', 'add',
                                        'append', 'extend', 'update',
                                        'difference_update', 'clear'):
                    carried.add(x.func.value.id)
            carried -= inner           # fresh in every iteration
            start = loop_slice(g, H.id)[0]
            for e in exits:
                for t, lab in guards(g, e.src, start=start, within=body):
                    if reads_through_defs(g, g.nodes[t].ast, g.nodes[t]) \
                            & carried:
                        raise AnalysisError(
                            'UNRECOGNISED-IDIOM %s: early exit from the '
                            'loop over the wait pool levels depends on '
                            '`%s`' % (f.where,
                                      short(g.nodes[t].ast, 40)))
        x0 = multi[0][0] if multi else keys[0][0]
        rep.check(not multi, rid, f, 'loop over the wait pool levels at '
                  'line %d: left early only while searching for one uid'
                  % H.ast.lineno, construct=H.ast.iter,
                  message='%s removes several entries per priority level '
                  '(`%s`) in a loop over the levels of the wait pool which '
                  'it leaves early: named tasks that wait at the levels '
                  'not visited stay in the pool' % (f.qual, short(x0, 50)),
                  loc=f.loc(x0),
                  history='cancel request naming two waiting tasks of '
                  'different priority: only the first level that holds '
                  'one of them is searched; the other task stays in the '
                  'wait pool, is placed later and runs')


# ------------------------------------------------------------------------------
# R08.12  the search for one uid through the levels stops only after a hit
#
def _carried_names(loop_ast, inner):
    """names whose value is carried from one iteration of the loop to the
    next (augmented assignments, containers changed in place)"""
    carried = set()
    for x in walk(loop_ast, nested=True):
        if isinstance(x, ast.AugAssign):
            carried |= set(stores_in_target(x.target))
        elif isinstance(x, ast.Call) and \
                isinstance(x.func, ast.Attribute) and \
                isinstance(x.func.value, ast.Name) and \
                x.func.attr in ('remove', 'discard', 'pop', 'add',
                                'append', 'extend', 'update',
                                'difference_update', 'clear'):
            carried.add(x.func.value.id)
    return carried - inner


def _strip_none(e):
    """(operand, polarity) of `X is not None` / `X is None` / truth of X"""
    e, pol = strip_truth(e)
    if isinstance(e, ast.Compare) and len(e.ops) == 1 and \
            isinstance(e.ops[0], (ast.Is, ast.IsNot, ast.Eq, ast.NotEq)) and \
            isinstance(e.comparators[0], ast.Constant) and \
            e.comparators[0].value is None:
        if isinstance(e.ops[0], (ast.Is, ast.Eq)):
            pol = not pol
        e = e.left
    return e, pol


def r08_12(prog, rep, rid='R08.12'):
    rep.rule(rid, 'the search for one named uid through the priority levels '
             'of the wait pool is left early only after the entry was found '
             'and removed at the current level: a miss goes on to the next '
             'level', minimum=1)
    for f, g, H, body, exits, keys, inner in _level_loops(prog):
        if [k for x, k in keys if not names_in(k) or names_in(k) & inner]:
            continue                      # several uids per level: R08.11
        rep.saw(f)
        smap = I.stmt_node_map(g)
        start = loop_slice(g, H.id)[0]
        # evidence of a hit: a removal that fails for an absent key (`del
        # pool[uid]`, `pool.pop(uid)`), or the true edge of a test of what
        # `pool.pop(uid, <default>)` returned
        sure, soft = set(), []
        for x, k in keys:
            if isinstance(x, ast.Delete) or len(x.args) == 1:
                sure.add(smap[id(x)].id)
            else:
                soft.append(x)
        hit_edges = set()
        for n in g.nodes:
            if n.kind != 'test' or n.id not in body:
                continue
            e, pol = _strip_none(n.ast)
            if isinstance(e, ast.Name):
                rd = reaching_defs(g, e.id, n.id)
                if len(rd) == 1 and rd[0][1] is not None:
                    e = rd[0][1]
            if any(e is x for x in soft):
                hit_edges.add((n.id, 'T' if pol else 'F'))
        loopvars = set(stores_in_target(H.ast.target))
        knames = set()
        for x, k in keys:
            knames |= names_in(k)
        for e in exits:
            gs = guards(g, e.src, start=start, within=body)
            found = e.src in sure or must_pass(g, start, e.src, sure) or \
                bool(set(gs) & hit_edges)
            if not found and gs:
                reads = set()
                for t, lab in gs:
                    reads |= reads_through_defs(g, g.nodes[t].ast, g.nodes[t])
                if not reads & (loopvars | knames | inner | {POOL}):
                    raise AnalysisError(
                        'UNRECOGNISED-IDIOM %s: the search through the wait '
                        'pool levels is left under `%s`' % (
                            f.where, short(g.nodes[gs[-1][0]].ast, 40)))
            xn = g.nodes[e.src]
            rep.check(found, rid, f, 'loop over the wait pool levels at line '
                      '%d: left (line %s) only after the entry was removed'
                      % (H.ast.lineno, getattr(xn.ast, 'lineno', '?')),
                      construct='level-search:%s' % unparse(H.ast.iter),
                      message='%s searches the priority levels of the wait '
                      'pool for one uid (`%s`) and leaves the loop at line %s '
                      'on a path on which nothing was found at the current '
                      'level: the levels not visited yet are never searched, '
                      'a named task waiting there stays in the pool, is '
                      'placed when resources free up and runs' % (
                          f.qual, short(keys[0][0], 50),
                          getattr(xn.ast, 'lineno', '?')),
                      loc=f.loc(xn.ast if xn.ast is not None else H.ast),
                      history='one core, run.0 placed; wait.0 (priority 0) '
                      'and wait.1 (priority 5) wait; cancel request naming '
                      'wait.1: only the first level (created by wait.0) is '
                      'searched, wait.1 stays in the wait pool and is never '
                      'reported CANCELED')


# ------------------------------------------------------------------------------
# R08.13  the components which handle cancel requests are handed the request
#
def _modname(k):
    rel = k.module.rel[:-3]
    if rel.endswith('__init__'):
        rel = rel[:-len('__init__')].rstrip('/')
    return '.'.join(['radical', 'pilot'] + [p for p in rel.split('/') if p])


_IDENT_ATTRS = ('uid', '_uid', 'ctype', '_ctype', '__class__', 'name',
                '_name', '_owner')


def _is_self(e):
    return isinstance(e, ast.Name) and e.id == 'self'


def _mentions_identity(e):
    """expression reads who the component is (class, module, uid)"""
    for x in ast.walk(e):
        if isinstance(x, ast.Call) and isinstance(x.func, ast.Name) and \
                x.func.id in ('repr', 'str', 'type', 'isinstance', 'id') and \
                x.args and _is_self(x.args[0]):
            return True
        if isinstance(x, ast.Attribute) and _is_self(x.value) and \
                x.attr in _IDENT_ATTRS:
            return True
    return False


class _Identity:
    """Abstract evaluation of tests on the identity of a component instance
    of class K: `repr(self)` (the default repr: module path and class name),
    `self.ctype`, `type(self).__name__` / `.__module__`, `self.uid` (the
    component kind the factory table of BaseComponent.create files the class
    under, plus a counter), `isinstance(self, C)`."""

    def __init__(self, prog, f, g, k):
        self.prog, self.f, self.g, self.k = prog, f, g, k
        self.mro = prog.mro(k)

    def _kind(self):
        comp = self.prog.cls(*COMP)
        cr = self.prog.find_method(comp, 'create')
        if cr is None:
            return None
        li = cr.module.local_imports(cr.node)
        kinds = []
        for n in walk(cr.node):
            if not isinstance(n, ast.Dict):
                continue
            for kk, v in zip(n.keys, n.values):
                name = self.prog.fold(cr.module, kk) if kk is not None \
                    else UNKNOWN
                if not isinstance(name, str):
                    continue
                r = self.prog.resolve(cr.module, v, li)
                if r and r[0] == 'ext' and \
                        r[1].startswith('radical.pilot.'):
                    parts = r[1].split('.')[2:]
                    rel = self.prog._find_module(parts[:-1])
                    r = self.prog.lookup(self.prog.modules[rel], parts[-1]) \
                        if rel else None
                if r and r[0] == 'class' and r[1] in self.mro:
                    kinds.append(name)
        return kinds[0] if len(kinds) == 1 else None

    def value(self, e, node, depth=3):
        """string the expression evaluates to, None if not known"""
        if isinstance(e, ast.Constant) and isinstance(e.value, str):
            return e.value
        mod, name = _modname(self.k), self.k.name
        if isinstance(e, ast.Call) and isinstance(e.func, ast.Name) and \
                e.func.id == 'repr' and len(e.args) == 1 and \
                _is_self(e.args[0]) and not e.keywords:
            if any('__repr__' in c.methods for c in self.mro):
                return None
            return '<%s.%s object at 0x7f0000000000>' % (mod, name)
        if isinstance(e, ast.Attribute):
            if _is_self(e.value) and e.attr in ('ctype', '_ctype'):
                return '%s.%s' % (mod, name)
            if _is_self(e.value) and e.attr in ('uid', '_uid'):
                kind = self._kind()
                return None if kind is None else kind + '.0000'
            v = e.value
            is_cls = (isinstance(v, ast.Attribute) and _is_self(v.value) and
                      v.attr == '__class__') or (
                isinstance(v, ast.Call) and isinstance(v.func, ast.Name) and
                v.func.id == 'type' and len(v.args) == 1 and
                _is_self(v.args[0]))
            if is_cls and e.attr in ('__name__', '__qualname__'):
                return name
            if is_cls and e.attr == '__module__':
                return mod
            return None
        if isinstance(e, ast.Call) and isinstance(e.func, ast.Attribute) and \
                e.func.attr in ('lower', 'upper', 'strip') and not e.args:
            v = self.value(e.func.value, node, depth)
            return None if v is None else getattr(v, e.func.attr)()
        if isinstance(e, ast.BinOp) and isinstance(e.op, ast.Add):
            a, b = self.value(e.left, node, depth), \
                self.value(e.right, node, depth)
            return None if a is None or b is None else a + b
        if isinstance(e, ast.Name) and depth > 0:
            rd = reaching_defs(self.g, e.id, node.id)
            if len(rd) == 1 and rd[0][1] is not None:
                return self.value(rd[0][1], rd[0][0], depth - 1)
        return None

    def test(self, e, node, depth=3):
        """True / False / None (not known) for an instance of K"""
        e, pol = strip_truth(e)
        r = None
        if isinstance(e, ast.Compare) and len(e.ops) == 1:
            a = self.value(e.left, node, depth)
            op = e.ops[0]
            if isinstance(op, (ast.In, ast.NotIn)) and isinstance(
                    e.comparators[0], (ast.Tuple, ast.List, ast.Set)):
                bs = [self.value(x, node, depth)
                      for x in e.comparators[0].elts]
                if a is not None and None not in bs:
                    r = a in bs
            else:
                b = self.value(e.comparators[0], node, depth)
                if a is not None and b is not None:
                    if isinstance(op, (ast.In, ast.NotIn)):
                        r = a in b
                    elif isinstance(op, (ast.Eq, ast.NotEq)):
                        r = a == b
            if r is not None and isinstance(op, (ast.NotIn, ast.NotEq)):
                r = not r
        elif isinstance(e, ast.Call) and isinstance(e.func, ast.Attribute) and \
                e.func.attr in ('startswith', 'endswith') and \
                len(e.args) == 1 and not e.keywords:
            a = self.value(e.func.value, node, depth)
            arg = e.args[0]
            bs = [self.value(x, node, depth) for x in (
                arg.elts if isinstance(arg, ast.Tuple) else [arg])]
            if a is not None and None not in bs:
                r = getattr(a, e.func.attr)(tuple(bs))
        elif isinstance(e, ast.Call) and isinstance(e.func, ast.Name) and \
                e.func.id == 'isinstance' and len(e.args) == 2 and \
                _is_self(e.args[0]):
            ts = e.args[1].elts if isinstance(e.args[1], ast.Tuple) \
                else [e.args[1]]
            li = self.f.module.local_imports(self.f.node)
            rs = [self.prog.resolve(self.f.module, t, li) for t in ts]
            if all(x and x[0] == 'class' for x in rs):
                r = any(x[1] in self.mro for x in rs)
        elif isinstance(e, ast.BoolOp):
            vs = [self.test(v, node, depth) for v in e.values]
            if isinstance(e.op, ast.And):
                r = False if False in vs else (None if None in vs else True)
            else:
                r = True if True in vs else (None if None in vs else False)
        elif isinstance(e, ast.Call) and isinstance(e.func, ast.Name) and \
                e.func.id in ('any', 'all') and len(e.args) == 1 and \
                not e.keywords:
            # any(<test on x> for x in <constants>): the disjunction (all():
            # the conjunction) of the test with x bound to each constant
            vs = self._quantified(e.args[0], node, depth)
            if vs is not None and e.func.id == 'all':
                r = False if False in vs else (None if None in vs else True)
            elif vs is not None:
                r = True if True in vs else (None if None in vs else False)
        elif isinstance(e, ast.Name) and depth > 0:
            rd = reaching_defs(self.g, e.id, node.id)
            if len(rd) == 1 and rd[0][1] is not None:
                r = self.test(rd[0][1], rd[0][0], depth - 1)
        return None if r is None else (r == pol)

    def _strings(self, e, node, depth):
        """the string constants a collection expression holds (literal, local
        name bound once to one, module / class constant); None if not known"""
        while isinstance(e, ast.Call) and isinstance(e.func, ast.Name) and \
                e.func.id in ('list', 'tuple', 'set', 'frozenset', 'sorted') \
                and len(e.args) == 1 and not e.keywords:
            e = e.args[0]
        if isinstance(e, (ast.Tuple, ast.List, ast.Set)):
            vs = [self.value(x, node, depth) for x in e.elts]
            return None if None in vs else vs
        if isinstance(e, ast.Name) and depth > 0:
            rd = reaching_defs(self.g, e.id, node.id)
            if len(rd) == 1 and rd[0][1] is not None:
                return self._strings(rd[0][1], rd[0][0], depth - 1)
            if rd:
                return None
        if isinstance(e, (ast.Name, ast.Attribute)):
            v = self.prog.fold(self.f.module, e, self.f.cls)
            if isinstance(v, (list, tuple, set, frozenset)) and v and \
                    all(isinstance(x, str) for x in v):
                return list(v)
        return None

    def _quantified(self, c, node, depth):
        """[True / False / None] of the element test of a comprehension /
        generator over string constants, one entry per constant; None if the
        shape is not known"""
        if not isinstance(c, (ast.GeneratorExp, ast.ListComp, ast.SetComp)) \
                or len(c.generators) != 1:
            return None
        gen = c.generators[0]
        if gen.is_async or not isinstance(gen.target, ast.Name):
            return None
        consts = self._strings(gen.iter, node, depth)
        if consts is None:
            return None
        var = gen.target.id

        class Bind(ast.NodeTransformer):
            def __init__(self, s):
                self.s = s

            def visit_Name(self, n):
                if n.id == var and isinstance(n.ctx, ast.Load):
                    return ast.copy_location(ast.Constant(self.s), n)
                return n

        out = []
        for s in consts:
            def bound(x):
                return Bind(s).visit(copy.deepcopy(x))
            conds = [self.test(bound(i), node, depth) for i in gen.ifs]
            if False in conds:
                continue                # filtered out: no contribution
            v = self.test(bound(c.elt), node, depth)
            out.append(None if None in conds else v)
        return out

    def about_identity(self, e, node, depth=3):
        if _mentions_identity(e):
            return True
        if depth > 0:
            for x in ast.walk(e):
                if isinstance(x, ast.Name) and isinstance(x.ctx, ast.Load) \
                        and not _is_self(x):
                    for dn, val in reaching_defs(self.g, x.id, node.id):
                        if val is not None and self.about_identity(
                                val, dn, depth - 1):
                            return True
        return False


def r08_13(prog, rep, rid='R08.13'):
    sb, eb = prog.cls(*SBASE), prog.cls(*EBASE)
    classes = []
    for base in (sb, eb):
        for k in [base] + list(prog.subclasses(base, strict=True)):
            if (base, k) not in classes:
                classes.append((base, k))
    rep.rule(rid, 'BaseComponent._control_cb hands a cancel_tasks request on '
             'to control_cb() of every agent scheduler and executor class: '
             'the tests it makes on the identity of the component (repr / '
             'class / module / uid against string constants) hold for the '
             'names these classes really carry', minimum=len(classes))
    comp = prog.cls(*COMP)
    f = prog.find_method(comp, '_control_cb')
    rep.saw(f)
    g = cfg_of(f)
    smap = I.stmt_node_map(g)
    starts = []
    for n in g.nodes:
        ct = _cmd_test(n, 'cancel_tasks')
        if ct:
            starts += [e.dst for e in g.succ[n.id] if e.label == ct[1]]
    if not starts:
        raise AnalysisError('UNRECOGNISED-IDIOM %s: no cancel_tasks branch'
                            % f.where)
    targets = {smap[id(c)].id for c in calls_in(f.node)
               if call_name(c) == 'self.control_cb' and id(c) in smap}
    open_reach = set()
    for s in starts:
        open_reach |= g.reachable(s)
    if not targets & open_reach:
        # handed on by a helper this rule does not follow?
        for c in calls_in(f.node):
            if id(c) in smap and smap[id(c)].id in open_reach and \
                    call_name(c).startswith('self.'):
                h = prog.resolve_call(f, c, comp)
                if h is not None and any(
                        call_name(x) == 'self.control_cb'
                        for x in calls_in(h.node)):
                    raise AnalysisError(
                        'UNRECOGNISED-IDIOM %s: the request is handed to '
                        'control_cb by %s' % (f.where, h.qual))
    tests = [n for n in g.nodes if n.kind == 'test' and n.id in open_reach]
    for base, k in classes:
        h = prog.find_method(k, 'control_cb')
        if h is None or not cmd_branches(prog, h, 'cancel_tasks')[1]:
            # the class does not act on the request in control_cb
            rep.ok(rid, f, '%s: control_cb has no cancel_tasks branch'
                   % k.name, f.loc())
            continue
        idn = _Identity(prog, f, g, k)
        skip, said = [], []
        for t in tests:
            v = idn.test(t.ast, t)
            if v is None:
                if idn.about_identity(t.ast, t):
                    raise AnalysisError(
                        'UNRECOGNISED-IDIOM %s: identity test `%s` is not '
                        'evaluated for %s' % (f.where, short(t.ast, 50),
                                              k.name))
                continue
            skip.append((t.id, 'F' if v else 'T'))
            said.append('`%s` is %s' % (short(t.ast, 50), v))
        reach = set()
        for s in starts:
            reach |= g.reachable(s, skip_edges=skip)
        what = 'scheduler' if base is sb else 'executor'
        rep.check(bool(targets & reach), rid, f, '%s gets cancel_tasks '
                  'requests through control_cb' % k.name,
                  construct='handover:%s' % what,
                  message='BaseComponent._control_cb never hands a '
                  'cancel_tasks request to control_cb() of the agent %s '
                  'class %s (module %s): for this class %s.  %s, which %s, is '
                  'never called for the request - the uids are only appended '
                  'to the cancel list, which is consulted when a task '
                  '*enters* a component' % (
                      what, k.name, _modname(k), '; '.join(said) or
                      'no call of self.control_cb is reachable', h.qual,
                      'takes named tasks out of the wait pool and the raptor '
                      'backlog' if base is sb else 'kills the processes of '
                      'named running tasks'), loc=f.loc(),
                  history='one core; run.0 placed, wait.0 and wait.1 wait; '
                  'cancel request naming wait.1: no _CANCEL item is queued '
                  'for the scheduling process, wait.1 stays in the wait pool '
                  'and never ends as CANCELED' if base is sb else
                  'cancel request naming a task that is running: '
                  'cancel_task is never called, the process is not killed, '
                  'the task completes normally')


# ------------------------------------------------------------------------------
# R08.14  every uid of a request is served
#
_COPIES = ('list', 'set', 'sorted', 'tuple', 'reversed', 'frozenset', 'iter',
           'enumerate', 'as_list')


def _is_request(g, e, node, base, depth=3):
    """the expression is the collection of uids of the request, or what was
    selected by them: `base(e)` says what the request itself is; copies
    (list(..), set(..), sorted(..)), local names all of whose reaching
    definitions are such values, comprehensions over the request or filtered
    by membership in it, and set intersections with it count as well"""
    while isinstance(e, ast.Call) and dotted(e.func).split('.')[-1] in \
            _COPIES and e.args:
        e = e.args[0]
    if base(e):
        return True
    if depth <= 0:
        return False
    if isinstance(e, ast.Name):
        rd = reaching_defs(g, e.id, node.id)
        return bool(rd) and all(
            v is not None and _is_request(g, v, dn, base, depth - 1)
            for dn, v in rd)
    if isinstance(e, (ast.ListComp, ast.SetComp, ast.GeneratorExp)):
        for gen in e.generators:
            if _is_request(g, gen.iter, node, base, depth - 1):
                return True
            for c in gen.ifs:
                c, pol = strip_truth(c)
                if isinstance(c, ast.Compare) and len(c.ops) == 1 and \
                        isinstance(c.ops[0], ast.In) and _is_request(
                            g, c.comparators[0], node, base, depth - 1):
                    return True
        return False
    if isinstance(e, ast.Call) and isinstance(e.func, ast.Attribute) and \
            e.func.attr == 'intersection' and e.args:
        return _is_request(g, e.func.value, node, base, depth - 1) or \
            _is_request(g, e.args[0], node, base, depth - 1)
    if isinstance(e, ast.BinOp) and isinstance(e.op, ast.BitAnd):
        return _is_request(g, e.left, node, base, depth - 1) or \
            _is_request(g, e.right, node, base, depth - 1)
    return False


def _request_loops(prog):
    """[(f, g, H, what)] loops (cfg head nodes) in the cancel branches of the
    agent scheduler / executor whose iteration domain is the uids of the
    request (or what was selected by them), or which enclose such a loop /
    comprehension; plus [(f, comprehension ast)] for request domains iterated
    by comprehensions"""
    loops, comps = [], []

    def collect(f, g, region, base):
        smap = I.stmt_node_map(g)
        req = set()
        for H in g.nodes:
            if H.kind == 'for' and H.id in region and \
                    _is_request(g, H.ast.iter, H, base):
                req.add(H.id)
        cps = []
        for n in walk(f.node):
            if isinstance(n, (ast.ListComp, ast.SetComp, ast.DictComp,
                              ast.GeneratorExp)) and id(n) in smap and \
                    smap[id(n)].id in region and any(
                        _is_request(g, gen.iter, smap[id(n)], base)
                        for gen in n.generators):
                cps.append(n)
        for H in g.nodes:
            if H.kind != 'for' or H.id not in region:
                continue
            body = g.loop_body[H.id]
            if H.id in req:
                loops.append((f, g, H, 'iterates the uids of the request'))
            elif req & body or any(smap[id(c)].id in body for c in cps):
                loops.append((f, g, H, 'encloses the work for the uids of '
                              'the request'))
        comps.extend((f, c) for c in cps)

    for anchor in (SBASE, EBASE):
        f = prog.find_method(prog.cls(*anchor), 'control_cb')
        g, brs = cmd_branches(prog, f, 'cancel_tasks')
        if not brs:
            raise AnalysisError('UNRECOGNISED-IDIOM %s: no cancel_tasks '
                                'branch' % f.where)
        av = arg_var(f)

        def base(e, av=av):
            if isinstance(e, ast.Subscript) and \
                    isinstance(e.slice, ast.Constant) and \
                    e.slice.value == 'uids':
                return isinstance(e.value, ast.Name) and e.value.id == av
            return isinstance(e, ast.Call) and \
                isinstance(e.func, ast.Attribute) and e.func.attr == 'get' \
                and isinstance(e.func.value, ast.Name) and \
                e.func.value.id == av and e.args and \
                isinstance(e.args[0], ast.Constant) and \
                e.args[0].value == 'uids'
        collect(f, g, brs[0][1], base)
    # the scheduling process: items (uids, _CANCEL) pulled from the queue
    sb = prog.cls(*SBASE)
    for f in sb.methods.values():
        g = None
        for a in walk(f.node):
            if not (isinstance(a, ast.Assign) and len(a.targets) == 1 and
                    isinstance(a.targets[0], (ast.Tuple, ast.List)) and
                    isinstance(a.value, ast.Call) and
                    isinstance(a.value.func, ast.Attribute) and
                    a.value.func.attr in ('get', 'get_nowait') and
                    '_queue_sched' in unparse(a.value.func.value)):
                continue
            names = {x.id for x in a.targets[0].elts
                     if isinstance(x, ast.Name)}
            g = g or cfg_of(f)
            for n in g.nodes:
                if n.kind != 'test':
                    continue
                t, pol = strip_truth(n.ast)
                if isinstance(t, ast.Name):       # the test bound to a name
                    rd = reaching_defs(g, t.id, n.id)
                    if len(rd) == 1 and rd[0][1] is not None:
                        t, p2 = strip_truth(rd[0][1])
                        pol = pol == p2
                if not isinstance(t, ast.Compare) or \
                        len(t.ops) != 1 or not isinstance(
                            t.ops[0], (ast.Eq, ast.NotEq, ast.Is,
                                       ast.IsNot)) or \
                        unparse(t.comparators[0]) != 'self._CANCEL' or \
                        not isinstance(t.left, ast.Name) or \
                        t.left.id not in names:
                    continue
                lab = 'T' if isinstance(t.ops[0], (ast.Eq, ast.Is)) == pol \
                    else 'F'
                rt, rf = set(), set()
                for e in g.succ[n.id]:
                    if e.label == lab:
                        rt |= g.reachable(e.dst, no_back=True)
                    elif e.label in ('T', 'F'):
                        rf |= g.reachable(e.dst, no_back=True)
                data = names - {t.left.id}
                collect(f, g, rt - rf, lambda e, data=data: isinstance(
                    e, ast.Name) and e.id in data)
    return loops, comps


_SERVE = ('cancel_task', 'remove', 'pop', 'popitem', 'discard', 'append',
          'extend')


def r08_14(prog, rep, rid='R08.14'):
    rep.rule(rid, 'a loop of a cancel handler that serves the uids of a '
             'request (kills, removes, collects per uid) is not left by '
             'break / return from within an iteration on account of the '
             'current uid: every named uid is visited', minimum=2)
    loops, comps = _request_loops(prog)
    for f, c in comps:
        rep.saw(f)
        rep.ok(rid, f, '`%s` visits every uid of the request' % short(c, 50),
               f.loc(c))
    for f, g, H, what in loops:
        rep.saw(f)
        body = g.loop_body[H.id]
        serves = any(isinstance(x, ast.Delete) or (
            isinstance(x, ast.Call) and isinstance(x.func, ast.Attribute) and
            (x.func.attr in _SERVE or (_is_self(x.func.value) and
                                       not I.is_handon(x))))
            for x in walk(H.ast, nested=True))
        if not serves:
            continue
        exits = [e for nid in body for e in g.succ[nid]
                 if e.label in NORMAL and e.dst not in body and
                 e.dst != H.id]
        where = 'loop `for %s in %s` at line %d' % (
            short(H.ast.target, 20), short(H.ast.iter, 40), H.ast.lineno)
        if not exits:
            rep.ok(rid, f, '%s (%s) is never left early' % (where, what),
                   f.loc(H.ast))
            continue
        inner = set()
        for x in walk(H.ast, nested=True):
            if isinstance(x, (ast.For, ast.comprehension)):
                inner |= set(stores_in_target(x.target))
            elif isinstance(x, ast.Assign):
                for t in x.targets:
                    inner |= set(stores_in_target(t))
            elif isinstance(x, (ast.AnnAssign, ast.NamedExpr)):
                inner |= set(stores_in_target(x.target))
        carried = _carried_names(H.ast, inner)
        start = loop_slice(g, H.id)[0]
        for e in exits:
            gs = guards(g, e.src, start=start, within=body)
            reads = set()
            for t, lab in gs:
                reads |= reads_through_defs(g, g.nodes[t].ast, g.nodes[t])
            if reads & carried:
                raise AnalysisError(
                    'UNRECOGNISED-IDIOM %s: %s is left depending on `%s`, '
                    'which is carried across the iterations' % (
                        f.where, where, sorted(reads & carried)[0]))
            xn = g.nodes[e.src]
            okay = bool(gs) and not reads & inner
            cond = ' and '.join('`%s` is %s' % (
                short(g.nodes[t].ast, 40), 'true' if lab == 'T' else 'false')
                for t, lab in gs) or 'unconditionally'
            rep.check(okay, rid, f, '%s (%s): left early only for a reason '
                      'that does not depend on the current element' % (
                          where, what), construct='request-loop:%s' % unparse(
                              H.ast.iter),
                      message='%s: the %s %s and is left at line %s %s: the '
                      'uids of the request that follow the current one are '
                      'never looked at - the tasks they name are not taken '
                      'out / not killed and complete normally' % (
                          f.qual, where, what, getattr(xn.ast, 'lineno', '?'),
                          'when ' + cond if gs else cond), loc=f.loc(
                              xn.ast if xn.ast is not None else H.ast),
                      history="cancel request ['wait.7', 'run.0'] where the "
                      "first uid is not held by this component (still with "
                      "the scheduler, already finished, another executor "
                      "instance): the handling of the request ends at "
                      "'wait.7'; run.0 keeps running, keeps its cores and "
                      "ends as DONE")


# ------------------------------------------------------------------------------
# R08.16  the whole raptor backlog is searched for the named tasks
#
_BACKLOG = 'self._raptor_tasks'
_VIEWS = ('list', 'tuple', 'sorted', 'set', 'frozenset', 'dict', 'iter',
          'reversed')
_BUILTINS = set(dir(__import__('builtins')))


def _strip_view(e):
    """E for list(E), sorted(E), E.keys(), E.items(), E.values(), E.copy(),
    E[:]: the same entries"""
    while True:
        if isinstance(e, ast.Call) and isinstance(e.func, ast.Name) and \
                e.func.id in _VIEWS and len(e.args) == 1 and not e.keywords:
            e = e.args[0]
        elif isinstance(e, ast.Call) and isinstance(e.func, ast.Attribute) \
                and e.func.attr in ('keys', 'items', 'values', 'copy') and \
                not e.args and not e.keywords:
            e = e.func.value
        elif isinstance(e, ast.Subscript) and isinstance(e.slice, ast.Slice) \
                and e.slice.lower is None and e.slice.upper is None and \
                e.slice.step is None:
            e = e.value
        else:
            return e


def _necessary_atoms(test, pol):
    """[(atom, polarity)] that all hold when `test` evaluates to `pol`; a
    disjunction that is true / a conjunction that is false stays one atom"""
    if isinstance(test, ast.UnaryOp) and isinstance(test.op, ast.Not):
        return _necessary_atoms(test.operand, not pol)
    if isinstance(test, ast.BoolOp) and \
            isinstance(test.op, ast.And if pol else ast.Or):
        out = []
        for v in test.values:
            out += _necessary_atoms(v, pol)
        return out
    return [(test, pol)]


def _mentions(e, root):
    """the expression reads the container `root` itself (not one of its
    entries `root[k]`, `root.get(k)`)"""
    skip = set()
    for x in ast.walk(e):
        if isinstance(x, ast.Subscript) and not isinstance(
                x.slice, ast.Slice) and unparse(x.value) == root:
            skip.add(id(x.value))
        if isinstance(x, ast.Call) and isinstance(x.func, ast.Attribute) and \
                x.func.attr in ('get', 'pop', 'setdefault') and \
                unparse(x.func.value) == root:
            skip.add(id(x.func.value))
    return any(isinstance(x, ast.Attribute) and unparse(x) == root and
               id(x) not in skip for x in ast.walk(e))


def _domain(g, e, node, root, within, depth=3):
    """what a loop over `e` at cfg node `node` visits of the container `root`:
    ('whole', conds)  every entry, provided the (atom, polarity) conds hold
    ('empty', [])     nothing (an empty container)
    ('part', why)     some entries only
    ('unknown', why)  derived from the container in a way not known here
    None              not the container"""
    e = _strip_view(e)
    if unparse(e) == root:
        return ('whole', [])
    if _empty_container(e) or (isinstance(e, ast.Constant) and
                               e.value in (None, ())):
        return ('empty', [])
    if isinstance(e, ast.Subscript) and isinstance(e.slice, ast.Slice):
        k = _domain(g, e.value, node, root, within, depth)
        if k and k[0] == 'whole':
            return ('part', 'the slice `%s`' % short(e, 50))
        return k
    if isinstance(e, ast.IfExp):
        a = _domain(g, e.body, node, root, within, depth)
        b = _domain(g, e.orelse, node, root, within, depth)
        if a is None and b is None:
            return None
        for x, y, pol in ((a, b, True), (b, a, False)):
            if x and y and x[0] == 'whole' and y[0] == 'empty':
                return ('whole', x[1] + _necessary_atoms(e.test, pol))
        if a and b and a[0] == b[0] == 'whole' and not a[1] and not b[1]:
            return ('whole', [])
        for x in (a, b):
            if x and x[0] == 'part':
                return x
        return ('unknown', '`%s`' % short(e, 50))
    if isinstance(e, ast.BoolOp) and isinstance(e.op, ast.Or):
        ks = [_domain(g, v, node, root, within, depth) for v in e.values]
        if ks[0] and ks[0][0] == 'whole' and all(
                k and k[0] == 'empty' for k in ks[1:]):
            return ks[0]            # `backlog or {}`
        if any(ks):
            return ('unknown', '`%s`' % short(e, 50))
        return None
    if isinstance(e, (ast.ListComp, ast.SetComp, ast.GeneratorExp)):
        gen = e.generators[0]
        k = _domain(g, gen.iter, node, root, within, depth)
        if k is None or k[0] == 'empty':
            return None
        if len(e.generators) == 1 and not gen.ifs and \
                unparse(e.elt) == unparse(gen.target):
            return k
        if k[0] == 'part':
            return k
        return ('unknown', 'the selection `%s`' % short(e, 50))
    if isinstance(e, ast.Name):
        if depth <= 0:
            return None
        rd = reaching_defs(g, e.id, node.id)
        if not rd:
            return None
        ks = [(None if v is None else
               _domain(g, v, dn, root, within, depth - 1), dn)
              for dn, v in rd]
        if all(k is None or k[0] == 'empty' for k, dn in ks):
            return None
        for k, dn in ks:
            if k is not None and k[0] in ('part', 'unknown'):
                return k
        if any(k is None for k, dn in ks):
            return ('unknown', '`%s` (bound in several ways)' % e.id)
        wholes = [(k, dn) for k, dn in ks if k[0] == 'whole']
        if len(ks) == 1:
            return wholes[0][0]
        if len(wholes) == len(ks):
            if any(k[1] for k, dn in wholes):
                return ('unknown', '`%s` (bound in several ways)' % e.id)
            return ('whole', [])
        if len(wholes) != 1:
            return ('unknown', '`%s` (bound in several ways)' % e.id)
        # `x = []` .. `if C: x = <backlog>`: the backlog is visited only when
        # the binding to it was executed
        k, dn = wholes[0]
        return ('whole', k[1] + [(g.nodes[t].ast, lab == 'T') for t, lab in
                                 guards(g, dn.id, within=within)])
    if _mentions(e, root):
        return ('unknown', '`%s`' % short(e, 50))
    return None


def _backlog_insertions(prog, sb, root):
    """[(f, g, cfg node)] statements of the scheduler classes that put tasks
    into the backlog: `root[k] = v`, `root[k] += v`, root[k].append(..),
    root.setdefault(k, ..) / root.update(..)"""
    out = []
    for k in [sb] + list(prog.subclasses(sb, strict=True)):
        for f in k.methods.values():
            if root.split('.')[-1] not in unparse(f.node):
                continue
            g = cfg_of(f)
            smap = I.stmt_node_map(g)
            al = I.Aliases(prog, None, {f.name: f}, root)
            for n in walk(f.node):
                hit = False
                if isinstance(n, (ast.Assign, ast.AugAssign)):
                    tg = n.targets if isinstance(n, ast.Assign) else [n.target]
                    for t in tg:
                        if isinstance(t, ast.Subscript) and \
                                al.is_rooted_expr(f.name, t.value) and \
                                not _empty_container(n.value):
                            hit = True
                elif isinstance(n, ast.Call) and \
                        isinstance(n.func, ast.Attribute):
                    v = n.func.value
                    if n.func.attr in ('setdefault', 'update') and \
                            unparse(v) == root:
                        hit = True
                    elif n.func.attr in ('append', 'extend', 'insert') and \
                            not isinstance(v, ast.Name) and \
                            unparse(v) != root and al.is_rooted_expr(f.name, v):
                        hit = True
                    elif n.func.attr in ('append', 'extend', 'insert') and \
                            isinstance(v, ast.Name) and \
                            v.id in al.rooted[f.name]:
                        hit = True
                if hit and id(n) in smap and (f, g, smap[id(n)]) not in out:
                    out.append((f, g, smap[id(n)]))
    return out


def _changes_attr(prog, sb, attr):
    """the attribute (a container) is changed after it was set up: an entry
    stored / deleted, a mutating call, a re-binding to something non-empty"""
    for k in prog.mro(sb) + list(prog.subclasses(sb, strict=True)):
        for f in k.methods.values():
            for n in walk(f.node):
                if isinstance(n, (ast.Assign, ast.AugAssign)):
                    tg = n.targets if isinstance(n, ast.Assign) else [n.target]
                    for t in tg:
                        if isinstance(t, ast.Subscript) and \
                                unparse(t.value) == attr:
                            return True
                        if unparse(t) == attr and (
                                isinstance(n, ast.AugAssign) or
                                f.name not in ('__init__', 'initialize')
                                and not _empty_container(n.value) and
                                not isinstance(n.value, ast.Constant)):
                            return True
                elif isinstance(n, ast.Delete):
                    if any(isinstance(t, ast.Subscript) and
                           unparse(t.value) == attr for t in n.targets):
                        return True
                elif isinstance(n, ast.Call) and \
                        isinstance(n.func, ast.Attribute) and \
                        unparse(n.func.value) == attr and n.func.attr in (
                            'append', 'extend', 'insert', 'pop', 'remove',
                            'clear', 'update', 'setdefault', 'add', 'discard',
                            'popitem', 'put'):
                    return True
    return False


def r08_16(prog, rep, rid='R08.16'):
    rep.rule(rid, 'the cancel handler of the scheduler searches every queue '
             'of the raptor backlog for the named tasks on every path: a '
             'condition under which (part of) the backlog is not searched is '
             'one under which nothing is ever put into the backlog',
             minimum=1)
    sb = prog.cls(*SBASE)
    f = prog.find_method(sb, 'control_cb')
    rep.saw(f)
    g, brs = cmd_branches(prog, f, 'cancel_tasks')
    if not brs:
        raise AnalysisError('UNRECOGNISED-IDIOM %s: no cancel_tasks branch'
                            % f.where)
    region = brs[0][1]
    smap = I.stmt_node_map(g)
    av = arg_var(f)
    root = _BACKLOG
    al = I.Aliases(prog, None, {f.name: f}, root)
    sites = []          # (cfg node, iterable ast, domain)
    for H in g.nodes:
        if H.kind != 'for' or H.id not in region:
            continue
        k = _domain(g, H.ast.iter, H, root, region)
        if k is None or k[0] == 'empty':
            continue
        serves = False
        for x in walk(H.ast, nested=True):
            if isinstance(x, ast.Delete):
                serves = True
            elif isinstance(x, ast.Call) and \
                    isinstance(x.func, ast.Attribute) and \
                    x.func.attr in _SERVE:
                serves = True
            elif isinstance(x, (ast.Assign, ast.AugAssign)) and any(
                    isinstance(t, ast.Subscript) and
                    al.is_rooted_expr(f.name, t.value) for t in (
                        x.targets if isinstance(x, ast.Assign)
                        else [x.target])):
                serves = True
        if serves:
            sites.append((H, H.ast.iter, k))
    for n in walk(f.node):
        if isinstance(n, (ast.ListComp, ast.SetComp, ast.DictComp,
                          ast.GeneratorExp)) and id(n) in smap and \
                smap[id(n)].id in region and smap[id(n)].kind != 'for':
            k = _domain(g, n.generators[0].iter, smap[id(n)], root, region)
            if k is not None and k[0] != 'empty' and \
                    len(n.generators) > 1:
                sites.append((smap[id(n)], n.generators[0].iter, k))
    if not sites:
        raise AnalysisError('UNRECOGNISED-IDIOM %s: no loop over the queues '
                            'of the raptor backlog %s in the cancel_tasks '
                            'branch' % (f.where, root))
    ins = None
    hist = ('two raptor masters, master.1 has registered its queue, master.2 '
            'not yet; task.r1 (raptor_id master.2) is held back in the '
            'backlog; cancel request [task.r1]: the backlog is not searched, '
            'task.r1 stays in it, is relayed to master.2 once that registers '
            'and is executed - it never ends as CANCELED')
    for H, it, k in sites:
        where = 'the search of the raptor backlog (`%s` at line %d)' % (
            short(it, 40), getattr(it, 'lineno', 0))
        if k[0] == 'unknown':
            raise AnalysisError('UNRECOGNISED-IDIOM %s: the queues of the '
                                'raptor backlog that are searched are given '
                                'by %s' % (f.where, k[1]))
        if k[0] == 'part':
            rep.bad(rid, f, 'backlog-search:domain', '%s: %s visits only %s, '
                    'not every queue of %s: a named task held back in one of '
                    'the other queues is not taken out, is relayed to its '
                    'raptor master later and never ends as CANCELED' % (
                        f.qual, where, k[1], root), f.loc(it), history=hist)
            continue
        conds = list(k[1]) + [(g.nodes[t].ast, lab == 'T')
                              for t, lab in guards(g, H.id, within=region)]
        conds += _invariant_guards(f, g, H, al)
        seen, bad = set(), False
        for atom, pol in conds:
            key = (unparse(atom), pol)
            if key in seen:
                continue
            seen.add(key)
            reads = reads_through_defs(g, atom, H) - _BUILTINS
            selfs = {r for r in reads if r.startswith('self.')}
            inner, p2 = strip_truth(atom)
            p2 = p2 == pol
            if isinstance(inner, ast.Call) and isinstance(
                    inner.func, ast.Name) and inner.func.id == 'len' and \
                    len(inner.args) == 1:
                inner = inner.args[0]
            plain = isinstance(inner, (ast.Name, ast.Attribute))
            cond = '`%s` is %s' % (short(atom, 50), 'true' if pol else 'false')
            if selfs <= {root} and (selfs or (av and av in reads)):
                # the emptiness of the backlog / of the request itself
                if not plain:
                    raise AnalysisError(
                        'UNRECOGNISED-IDIOM %s: %s is made only when %s'
                        % (f.where, where, cond))
                if p2:
                    continue     # nothing held back / nothing named
                bad = True
                rep.bad(rid, f, 'backlog-search:%s' % unparse(atom),
                        '%s: %s is made only when %s, i.e. when there is '
                        'nothing to find: whenever tasks are held back / '
                        'named the search is skipped and the named tasks '
                        'stay in the backlog' % (f.qual, where, cond),
                        f.loc(atom), history=hist)
                continue
            others = sorted(selfs - {root})
            if not others:
                raise AnalysisError(
                    'UNRECOGNISED-IDIOM %s: %s is made only when %s'
                    % (f.where, where, cond))
            if not all(_changes_attr(prog, sb, x) for x in others):
                raise AnalysisError(
                    'UNRECOGNISED-IDIOM %s: %s is made only when %s, which '
                    'is fixed when the component is set up'
                    % (f.where, where, cond))
            # a fast path: it is justified only if no task is put into the
            # backlog while the condition does not hold
            if ins is None:
                ins = _backlog_insertions(prog, sb, root)
                if not ins:
                    raise AnalysisError(
                        'UNRECOGNISED-IDIOM %s: nothing is ever put into %s'
                        % (sb.name, root))
            text = unparse(atom)
            free = []
            for fi, gi, ni in ins:
                same = [(a, p) for a, p in guard_atoms_of(gi, ni)
                        if unparse(a) == text]
                if same and all(p == pol for a, p in same):
                    continue
                if not same:
                    for a, p in guard_atoms_of(gi, ni):
                        ra = {r for r in reads_through_defs(gi, a, ni)
                              if r in others}
                        member = isinstance(a, ast.Compare) and \
                            len(a.ops) == 1 and isinstance(
                                a.ops[0], (ast.In, ast.NotIn))
                        if ra and not member:
                            raise AnalysisError(
                                'UNRECOGNISED-IDIOM %s: %s is made only when '
                                '%s; %s puts tasks into the backlog under '
                                '`%s`, which is not compared here' % (
                                    f.where, where, cond, fi.qual,
                                    short(a, 40)))
                free.append((fi, ni))
            if not free:
                raise AnalysisError(
                    'UNRECOGNISED-IDIOM %s: %s is made only when %s; whether '
                    'the backlog is empty whenever that does not hold is '
                    'not decided' % (f.where, where, cond))
            bad = True
            fi, ni = free[0]
            rep.bad(rid, f, 'backlog-search:%s' % text,
                    '%s: %s is made only when %s, but %s puts tasks into %s '
                    '(line %s) without that condition: tasks are held back '
                    'while it does not hold (a task for a raptor master that '
                    'has not registered yet, while another master has), the '
                    'cancel request does not look at them, they stay in the '
                    'backlog, are relayed to their master later and never '
                    'end as CANCELED' % (
                        f.qual, where, cond, fi.qual, root,
                        getattr(ni.ast, 'lineno', '?')),
                    f.loc(atom), history=hist)
        if not bad:
            rep.ok(rid, f, '%s visits every queue of %s whenever tasks may '
                   'be held back' % (where, root), f.loc(it))


def _invariant_guards(f, g, H, al):
    """[(atom, polarity)] tests inside the body of the search loop H which
    every removal from the backlog in that body depends on and which do not
    depend on the current queue (nor on anything bound in the body): such a
    test skips the search of every queue alike, as if it stood in front of the
    loop.  Tests on the current queue / task are the selection itself."""
    if H.kind != 'for':
        return []
    body = g.loop_body[H.id]
    inner = set(stores_in_target(H.ast.target))
    for x in walk(H.ast, nested=True):
        if isinstance(x, (ast.For, ast.comprehension)):
            inner |= set(stores_in_target(x.target))
        elif isinstance(x, ast.Assign):
            for t in x.targets:
                inner |= set(stores_in_target(t))
        elif isinstance(x, (ast.AnnAssign, ast.NamedExpr, ast.AugAssign)):
            inner |= set(stores_in_target(x.target))
    smap = I.stmt_node_map(g)
    rem = []
    for x in walk(H.ast, nested=True):
        hit = False
        if isinstance(x, ast.Call) and isinstance(x.func, ast.Attribute) and \
                x.func.attr in ('remove', 'pop', 'clear') and \
                al.is_rooted_expr(f.name, x.func.value):
            hit = True
        elif isinstance(x, ast.Delete) and any(
                isinstance(t, ast.Subscript) and
                al.is_rooted_expr(f.name, t.value) for t in x.targets):
            hit = True
        elif isinstance(x, ast.Assign) and any(
                isinstance(t, ast.Subscript) and
                al.is_rooted_expr(f.name, t.value) for t in x.targets):
            hit = True
        if hit and id(x) in smap and smap[id(x)].id in body and \
                smap[id(x)] not in rem:
            rem.append(smap[id(x)])
    if not rem:
        return []
    common = None
    for m in rem:
        gs = set(guards(g, m.id, within=body))
        common = gs if common is None else common & gs
    out = []
    for t, lab in sorted(common):
        tn = g.nodes[t]
        reads = reads_through_defs(g, tn.ast, tn)
        if reads & inner:
            continue
        out.append((tn.ast, lab == 'T'))
    return out


def guard_atoms_of(g, node):
    return [(g.nodes[t].ast, lab == 'T') for t, lab in guards(g, node.id)]


# ------------------------------------------------------------------------------
# R08.5b  lazy iteration over a container that the loop body changes
#
_LAZY_CALLS = ('filter', 'map', 'enumerate', 'zip', 'iter',
               'islice', 'chain', 'takewhile', 'dropwhile', 'filterfalse')


def _lazy_sources(e):
    """texts of the access paths a lazily evaluated iterable reads its
    elements from while it is being consumed: generator expressions and the
    lazy builtins (filter, map, enumerate, zip, iter, reversed, itertools);
    a path itself is live too.  Copies (list(E), sorted(E), E[:], a list
    comprehension) are evaluated once and read nothing later."""
    if e is None:
        return set()
    if I.is_path(e) and not (isinstance(e, ast.Subscript) and
                            isinstance(e.slice, ast.Slice)):
        return {unparse(e)}
    if isinstance(e, ast.GeneratorExp):
        # the first iterable is bound when the generator is created but read
        # lazily all the same; the others are evaluated lazily altogether
        out = set()
        for gen in e.generators:
            out |= _lazy_sources(gen.iter)
        return out
    if isinstance(e, ast.Call) and dotted(e.func).split('.')[-1] in \
            _LAZY_CALLS:
        out = set()
        for a in e.args:
            if not isinstance(a, ast.Lambda):
                out |= _lazy_sources(a)
        return out
    if isinstance(e, ast.Call) and isinstance(e.func, ast.Attribute) and \
            e.func.attr in ('keys', 'values', 'items') and not e.args:
        return _lazy_sources(e.func.value)
    return set()


def lazy_iterated_mutations(f):
    """[(for ast, lazy iterable ast, mutating ast node)]: a `for x in IT`
    where IT is (a local name bound to) a lazily evaluated view of a container
    E - a generator expression, filter(), enumerate(), .. - and the body
    removes from / adds to E and goes on iterating.  The plain `for x in E`
    is I.iterated_container_mutations."""
    out = []
    g = cfg_of(f)
    for n in g.nodes:
        if n.kind != 'for':
            continue
        it = n.ast.iter
        if isinstance(it, ast.Name):
            rd = reaching_defs(g, it.id, n.id)
            if len(rd) != 1 or rd[0][1] is None:
                continue
            it = rd[0][1]
            if I.is_path(it):
                continue                 # an alias: not decided here
        elif I.is_path(it):
            continue                     # I.iterated_container_mutations
        srcs = _lazy_sources(it)
        if not srcs:
            continue
        body = g.loop_body[n.id]
        for m in g.stmt_nodes():
            if m.id not in body or m.kind != 'stmt':
                continue
            hit = None
            for c in calls_in(m.ast):
                if isinstance(c.func, ast.Attribute) and c.func.attr in \
                        ('remove', 'pop', 'insert', 'append', 'clear',
                         'extend', 'popitem') and \
                        unparse(c.func.value) in srcs:
                    hit = c
            if isinstance(m.ast, ast.Delete):
                for t in m.ast.targets:
                    if isinstance(t, ast.Subscript) and \
                            unparse(t.value) in srcs:
                        hit = m.ast
            if hit is None:
                continue
            goes_on = False
            for e in g.succ[m.id]:
                if e.label == 'exc':
                    continue
                seen = g.reachable(e.dst, skip_nodes={n.id}) | {e.dst}
                if any(ed.dst == n.id and ed.back for x in seen | {m.id}
                       for ed in g.succ[x]):
                    goes_on = True
            if goes_on:
                out.append((n.ast, it, hit))
    return out


# ------------------------------------------------------------------------------
#
def run(prog, rep, tier):
    rep.decided = ("the cancel list grows only by arg['uids'] of cancel_tasks "
        "messages; is_canceled reports/hands on only a uid found in the list "
        "and only the task it was given; the intake filter keeps exactly the "
        "not-canceled things; the scheduler forwards the uids to its process "
        "and filters the raptor backlog by `uid in uids`; the executor cancels "
        "get_task(uid) for uid in the request; cancel_task kills the pid of "
        "the task it was given and records CANCELED; message keys read by "
        "cancel handlers are written by the publisher, which sets fwd=True. "
        "Wait-pool removal keyed by uid: R04.5; exactly-once release and "
        "arbitration of running tasks: R07.1/R07.2 (re-evaluated here).  "
        "R08.6: every insertion of a task into the wait pool is followed on "
        "every path (or preceded, on its not-canceled edge) by is_canceled() "
        "of that task, skipped at most while the cancel list is empty, and a "
        "true answer removes the task from the pool again.  R08.7 (= R07.7 "
        "re-evaluated): the contender that took a running task out of the "
        "registry finishes it on every way out (freed once, final state).  "
        "The cancel list is only ever extended (never re-bound); a listed "
        "thing with a state is handed on as CANCELED on every path of "
        "is_canceled.  R08.8: a single uid given as a string is wrapped, not "
        "iterated, where requests are normalised.  R08.9: nothing drops a "
        "whole priority level of the wait pool.  R08.10: the result of "
        "poll() is compared with None, not tested for truth.  R08.11: a "
        "loop over the wait pool levels that removes entries and can be left "
        "early searches for one uid only.  R08.12: that search is left "
        "early only on a path on which the entry was found and removed.  "
        "R08.13: the identity tests under which BaseComponent._control_cb "
        "hands the request to control_cb() hold for every agent scheduler "
        "and executor class (evaluated on the module / class names and the "
        "component kinds of the factory table).  R08.14: loops that serve "
        "the uids of a request are not left from within an iteration on "
        "account of the current uid.  R08.16: the loop which searches the raptor backlog for the named tasks visits every queue of it, skipped at most while the backlog or the request is empty.  R08.5 also covers lazily evaluated "
        "iterables (generator expression, filter, enumerate ..) over a "
        "container the loop body changes.  R08.15 (= R05.13 re-evaluated): "
        "the client replay of a CANCELED notification ends with CANCELED.")
    rep.undecided = ('delivery timing of the request relative to the task '
        '(covered per stage by the rules above, not as a global history); '
        'whether os.killpg reaches the task processes (process groups).')
    rep.assumptions = ['uids are unique across tasks',
                       'zmq pubsub delivers the control message to every '
                       'subscribed component']
    rep.attempt(r08_1, prog, rep)
    rep.attempt(r08_3, prog, rep)
    rep.attempt(r08_4, prog, rep)
    rep.attempt(r08_5, prog, rep)
    rep.attempt(r08_6, prog, rep)
    rep.attempt(r08_8, prog, rep)
    rep.attempt(r08_9, prog, rep)
    rep.attempt(r08_10, prog, rep)
    rep.attempt(r08_11, prog, rep)
    rep.attempt(r08_12, prog, rep)
    rep.attempt(r08_13, prog, rep)
    rep.attempt(r08_14, prog, rep)
    rep.attempt(r08_16, prog, rep)
    # "it ends as CANCELED": on the client the notification CANCELED makes the
    # Task object final only if the replay applies the notified state itself
    from .c05 import r05_13
    rep.attempt(r05_13, prog, rep, rid='R08.15')
    from .c04 import r04_5
    rep.attempt(r04_5, prog, rep, rid='R04.5')
    from .c07 import r07_2, r07_7
    rep.attempt(r07_2, prog, rep, rid='R07.2')
    # "the resources it held are freed exactly once, and it ends as CANCELED
    # unless it had already finished": whoever takes the uid out of the
    # registry (cancel_task or the watcher) owns the task and has to finish it
    rep.attempt(r07_7, prog, rep, rid='R08.7')
    if tier == 'thorough':
        rep.rule('R08.4s', 'sweep: message key agreement for every command '
                 'handler in the package', minimum=0)
        rep.attempt(r08_4, prog, rep, sweep=True)
        rep.rule('R08.5s', 'sweep: loops which mutate the container they '
                 'iterate, package wide (information)', minimum=0)
        rep.attempt(r08_5, prog, rep, sweep=True)


# ------------------------------------------------------------------------------
_U = 'utils/component.py'
_S = 'agent/scheduler/base.py'
_E = 'agent/executing/base.py'
_P = 'agent/executing/popen.py'
_L = 'agent/launch_method/base.py'
_T = 'task_manager.py'

_CHK = "\n                # now that we added the task to the waitpool, check if a cancel\n                # request has meanwhile arrived - if so remove it, otherwise it\n                # will get removed during the next iteration of the main loop\n                if self.is_canceled(task) is True:\n                    del self._waitpool[priority][uid]\n"
_ISC = "            tid = task['uid']\n\n            if tid not in self._cancel_list:\n                return False\n\n            if 'state' in task:\n                self.advance(task, rps.CANCELED, publish=True, push=False)\n\n            # remove from cancel list\n            self._cancel_list.remove(tid)\n\n            return True\n"
_FLT = "                    if self._cancel_list:\n                        things = [x for x in things\n                                    if not self.is_canceled(x)]\n"

_NRM = "            if not isinstance(uids, list):\n                uids = [uids]\n"
_RAP = "                for queue in self._raptor_tasks:\n                    matches = [t for t in self._raptor_tasks[queue]\n                                       if t['uid'] in uids]\n                    for task in matches:\n                        to_cancel.append(task)\n                        self._raptor_tasks[queue].remove(task)\n"
_ARB = "        with self._check_lock:\n            if tid not in self._tasks:\n                return\n            try:\n                del self._tasks[tid]\n            except KeyError:\n                pass\n"
_CBR = "                    for uid in data:\n                        for priority in self._waitpool:\n                            task = self._waitpool[priority].get(uid)\n                            if task:\n                                to_cancel.append(task)\n                                del self._waitpool[priority][uid]\n                                break\n"

_RAPL = "                for queue in self._raptor_tasks:\n"
_HND = "            if 'agent.scheduler' in repr(self) or \\\n               'agent.executing' in repr(self):\n                self.control_cb(topic, msg)\n                return\n"
_EXL = "            for tid in arg['uids']:\n                task = self.get_task(tid)\n                if task:\n                    self.cancel_task(task)\n"
_PSD = "                        passed = passed[-1:]\n"

MUTATIONS = [
    dict(name='R08.1 cancel list extended for every command', rules=('R08.1',), edits=[
        (_U, "        if cmd == 'cancel_tasks':\n\n            uids = arg['uids']\n\n            if not isinstance(uids, list):\n                uids = [uids]\n",
             "        uids = (arg or {}).get('uids', [])\n        with self._cancel_lock:\n            self._cancel_list += uids\n\n        if cmd == 'cancel_tasks':\n\n            uids = arg['uids']\n\n            if not isinstance(uids, list):\n                uids = [uids]\n")]),
    dict(name='R08.1 cancel list extended without the lock', rules=('R08.1',), edits=[
        (_U, "            with self._cancel_lock:\n                self._cancel_list += uids\n", "            self._cancel_list += uids\n")]),
    dict(name='R08.1 is_canceled membership polarity flipped', rules=('R08.1',), edits=[
        (_U, "            if tid not in self._cancel_list:\n                return False\n", "            if tid in self._cancel_list:\n                return False\n")]),
    dict(name='R08.1 is_canceled without membership test', rules=('R08.1',), edits=[
        (_U, "            if tid not in self._cancel_list:\n                return False\n\n", "")],
         note='membership test gone: unrecognised or violation'),
    dict(name='R08.1 is_canceled tests the task type instead of the uid', rules=('R08.1',), edits=[
        (_U, "            tid = task['uid']\n\n            if tid not in self._cancel_list:", "            tid = task['type']\n\n            if tid not in self._cancel_list:")]),
    dict(name='R08.1 intake filter polarity flipped', rules=('R08.1',), edits=[
        (_U, "                                    if not self.is_canceled(x)]", "                                    if self.is_canceled(x)]")]),
    dict(name='R08.1 intake filter drops the bulk when anything is canceled', rules=('R08.1',), edits=[
        (_U, "                        things = [x for x in things\n                                    if not self.is_canceled(x)]", "                        things = [x for x in things\n                                    if not self.is_canceled(things[0])]")]),
    dict(name='R08.1 scheduler does not forward the request to its process', rules=('R08.1',), edits=[
        (_S, "            self._queue_sched.put((uids, self._CANCEL))\n", "")]),
    dict(name='R08.1 scheduler forwards the request as SCHEDULE', rules=('R08.1',), edits=[
        (_S, "            self._queue_sched.put((uids, self._CANCEL))\n", "            self._queue_sched.put((uids, self._SCHEDULE))\n")]),
    dict(name='R08.1 raptor backlog filter negated', rules=('R08.1',), edits=[
        (_S, "                                       if t['uid'] in uids]", "                                       if t['uid'] not in uids]")]),
    dict(name='R08.1 raptor backlog filter by queue name', rules=('R08.1',), edits=[
        (_S, "                                       if t['uid'] in uids]", "                                       if queue in uids]")]),
    dict(name='R08.1 raptor backlog task reported but not removed', rules=('R08.1',), edits=[
        (_S, "                        to_cancel.append(task)\n                        self._raptor_tasks[queue].remove(task)\n", "                        to_cancel.append(task)\n")]),
    dict(name='R08.1 executor cancels every known task', rules=('R08.1',), edits=[
        (_E, "            for tid in arg['uids']:\n                task = self.get_task(tid)\n                if task:\n                    self.cancel_task(task)\n", "            for tid in list(self._tasks):\n                task = self.get_task(tid)\n                if task:\n                    self.cancel_task(task)\n")]),
    dict(name='R08.1 executor ignores cancel requests', rules=('R08.1',), edits=[
        (_E, "                if task:\n                    self.cancel_task(task)\n\n        elif cmd == 'task_startup_done':", "                if task:\n                    pass\n\n        elif cmd == 'task_startup_done':")]),
    dict(name='R08.1 executor cancels unknown tasks too', rules=('R08.1',), edits=[
        (_E, "                if task:\n                    self.cancel_task(task)\n\n        elif cmd == 'task_startup_done':", "                self.cancel_task(task)\n\n        elif cmd == 'task_startup_done':")]),
    dict(name='R08.1 popen kills the agent process group', rules=('R08.1',), edits=[
        (_P, "        launcher.cancel_task(task, proc.pid)\n", "        launcher.cancel_task(task, os.getpid())\n")]),
    dict(name='R08.1 launch method signals pid 0', rules=('R08.1',), edits=[
        (_L, "            os.killpg(pid, signal.SIGTERM)\n", "            os.killpg(0, signal.SIGTERM)\n")]),
    dict(name='R08.3 canceled task recorded as FAILED', rules=('R08.3',), edits=[
        (_P, "        task['target_state'] = rps.CANCELED\n", "        task['target_state'] = rps.FAILED\n")]),
    dict(name='R08.3 target state set after the hand-on', rules=('R08.3', 'R07.1'), edits=[
        (_P, "        task['exit_code']    = None\n        task['target_state'] = rps.CANCELED\n", "        task['exit_code']    = None\n"),
        (_P, "        self.advance([task], rps.AGENT_STAGING_OUTPUT_PENDING,\n                             publish=True, push=True)\n", "        self.advance([task], rps.AGENT_STAGING_OUTPUT_PENDING,\n                             publish=True, push=True)\n        task['target_state'] = rps.CANCELED\n")]),
    dict(name='R08.4 cancel request not forwarded', rules=('R08.4',), edits=[
        (_T, "                                                   'tmgr' : self.uid},\n                                          'fwd' : True})", "                                                   'tmgr' : self.uid},\n                                          'fwd' : False})")]),
    dict(name='R08.4 publisher renames the key', rules=('R08.4',), edits=[
        (_T, "                                          'arg' : {'uids' : uids,\n                                                   'tmgr' : self.uid},", "                                          'arg' : {'tids' : uids,\n                                                   'tmgr' : self.uid},")]),
    dict(name='R08.4 handler reads a key nobody writes', rules=('R08.4',), edits=[
        (_E, "            for tid in arg['uids']:\n                task = self.get_task(tid)", "            for tid in arg['task_ids']:\n                task = self.get_task(tid)")]),
    dict(name='R04.5 waiting task not removed on cancel', rules=('R04.5',), edits=[
        (_S, "                                to_cancel.append(task)\n                                del self._waitpool[priority][uid]\n", "                                to_cancel.append(task)\n")]),
    dict(name='R07.2 cancel without arbitration', rules=('R07.2',), edits=[
        (_P, "        with self._check_lock:\n            if tid not in self._tasks:\n                return\n            try:\n                del self._tasks[tid]", "        with self._check_lock:\n            try:\n                del self._tasks[tid]")]),
    dict(name='R08.5 raptor backlog pruned while iterating it (seed C08-a)', rules=('R08.5',), edits=[
        (_S, "                    matches = [t for t in self._raptor_tasks[queue]\n                                       if t['uid'] in uids]\n                    for task in matches:\n                        to_cancel.append(task)\n                        self._raptor_tasks[queue].remove(task)\n", "                    for task in self._raptor_tasks[queue]:\n                        if task['uid'] in uids:\n                            to_cancel.append(task)\n                            self._raptor_tasks[queue].remove(task)\n")]),
    dict(name='R08.5 watcher iterates the live watch list', rules=('R08.5',), edits=[
        (_P, "        for task in list(to_watch):\n", "        for task in to_watch:\n")]),
    dict(name='R08.6 post-insert cancel check only if a cancel request was pulled in the same call (seed C08-e)', rules=('R08.6',), edits=[
        (_S, "        to_raptor   = defaultdict(list)  # some tasks get forwared to raptor\n        try:\n", "        to_raptor   = defaultdict(list)  # some tasks get forwared to raptor\n        cancel_seen = False\n        try:\n"),
        (_S, "                if flag == self._CANCEL:\n                    to_cancel = list()\n", "                if flag == self._CANCEL:\n                    cancel_seen = True\n                    to_cancel = list()\n"),
        (_S, _CHK, "                if cancel_seen and self.is_canceled(task) is True:\n                    del self._waitpool[priority][uid]\n")]),
    dict(name='R08.6 post-insert cancel check skipped by an early continue on the per-call flag', rules=('R08.6',), edits=[
        (_S, "        to_raptor   = defaultdict(list)  # some tasks get forwared to raptor\n        try:\n", "        to_raptor   = defaultdict(list)  # some tasks get forwared to raptor\n        seen = 0\n        try:\n"),
        (_S, "                if flag == self._CANCEL:\n                    to_cancel = list()\n", "                if flag == self._CANCEL:\n                    seen += 1\n                    to_cancel = list()\n"),
        (_S, _CHK, "                if not seen:\n                    continue\n                canceled = self.is_canceled(task)\n                if canceled:\n                    del self._waitpool[priority][uid]\n")]),
    dict(name='R08.6 post-insert cancel check only while tasks are running', rules=('R08.6',), edits=[
        (_S, _CHK, "                if self._active_cnt and self.is_canceled(task) is True:\n                    del self._waitpool[priority][uid]\n")]),
    dict(name='R08.6 post-insert cancel check removed', rules=('R08.6',), edits=[
        (_S, _CHK, "")]),
    dict(name='R08.6 canceled task stays in the wait pool', rules=('R08.6',), edits=[
        (_S, _CHK, "                if self.is_canceled(task) is True:\n                    self._log.debug('canceled: %s', uid)\n")]),
    dict(name='R08.6 post-insert check removes the tasks which are not canceled', rules=('R08.6',), edits=[
        (_S, _CHK, "                if self.is_canceled(task) is not True:\n                    del self._waitpool[priority][uid]\n")]),
    dict(name='R08.7 cancel claims the task before it polls the process (seed C08-f)', rules=('R08.7',), edits=[
        (_P, "        # check if the task is, maybe, already done\n        exit_code = proc.poll()", "        with self._check_lock:\n            if tid not in self._tasks:\n                return\n            del self._tasks[tid]\n\n        # check if the task is, maybe, already done\n        exit_code = proc.poll()"),
        (_P, "        # remove from tasks dictionary, thus \"watcher\" will not pick it up\n        with self._check_lock:\n            if tid not in self._tasks:\n                return\n            try:\n                del self._tasks[tid]\n            except KeyError:\n                pass\n\n        # task is still running", "        # task is still running")]),
    dict(name='R08.7 cancel gives up after it claimed the task (no launcher)', rules=('R08.7',), edits=[
        (_P, "        launcher = self._rm.get_launcher(task['launcher_name'])\n        launcher.cancel_task(task, proc.pid)\n", "        launcher = self._rm.get_launcher(task['launcher_name'])\n        if not launcher:\n            return\n        launcher.cancel_task(task, proc.pid)\n")]),
    dict(name='R08.1 single-exit is_canceled returns the negated membership', rules=('R08.1',), edits=[
        (_U, _ISC, "            tid    = task['uid']\n            listed = tid in self._cancel_list\n\n            if listed:\n                if 'state' in task:\n                    self.advance(task, rps.CANCELED, publish=True, push=False)\n                self._cancel_list.remove(tid)\n\n            return not listed\n")]),
    dict(name='R08.1 single-exit is_canceled advances on the miss side', rules=('R08.1',), edits=[
        (_U, _ISC, "            tid    = task['uid']\n            listed = tid in self._cancel_list\n\n            if not listed:\n                if 'state' in task:\n                    self.advance(task, rps.CANCELED, publish=True, push=False)\n            else:\n                self._cancel_list.remove(tid)\n\n            return listed\n")]),
    dict(name='R08.1 intake filter helper keeps the canceled things', rules=('R08.1',), edits=[
        (_U, _FLT, "                    things = self._drop_canceled(things)\n"),
        (_U, "    def work_cb(self):\n", "    def _drop_canceled(self, things):\n        if not self._cancel_list:\n            return things\n        return [thing for thing in things if self.is_canceled(thing)]\n\n    def work_cb(self):\n")]),
    dict(name='R08.1 intake filter helper result is dropped', rules=('R08.1',), edits=[
        (_U, _FLT, "                    self._drop_canceled(things)\n"),
        (_U, "    def work_cb(self):\n", "    def _drop_canceled(self, things):\n        if not self._cancel_list:\n            return things\n        return [thing for thing in things if not self.is_canceled(thing)]\n\n    def work_cb(self):\n")]),
    dict(name='R08.1 intake filter only for one state', rules=('R08.1',), edits=[
        (_U, "                    if self._cancel_list:\n                        things = [x for x in things\n", "                    if self._cancel_list and qname:\n                        things = [x for x in things\n")]),
    dict(name='R08.6 post-insert cancel check nested under the per-call flag', rules=('R08.6',), edits=[
        (_S, "        to_raptor   = defaultdict(list)  # some tasks get forwared to raptor\n        try:\n", "        to_raptor   = defaultdict(list)  # some tasks get forwared to raptor\n        cs = False\n        try:\n"),
        (_S, "                if flag == self._CANCEL:\n                    to_cancel = list()\n", "                if flag == self._CANCEL:\n                    cs = True\n                    to_cancel = list()\n"),
        (_S, _CHK, "                if cs:\n                    if self.is_canceled(task) is True:\n                        del self._waitpool[priority][uid]\n")]),
    dict(name='R08.6 post-insert cancel check only for bulks of waiting tasks', rules=('R08.6',), edits=[
        (_S, _CHK, "                if len(to_wait) > 1 and self.is_canceled(task) is True:\n                    del self._waitpool[priority][uid]\n")]),
    dict(name='R08.6 canceled task: another key is removed from the pool', rules=('R08.6',), edits=[
        (_S, _CHK, "                if self.is_canceled(task) is True:\n                    self._waitpool[priority].pop(priority, None)\n")]),
    dict(name='R08.1 single-exit is_canceled answers True for everything', rules=('R08.1',), edits=[
        (_U, _ISC, "            tid = task['uid']\n            found = tid in self._cancel_list\n            if found:\n                if 'state' in task:\n                    self.advance(task, rps.CANCELED, publish=True, push=False)\n                self._cancel_list.remove(tid)\n            return True\n")]),
    dict(name='R08.1 intake filter in loop form keeps the canceled things', rules=('R08.1',), edits=[
        (_U, _FLT, "                    if self._cancel_list:\n                        kept = []\n                        for x in things:\n                            c = self.is_canceled(x)\n                            if not c:\n                                continue\n                            kept.append(x)\n                        things = kept\n")]),
    dict(name='R08.1 filtered list is not what the worker gets', rules=('R08.1',), edits=[
        (_U, _FLT, "                    if self._cancel_list:\n                        kept = [x for x in things if not self.is_canceled(x)]\n")]),
    dict(name='R08.8 single uid turned into the list of its characters (seed C08-g1)', rules=('R08.8',), edits=[
        (_T, _NRM, "            if not isinstance(uids, list):\n                uids = list(uids)\n")]),
    dict(name='R08.8 same slip where the component registers the uids', rules=('R08.8',), edits=[
        (_U, _NRM, "            if not isinstance(uids, list):\n                uids = sorted(uids)\n")]),
    dict(name='R08.8 single uid unpacked into the list', rules=('R08.8',), edits=[
        (_T, _NRM, "            single = not isinstance(uids, (list, tuple))\n            if single:\n                uids = [*uids]\n")]),
    dict(name='R08.8 publisher does not normalise a single uid', rules=('R08.8',), edits=[
        (_T, "        else:\n" + _NRM, "")]),
    dict(name='R08.1 cancel list replaced instead of extended (seed C08-g2)', rules=('R08.1',), edits=[
        (_U, "                self._cancel_list += uids\n", "                self._cancel_list = uids\n")]),
    dict(name='R08.1 cancel list replaced by a copy of the request', rules=('R08.1',), edits=[
        (_U, "                self._cancel_list += uids\n", "                self._cancel_list = list(uids)\n")]),
    dict(name='R08.1 is_canceled advances only things without a state (seed C08-g3)', rules=('R08.1',), edits=[
        (_U, "            if 'state' in task:\n                self.advance(task, rps.CANCELED, publish=True, push=False)\n", "            if 'state' not in task:\n                self.advance(task, rps.CANCELED, publish=True, push=False)\n")]),
    dict(name='R08.1 is_canceled: hand-on in the else arm of the state test', rules=('R08.1',), edits=[
        (_U, "            if 'state' in task:\n                self.advance(task, rps.CANCELED, publish=True, push=False)\n", "            stateful = 'state' in task\n            if stateful:\n                pass\n            else:\n                self.advance(task, rps.CANCELED, publish=True, push=False)\n")]),
    dict(name='R08.1 is_canceled does not hand the task on', rules=('R08.1',), edits=[
        (_U, "            if 'state' in task:\n                self.advance(task, rps.CANCELED, publish=True, push=False)\n", "")]),
    dict(name='R08.9 cancel drops the whole priority level (seed C08-g5)', rules=('R08.9',), edits=[
        (_S, "                                to_cancel.append(task)\n                                del self._waitpool[priority][uid]\n", "                                to_cancel.append(task)\n                                del self._waitpool[priority]\n")]),
    dict(name='R08.9 cancel pops the whole priority level', rules=('R08.9',), edits=[
        (_S, "                                to_cancel.append(task)\n                                del self._waitpool[priority][uid]\n", "                                to_cancel.append(task)\n                                self._waitpool.pop(priority)\n")]),
    dict(name='R08.9 post-insert check clears the priority level', rules=('R08.9',), edits=[
        (_S, _CHK, "                if self.is_canceled(task) is True:\n                    self._waitpool[priority].clear()\n")]),
    dict(name='R08.10 exit status tested for truth in cancel_task (seed C08-g6)', rules=('R08.10',), edits=[
        (_P, "        exit_code = proc.poll()\n        if exit_code is not None:\n", "        exit_code = proc.poll()\n        if exit_code:\n")]),
    dict(name='R08.10 poll() tested for truth directly', rules=('R08.10',), edits=[
        (_P, "        exit_code = proc.poll()\n        if exit_code is not None:\n", "        if proc.poll():\n")]),
    dict(name='R08.10 watcher tests the exit status for truth', rules=('R08.10',), edits=[
        (_P, "            exit_code = task_proc.poll()\n            if exit_code is not None:\n", "            exit_code = task_proc.poll()\n            if exit_code:\n")]),
    dict(name='R08.1 raptor backlog overwritten by the complement before the selection', rules=('R08.1',), edits=[
        (_S, _RAP, "                for queue in self._raptor_tasks:\n                    backlog = self._raptor_tasks[queue]\n                    backlog[:] = [t for t in backlog if t['uid'] not in uids]\n                    to_cancel += [t for t in backlog if t['uid'] in uids]\n")]),
    dict(name='R08.1 raptor backlog overwritten by the selection', rules=('R08.1',), edits=[
        (_S, _RAP, "                for queue in self._raptor_tasks:\n                    backlog = self._raptor_tasks[queue]\n                    to_cancel += [t for t in backlog if t['uid'] in uids]\n                    backlog[:] = [t for t in backlog if t['uid'] in uids]\n")]),
    dict(name='R08.11 wait pool search for several uids stops at the first level with a hit (seed C08-c)', rules=('R08.11',), edits=[
        (_S, _CBR, "                    uids      = set(data)\n                    for priority in self._waitpool:\n                        pool = self._waitpool[priority]\n                        hits = uids.intersection(pool)\n                        if hits:\n                            to_cancel += [pool.pop(uid) for uid in hits]\n                            break\n")]),
    dict(name='R08.11 same with an explicit inner loop', rules=('R08.11',), edits=[
        (_S, _CBR, "                    for priority in self._waitpool:\n                        pool = self._waitpool[priority]\n                        found = [u for u in data if u in pool]\n                        for u in found:\n                            to_cancel.append(pool.pop(u))\n                        if found:\n                            break\n")]),
    # round 5: R08.12 .. R08.15, R08.5 on lazily evaluated iterables
    dict(name='R08.13 scheduler name misspelled in the hand-over test (seed C08-h1)', rules=('R08.13',), edits=[
        (_U, "            if 'agent.scheduler' in repr(self) or \\\n", "            if 'agent.scheduling' in repr(self) or \\\n")]),
    dict(name='R08.13 executor name misspelled in the hand-over test', rules=('R08.13',), edits=[
        (_U, "               'agent.executing' in repr(self):\n", "               'agent.executor' in repr(self):\n")]),
    dict(name='R08.13 hand-over test on the uid with a kind nobody has', rules=('R08.13',), edits=[
        (_U, _HND, "            if self.uid.startswith(('agent_scheduler', 'agent_executing')):\n                self.control_cb(topic, msg)\n                return\n")]),
    dict(name='R08.13 hand-over test with `and`', rules=('R08.13',), edits=[
        (_U, _HND, "            if 'agent.scheduler' in repr(self) and \\\n               'agent.executing' in repr(self):\n                self.control_cb(topic, msg)\n                return\n")]),
    dict(name='R08.13 early return for everything but the scheduler', rules=('R08.13',), edits=[
        (_U, _HND, "            if 'agent.scheduler' not in repr(self):\n                return\n            self.control_cb(topic, msg)\n            return\n")]),
    dict(name='R08.13 hand-over test on the class name in the wrong case', rules=('R08.13',), edits=[
        (_U, _HND, "            ctype = self.ctype\n            if 'agent.Scheduler' in ctype or 'agent.executing' in ctype:\n                self.control_cb(topic, msg)\n                return\n")]),
    dict(name='R08.12 break of the level search dedented out of the hit branch (seed C08-h2)', rules=('R08.12',), edits=[
        (_S, "                                del self._waitpool[priority][uid]\n                                break\n", "                                del self._waitpool[priority][uid]\n                            break\n")]),
    dict(name='R08.12 level search in early-exit form leaves on a miss', rules=('R08.12',), edits=[
        (_S, _CBR, "                    for uid in data:\n                        for priority in self._waitpool:\n                            task = self._waitpool[priority].get(uid)\n                            if not task:\n                                break\n                            to_cancel.append(task)\n                            del self._waitpool[priority][uid]\n")]),
    dict(name='R08.12 level search pops with a default and leaves whatever it got', rules=('R08.12',), edits=[
        (_S, _CBR, "                    for uid in data:\n                        for pool in self._waitpool.values():\n                            task = pool.pop(uid, None)\n                            if task is not None:\n                                to_cancel.append(task)\n                            break\n")]),
    dict(name='R08.12 level search: hit test of the popped entry inverted', rules=('R08.12',), edits=[
        (_S, _CBR, "                    for uid in data:\n                        for pool in self._waitpool.values():\n                            task = pool.pop(uid, None)\n                            if task is None:\n                                break\n                            to_cancel.append(task)\n")]),
    dict(name='R08.14 break dedented out of the level search into the loop over the uids', rules=('R08.14',), edits=[
        (_S, "                                del self._waitpool[priority][uid]\n                                break\n", "                                del self._waitpool[priority][uid]\n                        break\n")]),
    dict(name='R08.14 executor: an unknown uid ends the request (seed C08-h4)', rules=('R08.14',), edits=[
        (_E, _EXL, "            for tid in arg['uids']:\n                task = self.get_task(tid)\n                if not task:\n                    # not our task, nothing to do\n                    return\n                self.cancel_task(task)\n")]),
    dict(name='R08.14 executor: an unknown uid breaks the loop', rules=('R08.14',), edits=[
        (_E, _EXL, "            for tid in arg['uids']:\n                task = self.get_task(tid)\n                if task is None:\n                    break\n                self.cancel_task(task)\n")]),
    dict(name='R08.14 executor: returns after the first task it cancelled', rules=('R08.14',), edits=[
        (_E, _EXL, "            for tid in arg['uids']:\n                task = self.get_task(tid)\n                if task:\n                    self.cancel_task(task)\n                    return\n")]),
    dict(name='R08.14 raptor backlog: only the first match of a queue is taken', rules=('R08.14',), edits=[
        (_S, "                        to_cancel.append(task)\n                        self._raptor_tasks[queue].remove(task)\n", "                        to_cancel.append(task)\n                        self._raptor_tasks[queue].remove(task)\n                        break\n")]),
    dict(name='R08.14 raptor backlog: search ends at the first queue with a match', rules=('R08.14',), edits=[
        (_S, "                        to_cancel.append(task)\n                        self._raptor_tasks[queue].remove(task)\n", "                        to_cancel.append(task)\n                        self._raptor_tasks[queue].remove(task)\n                    if matches:\n                        break\n")]),
    dict(name='R08.5 raptor backlog selection as a generator over the list being pruned (seed C08-h3)', rules=('R08.5',), edits=[
        (_S, "                    matches = [t for t in self._raptor_tasks[queue]\n                                       if t['uid'] in uids]\n", "                    matches = (t for t in self._raptor_tasks[queue]\n                                       if t['uid'] in uids)\n")]),
    dict(name='R08.5 raptor backlog selection by filter() over the list being pruned', rules=('R08.5',), edits=[
        (_S, _RAP, "                for queue in self._raptor_tasks:\n                    for task in filter(lambda t: t['uid'] in uids,\n                                       self._raptor_tasks[queue]):\n                        to_cancel.append(task)\n                        self._raptor_tasks[queue].remove(task)\n")]),
    dict(name='R08.5 raptor backlog: generator over an alias of the list being pruned', rules=('R08.5',), edits=[
        (_S, _RAP, "                for queue in self._raptor_tasks:\n                    backlog = self._raptor_tasks[queue]\n                    for task in (t for t in backlog if t['uid'] in uids):\n                        to_cancel.append(task)\n                        backlog.remove(task)\n")]),
    dict(name='R08.5 watcher enumerates the live watch list', rules=('R08.5',), edits=[
        (_P, "        for task in list(to_watch):\n", "        for _, task in enumerate(to_watch):\n")]),
    dict(name='R08.15 client replay drops the notified state (seed C08-h6)', rules=('R08.15',), edits=[
        (_T, _PSD, "                        passed = passed[:-1]\n")]),
    dict(name='R08.15 client replay keeps the first instead of the last state', rules=('R08.15',), edits=[
        (_T, _PSD, "                        passed = passed[:1]\n")]),
    dict(name='R08.15 client replay: the last state popped off', rules=('R08.15',), edits=[
        (_T, _PSD, "                        passed.pop()\n")]),
    dict(name='R08.16 raptor backlog only searched while no raptor queue is registered (seed C08-i6)', rules=('R08.16',), edits=[
        (_S, _RAPL, "                backlog = self._raptor_tasks if not self._raptor_queues else []\n                for queue in backlog:\n")]),
    dict(name='R08.16 raptor backlog search under `if not self._raptor_queues`', rules=('R08.16',), edits=[
        (_S, _RAP, "                if not self._raptor_queues:\n                    for queue in self._raptor_tasks:\n                        matches = [t for t in self._raptor_tasks[queue]\n                                           if t['uid'] in uids]\n                        for task in matches:\n                            to_cancel.append(task)\n                            self._raptor_tasks[queue].remove(task)\n")]),
    dict(name='R08.16 early return from the cancel branch when a raptor queue is registered', rules=('R08.16',), edits=[
        (_S, "            # also cancel any raptor tasks we know about\n", "            if len(self._raptor_queues) > 0:\n                return\n")]),
    dict(name='R08.16 backlog bound to the empty dict unless no queue is registered', rules=('R08.16',), edits=[
        (_S, _RAPL, "                backlog = dict()\n                if not self._raptor_queues:\n                    backlog = self._raptor_tasks\n                for queue in backlog:\n")]),
    dict(name='R08.16 only the first queue of the raptor backlog is searched', rules=('R08.16',), edits=[
        (_S, _RAPL, "                for queue in list(self._raptor_tasks)[:1]:\n")]),
    dict(name='R08.16 raptor backlog searched only when it is empty', rules=('R08.16',), edits=[
        (_S, _RAPL, "                for queue in (self._raptor_tasks if not self._raptor_tasks else {}):\n")]),
    dict(name='R08.13 hand-over by any() over the wrong module names', rules=('R08.13',), edits=[
        (_U, _HND, "            me = repr(self)\n            if any(x in me for x in ['agent.scheduling', 'agent.executing']):\n                self.control_cb(topic, msg)\n                return\n")]),
    dict(name='R08.13 hand-over by all() instead of any()', rules=('R08.13',), edits=[
        (_U, _HND, "            me = repr(self)\n            if all(x in me for x in ['agent.scheduler', 'agent.executing']):\n                self.control_cb(topic, msg)\n                return\n")]),
    dict(name='R08.16 every queue of the backlog skipped inside the loop while a raptor queue is registered', rules=('R08.16',), edits=[
        (_S, _RAPL, "                for queue in self._raptor_tasks:\n                    if self._raptor_queues:\n                        continue\n")]),
    dict(name='R08.1 cancel list re-bound to the new uids filtered against it (seed C08-j1)', rules=('R08.1',), edits=[
        (_U, '                self._cancel_list += uids\n', '                self._cancel_list = [uid for uid in uids\n                                         if  uid not in self._cancel_list]\n')]),
    dict(name='R08.1 cancel list re-bound to a local which holds only the filtered new uids', rules=('R08.1',), edits=[
        (_U, '                self._cancel_list += uids\n', '                fresh = list()\n                for uid in uids:\n                    if uid not in self._cancel_list:\n                        fresh.append(uid)\n                self._cancel_list = fresh\n')]),
    dict(name='R08.1 cancel list re-bound to a set difference with itself', rules=('R08.1',), edits=[
        (_U, '                self._cancel_list += uids\n', '                self._cancel_list = list(set(uids) - set(self._cancel_list))\n')]),
    dict(name='R08.1 cancel list re-bound by a conditional expression both arms of which drop it', rules=('R08.1',), edits=[
        (_U, '                self._cancel_list += uids\n', '                self._cancel_list = list(uids) if self._cancel_list else [u for u in uids if u not in self._cancel_list]\n')]),
]

SILENT = [
    dict(name='cancel list extended with extend()', edits=[
        (_U, "                self._cancel_list += uids\n", "                self._cancel_list.extend(uids)\n")]),
    dict(name='is_canceled in positive form', edits=[
        (_U, "            if tid not in self._cancel_list:\n                return False\n\n            if 'state' in task:\n                self.advance(task, rps.CANCELED, publish=True, push=False)\n\n            # remove from cancel list\n            self._cancel_list.remove(tid)\n\n            return True\n",
             "            if tid in self._cancel_list:\n                if 'state' in task:\n                    self.advance(task, rps.CANCELED, publish=True, push=False)\n                self._cancel_list.remove(tid)\n                return True\n\n            return False\n")]),
    dict(name='executor loop with renamed variables', edits=[
        (_E, "            for tid in arg['uids']:\n                task = self.get_task(tid)\n                if task:\n                    self.cancel_task(task)\n", "            uids = arg['uids']\n            for u in uids:\n                t = self.get_task(u)\n                if t:\n                    self.cancel_task(t)\n")]),
    dict(name='raptor backlog uids bound to a set first', edits=[
        (_S, "            uids = arg['uids']\n            self._queue_sched.put((uids, self._CANCEL))", "            uids = arg['uids']\n            uidset = set(uids)\n            self._queue_sched.put((uids, self._CANCEL))"),
        (_S, "                                       if t['uid'] in uids]", "                                       if t['uid'] in uidset]")]),
    dict(name='popen keeps the pid in a local', edits=[
        (_P, "        launcher.cancel_task(task, proc.pid)\n", "        pid = proc.pid\n        launcher.cancel_task(task, pid)\n")]),
    dict(name='post-insert check: hoisted answer, early continue', edits=[
        (_S, _CHK, "                gone = self.is_canceled(task)\n                if not gone:\n                    continue\n                del self._waitpool[priority][uid]\n")]),
    dict(name='post-insert check: pool alias, key not bound to a local, pop', edits=[
        (_S, "                uid = task['uid']\n                self._waitpool[priority][uid] = task\n", "                pool = self._waitpool[priority]\n                pool[task['uid']] = task\n"),
        (_S, _CHK, "                if self.is_canceled(task):\n                    pool.pop(task['uid'])\n")]),
    dict(name='post-insert check: skipped while the cancel list is empty', edits=[
        (_S, _CHK, "                if self._cancel_list and self.is_canceled(task) is True:\n                    del self._waitpool[priority][uid]\n")]),
    dict(name='post-insert check: answer compared in else form', edits=[
        (_S, _CHK, "                if self.is_canceled(task) is not True:\n                    pass\n                else:\n                    del self._waitpool[priority][uid]\n")]),
    dict(name='cancel check dominates the insertion', note='a request that arrives after the check is served by the _CANCEL item of the next call', edits=[
        (_S, "                uid = task['uid']\n                self._waitpool[priority][uid] = task\n", "                if self.is_canceled(task) is True:\n                    continue\n                uid = task['uid']\n                self._waitpool[priority][uid] = task\n"),
        (_S, _CHK, "")]),
    dict(name='post-insert check extracted into a helper', edits=[
        (_S, "                uid = task['uid']\n                self._waitpool[priority][uid] = task\n", "                self._wait(task, priority)\n"),
        (_S, _CHK, ""),
        (_S, "    def _schedule_incoming(self):\n", "    def _wait(self, task, priority):\n        uid = task['uid']\n        self._waitpool[priority][uid] = task\n        if self.is_canceled(task) is True:\n            del self._waitpool[priority][uid]\n\n    def _schedule_incoming(self):\n")]),
    dict(name='is_canceled with a single exit', edits=[
        (_U, _ISC, "            tid    = task['uid']\n            listed = tid in self._cancel_list\n\n            if listed:\n\n                if 'state' in task:\n                    self.advance(task, rps.CANCELED, publish=True, push=False)\n\n                self._cancel_list.remove(tid)\n\n            return listed\n")]),
    dict(name='is_canceled: list alias, answer bound and copied', edits=[
        (_U, _ISC, "            todo = self._cancel_list\n            tid  = task['uid']\n            miss = tid not in todo\n            skip = miss\n            if skip:\n                return False\n            if 'state' in task:\n                self.advance(task, rps.CANCELED, publish=True, push=False)\n            todo.remove(tid)\n            return True\n")]),
    dict(name='intake filter extracted into a helper', edits=[
        (_U, _FLT, "                    things = self._drop_canceled(things)\n"),
        (_U, "    def work_cb(self):\n", "    def _drop_canceled(self, things):\n        if not self._cancel_list:\n            return things\n        return [thing for thing in things if not self.is_canceled(thing)]\n\n    def work_cb(self):\n")]),
    dict(name='intake filter helper in loop form', edits=[
        (_U, _FLT, "                    things = self._drop_canceled(things)\n"),
        (_U, "    def work_cb(self):\n", "    def _drop_canceled(self, things):\n        if not self._cancel_list:\n            return things\n        kept = list()\n        for thing in things:\n            if self.is_canceled(thing) is True:\n                continue\n            kept.append(thing)\n        return kept\n\n    def work_cb(self):\n")]),
    dict(name='intake filter bound to a new name which the worker gets', edits=[
        (_U, _FLT + "\n                  # self._log.debug('== got %d things (%s)', len(things), state)\n                  # for thing in things:\n                  #     self._log.debug('got %s (%s)', thing['uid'], state)\n\n                    self._workers[state](things)\n", "                    todo = things\n                    if len(self._cancel_list) > 0:\n                        todo = [x for x in things\n                                  if self.is_canceled(x) is False]\n                    things = todo\n                    self._workers[state](todo)\n")]),
    dict(name='executor cancel handler: guards as early continue / return', edits=[
        (_E, "                task = self.get_task(tid)\n                if task:\n                    self.cancel_task(task)\n", "                task = self.get_task(tid)\n                if not task:\n                    continue\n\n                self.cancel_task(task)\n")]),
    dict(name='post-insert check on a copy of the name, key respelled', edits=[
        (_S, _CHK, "                t = task\n                if self.is_canceled(t) is True:\n                    del self._waitpool[priority][t['uid']]\n")]),
    dict(name='post-insert check conditional on the insertion itself', edits=[
        (_S, _CHK, "                if uid in self._waitpool[priority] and self.is_canceled(task) is True:\n                    del self._waitpool[priority][uid]\n")]),
    dict(name='insertion by setdefault', edits=[
        (_S, "                uid = task['uid']\n                self._waitpool[priority][uid] = task\n", "                uid = task['uid']\n                self._waitpool[priority].setdefault(uid, task)\n")]),
    dict(name='is_canceled without an explicit return False', edits=[
        (_U, _ISC, "            tid = task['uid']\n            if tid in self._cancel_list:\n                if 'state' in task:\n                    self.advance(task, rps.CANCELED, publish=True, push=False)\n                self._cancel_list.remove(tid)\n                return True\n")]),
    dict(name='intake filter in loop form, answer bound to a name', edits=[
        (_U, _FLT, "                    if self._cancel_list:\n                        kept = []\n                        for x in things:\n                            c = self.is_canceled(x)\n                            if c:\n                                continue\n                            kept.append(x)\n                        things = kept\n")]),
    dict(name='intake filter compares the answer with False', edits=[
        (_U, _FLT, "                    if self._cancel_list:\n                        things = [x for x in things\n                                    if self.is_canceled(x) is False]\n")]),
    dict(name='single uid normalised by ru.as_list', edits=[
        (_T, _NRM, "            if not isinstance(uids, list):\n                uids = ru.as_list(uids)\n")]),
    dict(name='single uid: test bound to a name, tuple of types', edits=[
        (_T, _NRM, "            single = not isinstance(uids, (list,))\n            if single:\n                uids = [uids]\n")]),
    dict(name='single uid: positive test with an empty arm', edits=[
        (_U, _NRM, "            if isinstance(uids, list):\n                pass\n            else:\n                uids = [uids, ]\n")]),
    dict(name='cancel list extended by concatenation', edits=[
        (_U, "                self._cancel_list += uids\n", "                self._cancel_list = self._cancel_list + uids\n")]),
    dict(name='is_canceled: state test bound to a name', edits=[
        (_U, "            if 'state' in task:\n                self.advance(task, rps.CANCELED, publish=True, push=False)\n", "            stateful = 'state' in task\n            if stateful:\n                self.advance(task, rps.CANCELED, publish=True, push=False)\n")]),
    dict(name='is_canceled: state test inverted with the hand-on in the else arm', edits=[
        (_U, "            if 'state' in task:\n                self.advance(task, rps.CANCELED, publish=True, push=False)\n", "            if 'state' not in task:\n                pass\n            else:\n                self.advance(task, rps.CANCELED, publish=True, push=False)\n")]),
    dict(name='is_canceled: hand-on first, list maintenance after', edits=[
        (_U, "            if 'state' in task:\n                self.advance(task, rps.CANCELED, publish=True, push=False)\n\n            # remove from cancel list\n            self._cancel_list.remove(tid)\n", "            self._cancel_list.remove(tid)\n            if not ('state' in task):\n                return True\n            self.advance(task, rps.CANCELED, publish=True, push=False)\n")],
         note='order of remove / advance differs only if advance raises'),
    dict(name='waiting task deleted through a pool alias', edits=[
        (_S, "                            task = self._waitpool[priority].get(uid)\n                            if task:\n                                to_cancel.append(task)\n                                del self._waitpool[priority][uid]\n", "                            pool = self._waitpool[priority]\n                            task = pool.get(uid)\n                            if task:\n                                to_cancel.append(task)\n                                del pool[uid]\n")]),
    dict(name='exit status: test bound to a name', edits=[
        (_P, "        exit_code = proc.poll()\n        if exit_code is not None:\n", "        exit_code = proc.poll()\n        done = exit_code is not None\n        if done:\n")]),
    dict(name='exit status: poll() compared directly', edits=[
        (_P, "        exit_code = proc.poll()\n        if exit_code is not None:\n", "        if proc.poll() != None:\n")]),
    dict(name='exit status: zero / non-zero by truth once it is known not to be None', edits=[
        (_P, "                if exit_code == 0:\n", "                if not exit_code:\n")]),
    dict(name='exit status: running case first', edits=[
        (_P, "        exit_code = proc.poll()\n        if exit_code is not None:\n            # task is done, nothing to do\n            self._log.debug('task %s is already done', tid)\n            return\n", "        exit_code = proc.poll()\n        if exit_code is None:\n            pass\n        else:\n            self._log.debug('task %s is already done', tid)\n            return\n")]),
    dict(name='raptor backlog: selection and complement written back', edits=[
        (_S, _RAP, "                for queue in self._raptor_tasks:\n                    backlog = self._raptor_tasks[queue]\n                    to_cancel += [t for t in backlog if t['uid'] in uids]\n                    backlog[:] = [t for t in backlog if t['uid'] not in uids]\n")]),
    dict(name='raptor backlog: complement assigned to the queue entry', edits=[
        (_S, _RAP, "                for queue in self._raptor_tasks:\n                    to_cancel.extend([t for t in self._raptor_tasks[queue] if t['uid'] in uids])\n                    self._raptor_tasks[queue] = [t for t in self._raptor_tasks[queue] if t['uid'] not in uids]\n")],
         note='the list object of the entry is replaced; nobody else holds it'),
    dict(name='cancel_task: test-and-remove on the registry extracted into a helper', edits=[
        (_P, "        # remove from tasks dictionary, thus \"watcher\" will not pick it up\n" + _ARB, "        if not self._disown(tid):\n            return\n"),
        (_P, "    def cancel_task(self, task):\n", "    def _disown(self, tid):\n        with self._check_lock:\n            if tid not in self._tasks:\n                return False\n            del self._tasks[tid]\n            return True\n\n    def cancel_task(self, task):\n")]),
    dict(name='cancel_task: registry entry removed with pop', edits=[
        (_P, _ARB, "        with self._check_lock:\n            if tid not in self._tasks:\n                return\n            self._tasks.pop(tid, None)\n")]),
    dict(name='cancel_task: unschedule publication before the bookkeeping', edits=[
        (_P, "        task['exit_code']    = None\n        task['target_state'] = rps.CANCELED\n\n        self._prof.prof('task_run_cancel_stop', uid=tid)\n        self._prof.prof('unschedule_start', uid=tid)\n        self.publish(rpc.AGENT_UNSCHEDULE_PUBSUB, task)\n", "        self._prof.prof('task_run_cancel_stop', uid=tid)\n        self._prof.prof('unschedule_start', uid=tid)\n        self.publish(rpc.AGENT_UNSCHEDULE_PUBSUB, task)\n        task['target_state'] = rps.CANCELED\n        task['exit_code']    = None\n")]),
    dict(name='wait pool search per uid over the level dicts, pop', edits=[
        (_S, _CBR, "                    for uid in data:\n                        for pool in self._waitpool.values():\n                            if uid in pool:\n                                to_cancel.append(pool.pop(uid))\n                                break\n")]),
    dict(name='wait pool search per uid in a helper that returns early', edits=[
        (_S, _CBR, "                    for uid in data:\n                        task = self._pull_waiting(uid)\n                        if task is not None:\n                            to_cancel.append(task)\n"),
        (_S, "    def _schedule_incoming(self):\n", "    def _pull_waiting(self, uid):\n        for pool in self._waitpool.values():\n            if uid in pool:\n                return pool.pop(uid)\n        return None\n\n    def _schedule_incoming(self):\n")]),
    dict(name='wait pool search per uid over sorted levels, guard as early continue', edits=[
        (_S, _CBR, "                    for uid in data:\n                        for priority in sorted(self._waitpool):\n                            task = self._waitpool[priority].get(uid)\n                            if not task:\n                                continue\n                            to_cancel.append(task)\n                            del self._waitpool[priority][uid]\n                            break\n")]),
    # round 5
    dict(name='hand-over test: repr and the two answers bound to names', edits=[
        (_U, _HND, "            who = repr(self)\n            sched = 'agent.scheduler' in who\n            execu = 'agent.executing' in who\n            if sched or execu:\n                self.control_cb(topic, msg)\n                return\n")]),
    dict(name='hand-over test on the component type, early return form', edits=[
        (_U, _HND, "            if 'agent.scheduler' not in self.ctype and \\\n               'agent.executing' not in self.ctype:\n                return\n            self.control_cb(topic, msg)\n            return\n")]),
    dict(name='hand-over test nested, one component kind per test', edits=[
        (_U, _HND, "            if 'agent.scheduler' in repr(self):\n                self.control_cb(topic, msg)\n                return\n            elif '.executing.' in type(self).__module__:\n                self.control_cb(topic, msg)\n                return\n")]),
    dict(name='hand-over test on the uid prefix of the component kinds', note='uids are generated from the component kind of the factory table', edits=[
        (_U, _HND, "            if self.uid.startswith(('agent_scheduling', 'agent_executing')):\n                self.control_cb(topic, msg)\n                return\n")]),
    dict(name='level search: pop with a default, hit tested against None', edits=[
        (_S, _CBR, "                    for uid in data:\n                        for pool in self._waitpool.values():\n                            task = pool.pop(uid, None)\n                            if task is not None:\n                                to_cancel.append(task)\n                                break\n")]),
    dict(name='level search: entry remembered in a local, collected after the loop', edits=[
        (_S, _CBR, "                    for uid in data:\n                        found = None\n                        for priority in self._waitpool:\n                            if uid in self._waitpool[priority]:\n                                found = self._waitpool[priority].pop(uid)\n                                break\n                        if found:\n                            to_cancel.append(found)\n")]),
    dict(name='level search: for / else with a log line for the miss', edits=[
        (_S, _CBR, "                    for uid in data:\n                        for priority in self._waitpool:\n                            task = self._waitpool[priority].get(uid)\n                            if task:\n                                to_cancel.append(task)\n                                del self._waitpool[priority][uid]\n                                break\n                        else:\n                            self._log.debug('not waiting: %s', uid)\n")]),
    dict(name='loop over the uids left when nobody waits at all', note='an empty wait pool holds none of the named tasks', edits=[
        (_S, "                    for uid in data:\n                        for priority in self._waitpool:\n", "                    for uid in data:\n                        if not self._waitpool:\n                            break\n                        for priority in self._waitpool:\n")]),
    dict(name='executor loop: unknown uid tested against None, early continue', edits=[
        (_E, _EXL, "            uids = list(arg['uids'])\n            for tid in uids:\n                task = self.get_task(tid)\n                if task is None:\n                    self._log.debug('not my task: %s', tid)\n                    continue\n                self.cancel_task(task)\n")]),
    dict(name='executor loop left on termination', note='differs only while the component shuts down', edits=[
        (_E, _EXL, "            for tid in arg['uids']:\n                if self._term.is_set():\n                    break\n                task = self.get_task(tid)\n                if task:\n                    self.cancel_task(task)\n")]),
    dict(name='raptor backlog: selection by a generator that is materialised first', edits=[
        (_S, "                    matches = [t for t in self._raptor_tasks[queue]\n                                       if t['uid'] in uids]\n", "                    matches = list(t for t in self._raptor_tasks[queue]\n                                     if t['uid'] in uids)\n")]),
    dict(name='raptor backlog: generator copied into a list by the loop header', edits=[
        (_S, "                    matches = [t for t in self._raptor_tasks[queue]\n                                       if t['uid'] in uids]\n                    for task in matches:\n", "                    matches = (t for t in self._raptor_tasks[queue]\n                                       if t['uid'] in uids)\n                    for task in list(matches):\n")]),
    dict(name='raptor backlog: generator over a copy of the backlog', edits=[
        (_S, _RAP, "                for queue in self._raptor_tasks:\n                    backlog = self._raptor_tasks[queue]\n                    for task in (t for t in list(backlog) if t['uid'] in uids):\n                        to_cancel.append(task)\n                        backlog.remove(task)\n")]),
    dict(name='watcher enumerates a copy of the watch list', edits=[
        (_P, "        for task in list(to_watch):\n", "        for _, task in enumerate(list(to_watch)):\n")]),
    dict(name='client replay: last state re-wrapped', edits=[
        (_T, _PSD, "                        passed = [passed[-1]]\n")]),
    dict(name='client replay: everything in front of the last state deleted', edits=[
        (_T, _PSD, "                        del passed[:-1]\n")]),
    dict(name='client replay: negative index spelled with len()', edits=[
        (_T, _PSD, "                        last = len(passed) - 1\n                        passed = passed[last:]\n")]),
    dict(name='raptor backlog: searched through an alias bound first', edits=[
        (_S, _RAPL, "                backlog = self._raptor_tasks\n                for queue in backlog:\n")]),
    dict(name='raptor backlog: loop over a copy of the queue names', edits=[
        (_S, _RAPL, "                for queue in list(self._raptor_tasks.keys()):\n")]),
    dict(name='raptor backlog: search skipped when the backlog is empty', edits=[
        (_S, _RAP, "                if self._raptor_tasks:\n                    for queue in self._raptor_tasks:\n                        matches = [t for t in self._raptor_tasks[queue]\n                                           if t['uid'] in uids]\n                        for task in matches:\n                            to_cancel.append(task)\n                            self._raptor_tasks[queue].remove(task)\n")]),
    dict(name='raptor backlog: conditional expression on the backlog itself', edits=[
        (_S, _RAPL, "                backlog = self._raptor_tasks if self._raptor_tasks else {}\n                for queue in backlog:\n")]),
    dict(name='raptor backlog: `or {}` fallback on the loop domain', edits=[
        (_S, _RAPL, "                for queue in (self._raptor_tasks or {}):\n")]),
    dict(name='raptor backlog: sorted queue names', edits=[
        (_S, _RAPL, "                names = sorted(self._raptor_tasks)\n                for queue in names:\n")]),
    dict(name='hand-over identity test by any() over the two module names', edits=[
        (_U, _HND, "            me = repr(self)\n            if any(x in me for x in ['agent.scheduler', 'agent.executing']):\n                self.control_cb(topic, msg)\n                return\n")]),
    dict(name='hand-over identity test by any() over a tuple bound to a local, list comprehension', edits=[
        (_U, _HND, "            kinds = ('agent.scheduler', 'agent.executing')\n            if any([k in repr(self) for k in kinds]):\n                self.control_cb(topic, msg)\n                return\n")]),
    dict(name='hand-over identity test: not all(.. not in ..)', edits=[
        (_U, _HND, "            me = repr(self)\n            if not all(x not in me for x in ['agent.scheduler', 'agent.executing']):\n                self.control_cb(topic, msg)\n                return\n")]),
    dict(name='raptor backlog: empty queues skipped inside the loop', edits=[
        (_S, _RAPL, "                for queue in self._raptor_tasks:\n                    if not self._raptor_tasks[queue]:\n                        continue\n")]),
    dict(name='raptor backlog: queues whose master is registered skipped (they hold nothing)', edits=[
        (_S, _RAPL, "                for queue in self._raptor_tasks:\n                    if queue in self._raptor_queues:\n                        continue\n")]),
    dict(name='cancel list re-bound to itself plus the new uids which it does not hold yet', edits=[
        (_U, '                self._cancel_list += uids\n', '                self._cancel_list = self._cancel_list + [uid for uid in uids\n                                         if  uid not in self._cancel_list]\n')]),
    dict(name='cancel list re-bound to a starred display of itself and the new uids', edits=[
        (_U, '                self._cancel_list += uids\n', '                self._cancel_list = [*self._cancel_list, *uids]\n')]),
    dict(name='cancel list merged in a local copy which is extended in a loop, then re-bound', edits=[
        (_U, '                self._cancel_list += uids\n', '                merged = list(self._cancel_list)\n                for uid in uids:\n                    merged.append(uid)\n                self._cancel_list = merged\n')]),
    dict(name='cancel list re-bound through two locals: old list, then old + new', edits=[
        (_U, '                self._cancel_list += uids\n', '                pending = self._cancel_list\n                todo = pending + list(uids)\n                self._cancel_list = todo\n')]),
    dict(name='cancel list extended by the new uids filtered against it', edits=[
        (_U, '                self._cancel_list += uids\n', '                self._cancel_list += [uid for uid in uids\n                                         if  uid not in self._cancel_list]\n')]),
]
