"""C06  Applications observe the linear task state model (DESIGN 5 / C06)"""

import ast

from ..model import (walk, dotted, call_name, kwarg, unparse, short, UNKNOWN,
                     root_name, AnalysisError, calls_in, stores_in_target)
from ..cfg import cfg_of
from ..flow import Deps, guards, must_pass, loop_slice
from .. import idioms as I

STATES = 'states.py'
TASK   = ('task.py', 'Task')
TMGR   = ('task_manager.py', 'TaskManager')


# ------------------------------------------------------------------------------
# R06.1  state table
#
def r06_1(prog, rep, rid='R06.1'):
    rep.rule(rid, 'the task state table is a linear order: None=-1, NEW=0, '
             'non-final values unique and contiguous, X_PENDING directly '
             'before X, the three final states share the maximum', minimum=6)
    tab = prog.const(STATES, '_task_state_values')
    final = prog.const(STATES, 'FINAL')
    new = prog.const(STATES, 'NEW')
    where = STATES + '::_task_state_values'
    nonfinal = {k: v for k, v in tab.items() if k not in final and k is not None}
    vals = sorted(nonfinal.values())
    rep.check(tab.get(None) == -1 and tab.get(new) == 0, rid, where,
              'None -> -1 and NEW -> 0', construct='table:origin',
              message='_task_state_values: None must be -1 and NEW 0 (found '
              '%r, %r)' % (tab.get(None), tab.get(new)))
    rep.check(vals == list(range(len(vals))), rid, where,
              'non-final values are 0..%d without gap or duplicate'
              % (len(vals) - 1), construct='table:contiguous',
              message='_task_state_values: non-final values %s are not a '
              'contiguous, duplicate-free range: two states compare equal or '
              'a gap makes the filled-in intermediate states wrong' % vals,
              history='a notification skipping ahead replays the wrong '
              'intermediate states (or none)')
    fv = {tab.get(f) for f in final}
    rep.check(len(final) == 3 and len(fv) == 1 and
              fv == {len(vals)}, rid, where, 'DONE/FAILED/CANCELED share the '
              'maximum value %d' % len(vals), construct='table:final',
              message='_task_state_values: the final states must share the '
              'value directly above the last non-final state (found %s)'
              % sorted(fv, key=str))
    pend_ok = True
    badp = []
    for k, v in nonfinal.items():
        if k.endswith('_PENDING'):
            base = k[:-len('_PENDING')]
            if nonfinal.get(base) != v + 1:
                pend_ok = False
                badp.append(k)
    rep.check(pend_ok, rid, where, 'every X_PENDING is directly followed by X',
              construct='table:pending', message='_task_state_values: %s not '
              'directly followed by their active state' % badp)
    # stage order = pipeline order
    order = ['TMGR_SCHEDULING', 'TMGR_STAGING_INPUT', 'AGENT_STAGING_INPUT',
             'AGENT_SCHEDULING', 'AGENT_EXECUTING', 'AGENT_STAGING_OUTPUT',
             'TMGR_STAGING_OUTPUT']
    seq = [nonfinal.get(s) for s in order]
    rep.check(None not in seq and seq == sorted(seq), rid, where,
              'the stages are ordered like the pipeline (%s)' % ' < '.join(
                  order), construct='table:pipeline', message='_task_state_'
              'values does not order the stages like the component pipeline: '
              '%s' % list(zip(order, seq)),
              history='a task advancing through the pipeline is seen moving '
              'backwards; its updates are discarded as stale')
    # the inverse table is derived from the value table
    m = prog.module(STATES)
    inv = m.assigns.get('_task_state_inv')
    okinv = bool(inv) and isinstance(inv[-1], ast.DictComp) and \
        '_task_state_values' in unparse(inv[-1].generators[0].iter) and \
        isinstance(inv[-1].generators[0].target, ast.Tuple) and \
        [unparse(inv[-1].key), unparse(inv[-1].value)] == \
        [unparse(e) for e in reversed(inv[-1].generators[0].target.elts)]
    rep.check(okinv, rid, STATES + '::_task_state_inv', '_task_state_inv is '
              'the inversion of _task_state_values', construct='table:inv',
              message='_task_state_inv is not built by inverting '
              '_task_state_values: filled-in intermediate states come from a '
              'different table')


# ------------------------------------------------------------------------------
# R06.2  who writes Task._state, who calls Task._update
#
def _state_writes(f):
    """[(ast node, how)] writes of self._state in a method of Task"""
    out = []
    for n in walk(f.node, nested=True):
        if isinstance(n, (ast.Assign, ast.AugAssign, ast.AnnAssign)):
            tg = n.targets if isinstance(n, ast.Assign) else [n.target]
            for t in tg:
                for e in I._flat(t):
                    if isinstance(e, ast.Attribute) and e.attr == '_state':
                        out.append((n, 'assign'))
        if isinstance(n, ast.Call) and dotted(n.func) == 'setattr' and \
                len(n.args) >= 3:
            out.append((n, 'setattr'))
        if isinstance(n, ast.Call) and isinstance(n.func, ast.Attribute) and \
                n.func.attr in ('update', '__setattr__') and \
                unparse(n.func.value) in ('self.__dict__', 'vars(self)'):
            out.append((n, 'dict'))
    return out


def r06_2(prog, rep, rid='R06.2'):
    rep.rule(rid, 'Task._state is written only by Task.__init__ (NEW) and '
             'Task._update; _update is called only from the replay loop of '
             '_update_tasks and from the guarded pilot-death callback',
             minimum=3)
    task = prog.cls(*TASK)
    new = prog.const(STATES, 'NEW')
    n_upd = 0
    for name, f in sorted(task.methods.items()):
        for n, how in _state_writes(f):
            if name == '__init__' and how == 'assign':
                v = prog.fold(f.module, n.value)
                rep.check(v == new, rid, f, 'Task.__init__ starts in NEW',
                          construct=n, message='Task.__init__ initialises '
                          '_state to %r, not NEW' % (v,), loc=f.loc(n))
            elif name == '_update':
                n_upd += 1
                rep.ok(rid, f, 'Task._update writes the state (%s)' % how,
                       f.loc(n))
            elif how == 'assign':
                rep.bad(rid, f, n, 'Task.%s writes self._state directly (`%s`)'
                        ': the state changes without the forward-only / '
                        'sticky-final guards of _update' % (name, short(n, 50)),
                        f.loc(n), history='a final task becomes non-final '
                        'again, or callbacks and Task.state disagree')
    if not n_upd:
        raise AnalysisError('UNRECOGNISED-IDIOM %s: Task._update does not '
                            'write the state' % task.where)
    # writes of <x>._state on non-self objects in the client-side task modules
    for rel in ('task_manager.py', 'task.py'):
        m = prog.module(rel)
        funcs = list(m.funcs.values())
        for c in m.classes.values():
            funcs += list(c.methods.values())
        for f in funcs:
            for n in walk(f.node, nested=True):
                if isinstance(n, (ast.Assign, ast.AugAssign)):
                    tg = n.targets if isinstance(n, ast.Assign) else [n.target]
                    for t in tg:
                        for e in I._flat(t):
                            if isinstance(e, ast.Attribute) and \
                                    e.attr == '_state' and \
                                    unparse(e.value) != 'self':
                                rep.bad(rid, f, n, '%s writes `%s` from '
                                        'outside Task' % (f.qual, short(e, 40)),
                                        f.loc(n))
                if isinstance(n, ast.Call) and dotted(n.func) == 'setattr' \
                        and n.args and unparse(n.args[0]) != 'self' and \
                        len(n.args) > 1 and 'state' in unparse(n.args[1]):
                    rep.bad(rid, f, n, '%s sets a state attribute through '
                            'setattr on `%s`' % (f.qual, short(n.args[0], 30)),
                            f.loc(n))
    # callers of Task._update
    tm = prog.cls(*TMGR)
    callers = []
    for m in prog.modules.values():
        funcs = list(m.funcs.values())
        for c in m.classes.values():
            funcs += list(c.methods.values())
        for f in funcs:
            for c in calls_in(f.node, nested=True):
                if isinstance(c.func, ast.Attribute) and \
                        c.func.attr == '_update' and \
                        unparse(c.func.value) != 'self' and \
                        not unparse(c.func.value).startswith('super'):
                    recv = unparse(c.func.value)
                    if '_pilots' in recv or recv.startswith('pilot'):
                        continue          # Pilot._update: property C14
                    callers.append((f, c))
    for f, c in callers:
        okay = f.cls is tm and f.name in ('_update_tasks', '_pilot_state_cb')
        rep.check(okay, rid, f, '%s calls Task._update' % f.qual, construct=c,
                  message='%s calls `%s`: Task._update is driven from outside '
                  'the two guarded places (replay loop of _update_tasks, '
                  'pilot-death callback)' % (f.qual, short(c, 50)),
                  loc=f.loc(c), history='a raw notification is applied '
                  'without progress normalisation: states are skipped or '
                  'repeated')
    if len(callers) < 1:
        raise AnalysisError('R06.2: only %d callers of Task._update found'
                            % len(callers))


def _linear(e):
    """(coefficients {name: int}, constant) of an integer-linear expression
    over plain names, or None"""
    if isinstance(e, ast.Constant) and isinstance(e.value, int) and \
            not isinstance(e.value, bool):
        return {}, e.value
    if isinstance(e, ast.Name):
        return {e.id: 1}, 0
    if isinstance(e, ast.UnaryOp) and isinstance(e.op, ast.USub):
        x = _linear(e.operand)
        return None if x is None else ({k: -v for k, v in x[0].items()}, -x[1])
    if isinstance(e, ast.BinOp) and isinstance(e.op, (ast.Add, ast.Sub)):
        l, r = _linear(e.left), _linear(e.right)
        if l is None or r is None:
            return None
        sg = 1 if isinstance(e.op, ast.Add) else -1
        co = dict(l[0])
        for k, v in r[0].items():
            co[k] = co.get(k, 0) + sg * v
        return co, l[1] + sg * r[1]
    return None


def _origin(g, e, at):
    """unparse of an expression after following single reaching definitions
    of plain names (flow-sensitive, unlike Deps)"""
    from ..flow import reaching_defs
    for _ in range(4):
        if isinstance(e, ast.Name):
            rd = reaching_defs(g, e.id, at)
            if len(rd) == 1 and rd[0][1] is not None:
                e = rd[0][1]
                continue
        break
    return unparse(e)


# ------------------------------------------------------------------------------
# R06.3  guards dominate the write / the replay
#
def r06_3(prog, rep, rid='R06.3'):
    rep.rule(rid, 'Task._update: the DONE/FAILED early return and the '
             'single-step test dominate the state write; '
             '_task_state_progress: contradictory finals raise before the '
             'numeric comparison, no-progress returns carry an empty list, '
             'the passed list is the range between current and target',
             minimum=8)
    task = prog.cls(*TASK)
    f = prog.find_method(task, '_update')
    rep.saw(f)
    g = cfg_of(f)
    smap = I.stmt_node_map(g)
    d = Deps(f.node)
    done, failed = prog.const(STATES, 'DONE'), prog.const(STATES, 'FAILED')
    canceled = prog.const(STATES, 'CANCELED')
    writes = [smap[id(n)] for n, how in _state_writes(f) if id(n) in smap]
    if not writes:
        raise AnalysisError('UNRECOGNISED-IDIOM %s: state write' % f.where)
    W = writes[0]
    # (1) sticky DONE / FAILED
    ok1 = False
    for tid, lab in guards(g, W.id):
        a = g.nodes[tid].ast
        if isinstance(a, ast.Compare) and len(a.ops) == 1 and \
                isinstance(a.ops[0], (ast.In, ast.NotIn)):
            v = prog.fold(f.module, a.comparators[0], f.cls)
            if v is not UNKNOWN and {done, failed} <= set(v) and \
                    _origin(g, a.left, tid) in ('self.state', 'self._state'):
                if (isinstance(a.ops[0], ast.In) and lab == 'F') or \
                        (isinstance(a.ops[0], ast.NotIn) and lab == 'T'):
                    ok1 = True
    rep.check(ok1, rid, f, 'the state write is reached only when the current '
              'state is not DONE/FAILED', construct='update:sticky',
              message='Task._update can write the state although the task is '
              'already DONE or FAILED (early return missing, on the wrong '
              'operand, or with the wrong polarity)', loc=f.loc(W.ast),
              history='a task is DONE; a late AGENT_EXECUTING notification '
              'makes Task.state non-final again')
    # (2) single step: a test that is linear in the two state values,
    #     equivalent to  target_value - current_value == 1
    step = None
    lin = None
    for n in g.nodes:
        if n.kind == 'test' and isinstance(n.ast, ast.Compare) and \
                len(n.ast.ops) == 1 and \
                isinstance(n.ast.ops[0], (ast.Eq, ast.NotEq, ast.Lt, ast.Gt,
                                          ast.LtE, ast.GtE)):
            l = _linear(n.ast.left)
            r = _linear(n.ast.comparators[0])
            if l is None or r is None:
                continue
            co = dict(l[0])
            for k, v in r[0].items():
                co[k] = co.get(k, 0) - v
            co = {k: v for k, v in co.items() if v}
            const = l[1] - r[1]
            if len(co) == 2 and sorted(co.values()) == [-1, 1]:
                step, lin = n, (co, const)
    if step is None:
        rep.bad(rid, f, 'update:single-step', 'Task._update has no single-step '
                'test (`target value - current value != 1` => raise): a '
                'notification can skip states', f.loc(),
                history='NEW -> AGENT_EXECUTING is applied directly; the '
                'callbacks never see the states in between')
    else:
        a = step.ast
        op = a.ops[0]
        co, const = lin
        pos = [k for k, v in co.items() if v == 1][0]
        neg = [k for k, v in co.items() if v == -1][0]
        dn = Deps(f.node, implicit=False)

        def dep_of(nm):
            return dn.closure(nm) | {nm}
        # orientation: which of the two names is the target value
        p_t = "task_dict['state']" in dep_of(pos)
        n_t = "task_dict['state']" in dep_of(neg)
        p_c = bool({'self.state', 'self._state'} & dep_of(pos))
        n_c = bool({'self.state', 'self._state'} & dep_of(neg))
        # pos - neg + const  OP  0 ; with pos = target: target - current + const
        bad_lab = None
        dir_ok = False
        if p_t and n_c and not (n_t and not p_c):
            dir_ok = True
            want = -1          # target - current - 1 == 0
        elif n_t and p_c:
            dir_ok = True
            want = 1           # current - target + 1 == 0
        else:
            want = None
        if want is not None and const == want:
            if isinstance(op, ast.NotEq):
                bad_lab = 'T'
            elif isinstance(op, ast.Eq):
                bad_lab = 'F'
        raises = False
        if bad_lab:
            for e in g.succ[step.id]:
                if e.label == bad_lab:
                    r = g.reachable(e.dst, labels={'next', 'T', 'F', 'iter',
                                                   'done'})
                    raises = W.id not in r and g.exit.id not in r
        rep.check(bool(bad_lab) and dir_ok and raises, rid, f,
                  'a step other than +1 (target - current) raises',
                  construct='update:single-step', message='Task._update: the '
                  'single-step test `%s` does not reject every transition '
                  'other than target = current + 1 (%s)' % (
                      short(a, 50), 'operands not target / current state '
                      'values' if not dir_ok else 'wrong operator/constant'
                      if not bad_lab else 'the offending branch does not '
                      'raise'),
                  loc=f.loc(a), history='NEW -> AGENT_EXECUTING (or a step '
                  'backwards) is applied; callbacks see states out of order')
        # every path to the write for a non-final target without `reconnect`
        # passes the test
        rec = [(n.id, 'T') for n in g.nodes if n.kind == 'test' and
               isinstance(n.ast, ast.Name) and n.ast.id == 'reconnect']
        fin = []
        for n in g.nodes:
            if n.kind == 'test' and isinstance(n.ast, ast.Compare) and \
                    len(n.ast.ops) == 1 and \
                    isinstance(n.ast.ops[0], (ast.In, ast.NotIn)):
                v = prog.fold(f.module, n.ast.comparators[0], f.cls)
                if v is not UNKNOWN and set(v) == {failed, canceled}:
                    fin.append((n.id, 'F' if isinstance(n.ast.ops[0],
                                                        ast.NotIn) else 'T'))
        r = g.reachable(g.entry.id, skip_nodes={step.id},
                        skip_edges=rec + fin)
        rep.check(W.id not in r and bool(fin), rid, f, 'every non-FAILED/'
                  'CANCELED update passes the single-step test before the '
                  'write', construct='update:step-dominates',
                  message='Task._update: a target other than FAILED/CANCELED '
                  'can reach the state write without passing the single-step '
                  'test', loc=f.loc(W.ast))

    # _task_state_progress
    fp = prog.function(STATES, '_task_state_progress')
    rep.saw(fp)
    g = cfg_of(fp)
    smap = I.stmt_node_map(g)
    params = fp.params
    if len(params) < 3:
        raise AnalysisError('UNRECOGNISED-IDIOM %s: parameters' % fp.where)
    cur_p, tgt_p = params[-2], params[-1]
    final = set(prog.const(STATES, 'FINAL'))

    def final_tests(pname):
        out = []
        for n in g.nodes:
            if n.kind == 'test' and isinstance(n.ast, ast.Compare) and \
                    len(n.ast.ops) == 1 and isinstance(n.ast.ops[0], ast.In) \
                    and unparse(n.ast.left) == pname:
                v = prog.fold(fp.module, n.ast.comparators[0])
                if v is not UNKNOWN and set(v) == final:
                    out.append(n)
        return out
    ct, tt = final_tests(cur_p), final_tests(tgt_p)
    numeric = [n for n in g.nodes if n.kind == 'test' and
               isinstance(n.ast, ast.Compare) and len(n.ast.ops) == 1 and
               isinstance(n.ast.ops[0], (ast.GtE, ast.Gt, ast.Lt, ast.LtE))]
    raises = [n for n in g.stmt_nodes() if n.kind == 'stmt' and
              isinstance(n.ast, ast.Raise)]
    if not numeric:
        raise AnalysisError('UNRECOGNISED-IDIOM %s: numeric comparison'
                            % fp.where)
    skip = [(n.id, 'F') for n in ct + tt]
    r = g.reachable(g.entry.id, skip_edges=skip)
    okr = bool(ct) and bool(tt) and bool(raises) and \
        not any(n.id in r for n in numeric) and any(x.id in r for x in raises)
    rep.check(okr, rid, fp, 'two final states never reach the numeric '
              'comparison: they raise (or take the CANCELED correction)',
              construct='progress:final-final', message='_task_state_progress '
              'lets a final -> final request reach the numeric comparison: '
              'finals compare equal, the contradiction is silently dropped '
              'instead of being reported (or, with changed values, a final '
              'state is replaced)', loc=fp.loc(),
              history='DONE followed by FAILED for the same task')
    # no-progress returns carry an empty list
    for n in g.stmt_nodes():
        if n.kind != 'stmt' or not isinstance(n.ast, ast.Return):
            continue
        v = n.ast.value
        if isinstance(v, (ast.List, ast.Tuple)) and len(v.elts) == 2:
            first, second = v.elts
            if isinstance(second, (ast.List, ast.Tuple)):
                rep.check(not second.elts, rid, fp, '`%s` carries an empty '
                          'passed list' % short(n.ast, 40), construct=n.ast,
                          message='_task_state_progress returns a literal, '
                          'non-empty passed list `%s`' % short(n.ast, 50),
                          loc=fp.loc(n.ast))
            elif isinstance(second, ast.Name):
                # the computed list: guarded by cur < tgt
                okg = False
                for tid, lab in guards(g, n.id):
                    a = g.nodes[tid].ast
                    if g.nodes[tid] in numeric:
                        op = a.ops[0]
                        l_cur = cur_p[:3] in unparse(a.left)
                        if l_cur and (isinstance(op, ast.GtE) and lab == 'F'
                                      or isinstance(op, ast.Lt) and lab == 'T'):
                            okg = True
                        if not l_cur and (isinstance(op, ast.LtE) and
                                          lab == 'F' or isinstance(op, ast.Gt)
                                          and lab == 'T'):
                            okg = True
                rep.check(okg, rid, fp, 'the computed passed list is returned '
                          'only when current < target', construct=n.ast,
                          message='_task_state_progress returns the computed '
                          'list without (or with a wrongly oriented) '
                          '`current >= target` guard: equal or earlier states '
                          'are replayed', loc=fp.loc(n.ast),
                          history='a duplicate notification triggers the '
                          'callback for the same state again')
                # built from range(cur + 1, tgt) + target
                pl = second.id
                rng = [x for x in walk(fp.node) if isinstance(x, ast.For) and
                       isinstance(x.iter, ast.Call) and
                       dotted(x.iter.func) == 'range' and any(
                           isinstance(c.func, ast.Attribute) and
                           c.func.attr == 'append' and
                           unparse(c.func.value) == pl for c in calls_in(x))]
                okb = False
                if rng:
                    a0 = rng[0].iter.args
                    okb = len(a0) == 2 and isinstance(a0[0], ast.BinOp) and \
                        isinstance(a0[0].op, ast.Add) and \
                        unparse(a0[0].right) == '1' and \
                        '_task_state_inv' in unparse(rng[0])
                last = [c for c in calls_in(fp.node)
                        if isinstance(c.func, ast.Attribute) and
                        c.func.attr == 'append' and
                        unparse(c.func.value) == pl and c.args and
                        unparse(c.args[0]) == tgt_p]
                # passed += [target] / passed.extend([target])
                for x in walk(fp.node):
                    if isinstance(x, ast.AugAssign) and \
                            isinstance(x.op, ast.Add) and \
                            unparse(x.target) == pl and \
                            isinstance(x.value, (ast.List, ast.Tuple)) and \
                            [unparse(e) for e in x.value.elts] == [tgt_p]:
                        last.append(x)
                    if isinstance(x, ast.Call) and \
                            isinstance(x.func, ast.Attribute) and \
                            x.func.attr == 'extend' and \
                            unparse(x.func.value) == pl and x.args and \
                            isinstance(x.args[0], (ast.List, ast.Tuple)) and \
                            [unparse(e) for e in x.args[0].elts] == [tgt_p]:
                        last.append(x)
                rep.check(okb and len(last) == 1, rid, fp, 'passed = states '
                          'of range(current+1, target) + [target]',
                          construct='progress:range', message='_task_state_'
                          'progress does not build the passed list as the '
                          'states strictly between current and target '
                          'followed by the target', loc=fp.loc(n.ast),
                          history='NEW -> TMGR_STAGING_INPUT replays NEW '
                          'again or omits the target state')


# ------------------------------------------------------------------------------
# R06.4 / R06.5  the batch loop
#
def _raises_by_design(prog, callee, depth=3, seen=None):
    seen = seen or set()
    if callee is None or id(callee) in seen:
        return False
    seen.add(id(callee))
    for n in walk(callee.node):
        if isinstance(n, ast.Raise) and n.exc is not None:
            return True
    if depth <= 0:
        return False
    for c in calls_in(callee.node):
        if _raises_by_design(prog, prog.resolve_call(callee, c), depth - 1,
                             seen):
            return True
    return False


def _raised_types(prog, callee, depth=2, seen=None):
    """names of the exception classes raised explicitly (not by assert) in
    callee and its resolved callees"""
    seen = seen if seen is not None else set()
    out = set()
    if callee is None or id(callee) in seen:
        return out
    seen.add(id(callee))
    for n in walk(callee.node):
        if isinstance(n, ast.Raise) and n.exc is not None:
            e = n.exc.func if isinstance(n.exc, ast.Call) else n.exc
            out.add(unparse(e).split('.')[-1])
    if depth > 0:
        for c in calls_in(callee.node):
            out |= _raised_types(prog, prog.resolve_call(callee, c),
                                 depth - 1, seen)
    return out


def _exempt_targets(prog):
    """target states for which Task._update skips the single-step test"""
    task = prog.cls(*TASK)
    f = prog.find_method(task, '_update')
    g = cfg_of(f)
    for n in g.nodes:
        if n.kind == 'test' and isinstance(n.ast, ast.Compare) and \
                len(n.ast.ops) == 1 and \
                isinstance(n.ast.ops[0], (ast.In, ast.NotIn)) and \
                'target' in unparse(n.ast.left):
            v = prog.fold(f.module, n.ast.comparators[0], f.cls)
            if v is not UNKNOWN and isinstance(v, (list, tuple)) and \
                    isinstance(n.ast.ops[0], ast.NotIn):
                return set(v)
    return set()


def batch_info(prog):
    tm = prog.cls(*TMGR)
    f = prog.find_method(tm, '_update_tasks')
    g = cfg_of(f)
    smap = I.stmt_node_map(g)
    param = [p for p in f.params if p != 'self'][0]
    loops = [n for n in g.nodes if n.kind == 'for' and
             unparse(n.ast.iter) == param]
    if len(loops) != 1:
        raise AnalysisError('UNRECOGNISED-IDIOM %s: batch loop' % f.where)
    return tm, f, g, smap, loops[0]


def r06_4(prog, rep, rid='R06.4'):
    rep.rule(rid, 'per-notification isolation: a call in the batch loop of '
             '_update_tasks that raises by design is caught inside the loop, '
             'so one bad notification does not drop the others', minimum=1)
    tm, f, g, smap, H = batch_info(prog)
    rep.saw(f)
    task = prog.cls(*TASK)
    body = g.loop_body[H.id]
    n_found = 0
    for n in g.nodes:
        if n.id not in body:
            continue
        for c in I.stmt_calls(n):
            callee = prog.resolve_call(f, c)
            anchored = False
            if callee is None and isinstance(c.func, ast.Attribute) and \
                    c.func.attr == '_update':
                callee = prog.find_method(task, '_update')
                anchored = True
            if call_name(c).endswith('_task_state_progress'):
                anchored = True
            if callee is None:
                continue
            if not anchored and (not _raises_by_design(prog, callee, 2) or
                                 callee.name in ('debug', 'get')):
                continue
            n_found += 1
            raised = _raised_types(prog, callee, 2)
            # the exception edge of this node must lead to a handler inside
            # the loop which does not re-raise and which covers the types the
            # callee raises
            caught = False
            for e in g.succ[n.id]:
                if e.label != 'exc':
                    continue
                tgt = g.nodes[e.dst]
                hs = [g.nodes[x.dst] for x in g.succ[tgt.id]
                      if x.label == 'exc'] if tgt.kind == 'dispatch' else [tgt]
                hd = [h for h in hs if h.kind == 'handler' and h.id in body]
                covered = set()
                for h in hd:
                    t = h.ast.type
                    if t is None:
                        covered |= {'*'}
                    else:
                        for x in (t.elts if isinstance(t, ast.Tuple) else [t]):
                            nm = unparse(x).split('.')[-1]
                            covered.add('*' if nm in ('Exception',
                                                      'BaseException') else nm)
                if hd and ('*' in covered or (raised and raised <= covered)):
                    # handler bodies must not re-raise unconditionally
                    rer = False
                    for h in hd:
                        r = g.reachable(h.id, labels={'next', 'T', 'F', 'iter',
                                                      'done'})
                        if not any(ed.back and ed.dst == H.id or
                                   ed.dst not in body
                                   for x in r for ed in g.succ[x]
                                   if ed.label != 'exc'):
                            rer = True
                    caught = not rer
            rep.check(caught, rid, f, '`%s` (raises by design) is isolated per '
                      'notification' % short(c, 50), construct=c,
                      message='TaskManager._update_tasks calls `%s`, which '
                      'raises by design, without catching the exception '
                      'inside the per-notification loop: one contradictory or '
                      'invalid notification aborts the whole batch and the '
                      'callbacks already collected are never delivered'
                      % short(c, 60), loc=f.loc(c),
                      history='batch [t1: AGENT_EXECUTING, t2: FAILED after '
                      'DONE, t3: DONE]: t2 raises, t3 is never updated, the '
                      'callback for t1 is lost')
    if n_found < 1:
        raise AnalysisError('R06.4: only %d of the two anchored calls '
                            '(_task_state_progress, Task._update) found in '
                            'the batch loop' % n_found)


def r06_5(prog, rep, rid='R06.5'):
    rep.rule(rid, 'replay: known states are skipped, the passed states of '
             '_task_state_progress(uid, current, target) are applied one by '
             'one through _update and announced once each, in order',
             minimum=4)
    tm, f, g, smap, H = batch_info(prog)
    d = Deps(f.node)
    prog_calls = [c for c in calls_in(f.node)
                  if call_name(c).endswith('_task_state_progress')]
    if len(prog_calls) != 1:
        raise AnalysisError('UNRECOGNISED-IDIOM %s: _task_state_progress call'
                            % f.where)
    pc = prog_calls[0]
    pn = smap[id(pc)]
    start = loop_slice(g, H.id)[0]
    # arguments: (uid, current state of the task object, state of the
    # notification)
    a = pc.args
    from ..flow import reaching_defs
    tdv = H.ast.target.id if isinstance(H.ast.target, ast.Name) else '#'

    def origin(e):
        # expression after following single reaching definitions of names
        for _ in range(4):
            if isinstance(e, ast.Name):
                rd = reaching_defs(g, e.id, pn.id)
                if len(rd) == 1 and rd[0][1] is not None:
                    e = rd[0][1]
                    continue
            break
        return e
    okargs = False
    if len(a) == 3:
        o1, o2 = origin(a[1]), origin(a[2])
        okargs = isinstance(o1, ast.Attribute) and o1.attr == 'state' and \
            isinstance(o2, ast.Subscript) and \
            isinstance(o2.slice, ast.Constant) and \
            o2.slice.value == 'state' and root_name(o2) == tdv
    rep.check(okargs, rid, f, 'progress is computed from (task.state, '
              "notification['state']) in that order", construct=pc,
              message='_update_tasks calls `%s`: current and target state are '
              'not (state of the task object, state of the notification)'
              % short(pc, 70), loc=f.loc(pc),
              history='every forward notification is treated as stale and '
              'every stale one replayed')
    # skip on current == target
    oks = False
    for tid, lab in guards(g, pn.id, start=start):
        t = g.nodes[tid].ast
        if isinstance(t, ast.Compare) and len(t.ops) == 1 and len(a) == 3 and \
                {_origin(g, t.left, tid), _origin(g, t.comparators[0], tid)} \
                == {unparse(origin(a[1])), unparse(origin(a[2]))}:
            if (isinstance(t.ops[0], ast.Eq) and lab == 'F') or \
                    (isinstance(t.ops[0], ast.NotEq) and lab == 'T'):
                oks = True
    rep.check(oks, rid, f, 'a notification for the state the task already has '
              'is skipped', construct='batch:skip-known',
              message='_update_tasks does not skip notifications whose state '
              'equals the current state before computing the progress',
              loc=f.loc(pc), history='a duplicated notification (informational'
              ' only: _task_state_progress also answers with an empty list)')
    # the replay loop
    asg = pn.ast
    passed = None
    if isinstance(asg, ast.Assign) and isinstance(asg.targets[0], ast.Tuple) \
            and len(asg.targets[0].elts) == 2 and \
            isinstance(asg.targets[0].elts[1], ast.Name):
        passed = asg.targets[0].elts[1].id
    if passed is None:
        raise AnalysisError('UNRECOGNISED-IDIOM %s: result of '
                            '_task_state_progress' % f.where)
    rl = [n for n in g.nodes if n.kind == 'for' and
          isinstance(n.ast.iter, ast.Name) and n.ast.iter.id == passed and
          isinstance(n.ast.target, ast.Name)]
    if len(rl) != 1:
        raise AnalysisError('UNRECOGNISED-IDIOM %s: replay loop over %s'
                            % (f.where, passed))
    R = rl[0]
    s = R.ast.target.id
    body = g.loop_body[R.id]
    upd = [c for c in calls_in(R.ast) if isinstance(c.func, ast.Attribute) and
           c.func.attr == '_update']
    setst = [n for n in g.stmt_nodes() if n.id in body and n.kind == 'stmt'
             and isinstance(n.ast, ast.Assign) and
             isinstance(n.ast.value, ast.Name) and n.ast.value.id == s and
             any(isinstance(t, ast.Subscript) and
                 isinstance(t.slice, ast.Constant) and
                 t.slice.value == 'state' for t in n.ast.targets)]
    rstart = loop_slice(g, R.id)[0]
    oku = len(upd) == 1 and bool(setst) and \
        must_pass(g, rstart, smap[id(upd[0])].id, [n.id for n in setst]) and \
        not [x for x in guards(g, smap[id(upd[0])].id, start=rstart)] and \
        upd[0].args and root_name(upd[0].args[0]) == root_name(
            setst[0].ast.targets[0])
    rep.check(oku, rid, f, "each passed state is written into the notification "
              "and applied through _update", construct='batch:replay',
              message="the replay loop of _update_tasks does not set "
              "task_dict['state'] = %s and then call _update(task_dict) "
              "unconditionally for every passed state" % s, loc=f.loc(R.ast),
              history='NEW -> AGENT_SCHEDULING: intermediate states are '
              'announced but never applied, or applied with the final target '
              'so that _update rejects the step')
    # rewrites of the passed list between progress and replay keep the order
    for n in g.stmt_nodes():
        if n.kind == 'stmt' and isinstance(n.ast, ast.Assign) and any(
                isinstance(t, ast.Name) and t.id == passed
                for t in n.ast.targets) and n is not pn:
            v = n.ast.value
            okv = isinstance(v, ast.Subscript) and \
                isinstance(v.value, ast.Name) and v.value.id == passed and \
                isinstance(v.slice, ast.Slice) and (
                    v.slice.step is None or unparse(v.slice.step) == '1')
            # a slice that drops elements is only sound for targets which
            # Task._update accepts without the single-step test
            if okv and (v.slice.lower is not None or
                        v.slice.upper is not None):
                exempt = _exempt_targets(prog)
                allowed = None
                for tid, lab in guards(g, n.id, start=start):
                    t = g.nodes[tid].ast
                    if isinstance(t, ast.Compare) and len(t.ops) == 1:
                        vv = prog.fold(f.module, t.comparators[0])
                        if vv is UNKNOWN:
                            continue
                        if isinstance(t.ops[0], ast.In) and lab == 'T':
                            allowed = set(vv)
                        elif isinstance(t.ops[0], ast.Eq) and lab == 'T':
                            allowed = {vv}
                rep.check(allowed is not None and allowed <= exempt, rid, f,
                          'intermediate states are dropped (`%s`) only for '
                          'targets exempt from the single-step test %s'
                          % (short(n.ast, 30), sorted(exempt)),
                          construct='batch:truncate',
                          message='_update_tasks drops intermediate states '
                          '(`%s`) for targets %s, but Task._update accepts '
                          'only %s without the single-step test: the '
                          'truncated update is rejected and the task is '
                          'stuck in its old state' % (
                              short(n.ast, 40), sorted(allowed) if allowed
                              else 'of any state', sorted(exempt)),
                          loc=f.loc(n.ast),
                          history='a notification jumps from AGENT_EXECUTING '
                          'to DONE: the replay is cut to [DONE], _update '
                          'raises, the task never becomes final')
            rep.check(okv, rid, f, '`%s` keeps the model order'
                      % short(n.ast, 40), construct=n.ast,
                      message='_update_tasks rewrites the passed states with '
                      '`%s`: not an order-preserving slice' % short(n.ast, 50),
                      loc=f.loc(n.ast), history='callbacks announce states in '
                      'the wrong order')
    # announcement: collected once per applied state, delivered once
    coll = [c for c in calls_in(R.ast) if isinstance(c.func, ast.Attribute) and
            c.func.attr == 'append' and isinstance(c.func.value, ast.Name) and
            c.args and s in {x.id for x in walk(c.args[0])
                             if isinstance(x, ast.Name)}]
    okc = len(coll) == 1 and upd and \
        set(guards(g, smap[id(coll[0])].id, start=rstart)) == \
        set(guards(g, smap[id(upd[0])].id, start=rstart))
    rep.check(okc, rid, f, 'one callback record per applied state',
              construct='batch:collect', message='_update_tasks does not '
              'collect exactly one (task, state) record per state it applies',
              loc=f.loc(R.ast), history='a state is applied without callback '
              'or announced twice')
    if coll:
        lst = coll[0].func.value.id
        notif = [n for n in g.nodes if n.kind == 'for' and
                 isinstance(n.ast.iter, ast.Name) and n.ast.iter.id == lst]
        bulk = [c for c in calls_in(f.node) if lst in
                {x.id for x in walk(c) if isinstance(x, ast.Name)} and
                call_name(c).startswith('self._') and
                'cb' in call_name(c)]
        okn = False
        for n in notif:
            if H.id in n.loops or R.id in n.loops:
                continue
            tv = stores_in_target(n.ast.target)
            for c in calls_in(n.ast):
                if call_name(c).startswith('self._') and 'cb' in \
                        call_name(c) and [unparse(x) for x in c.args] == tv:
                    okn = True
        okn = okn or any(H.id not in smap[id(c)].loops for c in bulk)
        rep.check(okn, rid, f, 'the collected (task, state) records are '
                  'delivered to the callbacks after the batch, in order',
                  construct='batch:deliver', message='_update_tasks does not '
                  'deliver the collected (task, state) records to the '
                  'callback dispatcher once, after the batch loop',
                  loc=f.loc(), history='state callbacks are never invoked, or '
                  'invoked inside the loop once per remaining notification')


# ------------------------------------------------------------------------------
#
def run(prog, rep, tier):
    rep.decided = ('the state table is a linear order with shared final '
        'value and X_PENDING directly before X; Task._state is written only '
        'by __init__ (NEW) and _update; _update is called only from the '
        'replay loop and the guarded pilot-death callback; in _update the '
        'DONE/FAILED early return and the single-step test (target - current '
        '!= 1 raises) dominate the write; _task_state_progress raises on two '
        'finals before comparing values, returns empty lists when there is no '
        'progress and builds the passed list as range(current+1, target) + '
        '[target]; the batch loop isolates raising calls per notification, '
        'skips known states, replays each passed state through _update and '
        'collects exactly one callback record per applied state, delivered '
        'after the loop.')
    rep.undecided = ('value semantics of _task_state_progress beyond its '
        'guards; what application callbacks do.')
    rep.assumptions = ['no other module writes Task._state through setattr '
                       'with a computed name',
                       'ru pubsub invokes _state_sub_cb once per message']
    rep.attempt(r06_1, prog, rep)
    rep.attempt(r06_2, prog, rep)
    rep.attempt(r06_3, prog, rep)
    rep.attempt(r06_4, prog, rep)
    rep.attempt(r06_5, prog, rep)


# ------------------------------------------------------------------------------
_S = 'states.py'
_T = 'task.py'
_M = 'task_manager.py'

MUTATIONS = [
    dict(name='R06.1 two non-final states share a value', rules=('R06.1',), edits=[
        (_S, "        AGENT_SCHEDULING             :  8,\n        AGENT_EXECUTING_PENDING      :  9,", "        AGENT_SCHEDULING             :  8,\n        AGENT_EXECUTING_PENDING      :  8,")]),
    dict(name='R06.1 CANCELED ranks below the other finals', rules=('R06.1',), edits=[
        (_S, "        CANCELED                     : 15}\n_task_state_inv", "        CANCELED                     : 14}\n_task_state_inv")]),
    dict(name='R06.1 executing ordered before scheduling', rules=('R06.1',), edits=[
        (_S, "        AGENT_SCHEDULING_PENDING     :  7,\n        AGENT_SCHEDULING             :  8,\n        AGENT_EXECUTING_PENDING      :  9,\n        AGENT_EXECUTING              : 10,", "        AGENT_EXECUTING_PENDING      :  7,\n        AGENT_EXECUTING              :  8,\n        AGENT_SCHEDULING_PENDING     :  9,\n        AGENT_SCHEDULING             : 10,")]),
    dict(name='R06.1 pending state after its active state', rules=('R06.1',), edits=[
        (_S, "        TMGR_STAGING_INPUT_PENDING   :  3,\n        TMGR_STAGING_INPUT           :  4,", "        TMGR_STAGING_INPUT           :  3,\n        TMGR_STAGING_INPUT_PENDING   :  4,")]),
    dict(name='R06.2 cancel() sets the state directly', rules=('R06.2',), edits=[
        (_T, "        self._tmgr.cancel_tasks(self.uid)\n", "        self._tmgr.cancel_tasks(self.uid)\n        self._state = rps.CANCELED\n")]),
    dict(name='R06.2 task manager pokes the state', rules=('R06.2',), edits=[
        (_M, "                task_dict['state'] = self._tasks[uid].state\n", "                task_dict['state'] = self._tasks[uid].state\n                task._state = task_dict['state']\n")]),
    dict(name='R06.2 raw notification applied in the state callback', rules=('R06.2',), edits=[
        (_M, "        self._update_tasks(tasks)\n\n        return True\n", "        for t in tasks:\n            if t['uid'] in self._tasks:\n                self._tasks[t['uid']]._update(t)\n\n        return True\n")]),
    dict(name='R06.2 Task starts in TMGR_SCHEDULING_PENDING', rules=('R06.2',), edits=[
        (_T, "        self._state            = rps.NEW\n", "        self._state            = rps.TMGR_SCHEDULING_PENDING\n")]),
    dict(name='R06.3 only DONE is sticky', rules=('R06.3',), edits=[
        (_T, "        if current in [rps.FAILED, rps.DONE]:", "        if current in [rps.DONE]:")]),
    dict(name='R06.3 sticky test on the target', rules=('R06.3',), edits=[
        (_T, "        if current in [rps.FAILED, rps.DONE]:", "        if target in [rps.FAILED, rps.DONE]:")]),
    dict(name='R06.3 sticky test polarity flipped', rules=('R06.3',), edits=[
        (_T, "        if current in [rps.FAILED, rps.DONE]:", "        if current not in [rps.FAILED, rps.DONE]:")]),
    dict(name='R06.3 single-step test accepts any forward step', rules=('R06.3',), edits=[
        (_T, "                if s_tgt - s_cur != 1:", "                if s_tgt - s_cur < 1:")]),
    dict(name='R06.3 single-step operands reversed', rules=('R06.3',), edits=[
        (_T, "                if s_tgt - s_cur != 1:", "                if s_cur - s_tgt != 1:")]),
    dict(name='R06.3 invalid step only logged', rules=('R06.3',), edits=[
        (_T, "                    raise RuntimeError('invalid state transition %s: %s -> %s'\n                            % (self.uid, current, target))\n", "")]),
    dict(name='R06.3 single-step test skipped for agent states', rules=('R06.3',), edits=[
        (_T, "            if target not in [rps.FAILED, rps.CANCELED]:\n                s_tgt", "            if target not in [rps.FAILED, rps.CANCELED] and 'AGENT' not in target:\n                s_tgt")]),
    dict(name='R06.3 contradictory finals compared numerically', rules=('R06.3',), edits=[
        (_S, "    if current in FINAL:\n        if target in FINAL:\n            raise ValueError('invalid transition for %s: %s -> %s'\n                             % (uid, current, target))\n\n    cur = _task_state_values[current]", "    cur = _task_state_values[current]")]),
    dict(name='R06.3 no-progress return replays the current state', rules=('R06.3',), edits=[
        (_S, "    if cur >= tgt:\n        # nothing to do, a similar or better progression happened earlier\n        return [current, []]\n\n    # dig out all intermediate states, skip current\n    passed = list()\n    for i in range(cur + 1,tgt):\n        passed.append(_task_state_inv[i])", "    if cur >= tgt:\n        # nothing to do, a similar or better progression happened earlier\n        return [current, [current]]\n\n    # dig out all intermediate states, skip current\n    passed = list()\n    for i in range(cur + 1,tgt):\n        passed.append(_task_state_inv[i])")]),
    dict(name='R06.3 equal states count as progress', rules=('R06.3',), edits=[
        (_S, "    if cur >= tgt:\n        # nothing to do, a similar or better progression happened earlier\n        return [current, []]\n\n    # dig out all intermediate states, skip current\n    passed = list()\n    for i in range(cur + 1,tgt):\n        passed.append(_task_state_inv[i])", "    if cur > tgt:\n        # nothing to do, a similar or better progression happened earlier\n        return [current, []]\n\n    # dig out all intermediate states, skip current\n    passed = list()\n    for i in range(cur + 1,tgt):\n        passed.append(_task_state_inv[i])")]),
    dict(name='R06.3 passed list starts at the current state', rules=('R06.3',), edits=[
        (_S, "    passed = list()\n    for i in range(cur + 1,tgt):\n        passed.append(_task_state_inv[i])", "    passed = list()\n    for i in range(cur,tgt):\n        passed.append(_task_state_inv[i])")]),
    dict(name='R06.4 batch aborts on a contradictory final (F16 reverted)', rules=('R06.4',), edits=[
        (_M, "                except Exception:\n                    # a contradicting or invalid update for one task must not\n                    # prevent the updates of the other tasks in this bulk\n                    self._log.exception('tmgr: invalid state update: %s', uid)\n                    continue\n", "                finally:\n                    pass\n")]),
    dict(name='R06.4 handler re-raises', rules=('R06.4',), edits=[
        (_M, "                    self._log.exception('tmgr: invalid state update: %s', uid)\n                    continue\n", "                    self._log.exception('tmgr: invalid state update: %s', uid)\n                    raise\n")]),
    dict(name='R06.4 only KeyError is caught', rules=('R06.4',), edits=[
        (_M, "                except Exception:\n                    # a contradicting", "                except KeyError:\n                    # a contradicting")],
         note='a typed handler that does not match what the callee raises'),
    dict(name='R06.5 progress arguments swapped', rules=('R06.5',), edits=[
        (_M, "                    target, passed = rps._task_state_progress(uid, current,\n                                                              target)", "                    target, passed = rps._task_state_progress(uid, target,\n                                                              current)")]),
    dict(name='R06.5 replay applies the final target in every step', rules=('R06.5',), edits=[
        (_M, "                        task_dict['state'] = s\n                        self._tasks[uid]._update(task_dict)\n", "                        self._tasks[uid]._update(task_dict)\n")]),
    dict(name='R06.5 replay announces without applying', rules=('R06.5',), edits=[
        (_M, "                        task_dict['state'] = s\n                        self._tasks[uid]._update(task_dict)\n\n                        to_notify.append([task, s])", "                        task_dict['state'] = s\n\n                        to_notify.append([task, s])")]),
    dict(name='R06.5 replay in reverse order', rules=('R06.5',), edits=[
        (_M, "                        passed = passed[-1:]\n", "                        passed = passed[::-1]\n")]),
    dict(name='R06.5 callbacks only for the last state', rules=('R06.5',), edits=[
        (_M, "                        self._tasks[uid]._update(task_dict)\n\n                        to_notify.append([task, s])", "                        self._tasks[uid]._update(task_dict)\n\n                    if passed:\n                        to_notify.append([task, passed[-1]])")],
         note='s is no longer in the record'),
    dict(name='R06.5 callbacks never delivered', rules=('R06.5',), edits=[
        (_M, "                for task, state in to_notify:\n                    self._task_cb(task, state)\n", "                pass\n"),
        (_M, "                self._bulk_cbs(set([task for task,_ in to_notify]))", "                pass")]),
    dict(name='R06.5 intermediate states dropped for every final target (seed C06-a)', rules=('R06.5',), edits=[
        (_M, "                    if target in [rps.CANCELED, rps.FAILED]:\n                        # don't replay", "                    if target in rps.FINAL:\n                        # don't replay")]),
]

SILENT = [
    dict(name='sticky test as two comparisons', edits=[
        (_T, "        if current in [rps.FAILED, rps.DONE]:", "        if current in (rps.DONE, rps.FAILED):")]),
    dict(name='single-step test as == 1 with else', edits=[
        (_T, "                if s_tgt - s_cur != 1:\n                    self._log.error('%s: invalid state transition %s -> %s',\n                                    self.uid, current, target)\n                    raise RuntimeError('invalid state transition %s: %s -> %s'\n                            % (self.uid, current, target))\n",
             "                if s_tgt - s_cur == 1:\n                    pass\n                else:\n                    raise RuntimeError('invalid state transition %s: %s -> %s'\n                            % (self.uid, current, target))\n")]),
    dict(name='handler catches the two designed exception types', edits=[
        (_M, "                except Exception:\n                    # a contradicting", "                except (ValueError, RuntimeError):\n                    # a contradicting")]),
    dict(name='known-state skip as !=', edits=[
        (_M, "                if current == target:\n                    self._log.debug('tmgr: state known: %s', uid)\n                    continue\n", "                if current != target:\n                    pass\n                else:\n                    continue\n")]),
    dict(name='no-progress return as tuple', edits=[
        (_S, "        return [current, []]\n\n    # dig out all intermediate states, skip current\n    passed = list()\n    for i in range(cur + 1,tgt):\n        passed.append(_task_state_inv[i])", "        return current, []\n\n    # dig out all intermediate states, skip current\n    passed = list()\n    for i in range(cur + 1,tgt):\n        passed.append(_task_state_inv[i])")]),
    dict(name='progress arguments via keywords-free locals renamed', edits=[
        (_M, "                current = task.state\n                target  = task_dict['state']\n", "                current = task.state\n                target  = task_dict['state']\n                cur_s, tgt_s = current, target\n")]),
    dict(name='FAILED/CANCELED truncation removed (information only)', edits=[
        (_M, "                    if target in [rps.CANCELED, rps.FAILED]:\n                        # don't replay intermediate states\n                        passed = passed[-1:]\n", "")]),
]
